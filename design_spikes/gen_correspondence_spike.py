import sys
sys.path.insert(0,'/repo')
import numpy as np, scipy.fftpack as fp, math
import nitime.algorithms as alg
rng=np.random.default_rng(0)
def me(x):
    x=float(x)
    return x.hex() if x>=0 else '('+x.hex()+')'
def me_old(x):
    x=float(x)
    if x==0: return "0;0"
    m,e=math.frexp(x); m=int(m*(1<<53)); e-=53
    while m%2==0: m//=2; e+=1
    return f"{m};{e}"
cases=[]
for c in range(300):
    N=int(rng.integers(8,65)); NFFT=N if rng.random()<0.5 else N+int(rng.integers(1,9))
    Fs=float(rng.choice([0.5,1.0,2.0,250.0,1000.0]))
    onesided=bool(rng.integers(0,2))
    x=rng.standard_normal(N)
    Sk=fp.fft(x,n=NFFT)
    f,P=alg.periodogram(x,Fs=Fs,N=NFFT,sides='onesided' if onesided else 'twosided')
    qs="["+";".join(f"{me(z.real)};{me(z.imag)}" for z in Sk)+"]"
    ps="["+";".join(me(p) for p in P)+"]"
    cases.append(f"(mkcase {NFFT} {N} {me(Fs)} {'true' if onesided else 'false'} {qs} {ps})")
open('Cases3.v','w').write("Require Import Spike3.\nOpen Scope float_scope.\nDefinition cases := [\n"+";\n".join(cases)+"].\nLemma corr : check_all cases = true.\nProof. vm_compute. reflexivity. Qed.\n")
