From Coq Require Export QArith List ZArith Bool PrimFloat FloatOps SpecFloat.
Export ListNotations.
Record case := mkcase { nfft : nat; n : nat; fs : float; onesided : bool; sk : list float; out : list float }.
Definition f2q (f : float) : Q :=
  match Prim2SF f with
  | S754_finite s m e => let z := if s then Z.neg m else Z.pos m in
       if (0 <=? e)%Z then inject_Z (z * 2^e) else Qmake z (Z.to_pos (2^(-e)))
  | _ => 0 end.
Definition qs (l : list float) : list Q := map f2q l.
Fixpoint pairs (l : list Q) : list (Q*Q) := match l with a::b::l => (a,b) :: pairs l | _ => [] end.
Open Scope Q_scope.
Definition norm2 (z : Q*Q) : Q := fst z * fst z + snd z * snd z.
Definition Fn (N:nat) := (N / 2 + 1)%nat.
Definition Fl (N:nat) := ((N + 1) / 2)%nat.
Definition model (c : case) : list Q :=
  let q := map norm2 (pairs (qs (sk c))) in
  let d := f2q (fs c) * inject_Z (Z.of_nat (n c)) in
  if onesided c then
    map (fun k => let v := nth k q 0 in
                  Qred ((if (Nat.ltb 0 k && Nat.ltb k (Fl (nfft c)))%bool then 2 * v else v) / d))
        (seq 0 (Fn (nfft c)))
  else map (fun v => Qred (v / d)) q.
Definition Qabs' (x:Q) := if Qle_bool 0 x then x else - x.
Definition close (a b : Q) : bool :=
  Qle_bool (Qabs' (a - b)) ((1#1000000000) * (Qabs' a + Qabs' b) + (1#1000000000000)).
Fixpoint all2 (l1 l2 : list Q) : bool :=
  match l1, l2 with [], [] => true | a::l1, b::l2 => close a b && all2 l1 l2 | _, _ => false end.
Definition check_all (cs : list case) := forallb (fun c => all2 (model c) (qs (out c))) cs.
