import sys; sys.path.insert(0,'/repo')
import numpy as np, warnings, hashlib, pickle
warnings.simplefilter('ignore')
import nitime.timeseries as ts, nitime.analysis as nta
from nitime.descriptors import OneTimeProperty
import inspect
log=[]; stack=[]
def wrap_class(cls):
    for klass in cls.__mro__:
        for name,d in list(vars(klass).items()):
            if isinstance(d,OneTimeProperty) and not getattr(d.getter,'_wrapped',False):
                orig=d.getter
                def mk(orig,name):
                    def g(obj):
                        parent=stack[-1] if stack else None
                        stack.append(name)
                        before=snap(obj)
                        try: return orig(obj)
                        finally:
                            after=snap(obj); stack.pop()
                            changed=[k for k in before if k in after and before[k]!=after[k] ]
                            log.append((parent,name,changed))
                    g._wrapped=True; g.__name__=name
                    return g
                d.getter=mk(orig,name)
def h(v):
    try:
        if isinstance(v,np.ndarray): return hashlib.md5(v.tobytes()).hexdigest()[:8]
        if isinstance(v,dict): return tuple(sorted((str(k),h(x)) for k,x in v.items()))
        if isinstance(v,(tuple,list)): return tuple(h(x) for x in v)
        if hasattr(v,'data') and isinstance(getattr(v,'data'),np.ndarray): return h(v.data)
        return repr(v)[:40]
    except Exception as e: return 'ERR'
def snap(obj): return {k:h(v) for k,v in obj.__dict__.items()}
wrap_class(nta.CoherenceAnalyzer)
rng=np.random.default_rng(0)
T=ts.TimeSeries(rng.standard_normal((3,256)),sampling_rate=2.0)
A=nta.CoherenceAnalyzer(T,unwrap_phases=True)
A.phase; A.delay; A.coherence
for l in log: print(l)
pubs=[n for k in type(A).__mro__ for n,d in vars(k).items() if isinstance(d,OneTimeProperty)]
print(pubs)
