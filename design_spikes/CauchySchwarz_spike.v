From Coq Require Import QArith List Arith Lia Psatz.
Open Scope Q_scope.
Fixpoint sumn (f : nat -> Q) (n : nat) : Q :=
  match n with O => 0 | S n' => sumn f n' + f n' end.
Lemma sumn_ext f g n : (forall k, (k < n)%nat -> f k == g k) -> sumn f n == sumn g n.
Proof. induction n; simpl; intros H; [reflexivity|]. rewrite IHn, H; auto; try reflexivity. Qed.
Lemma sumn_plus f g n : sumn (fun k => f k + g k) n == sumn f n + sumn g n.
Proof. induction n; simpl; [ring|rewrite IHn; ring]. Qed.
Lemma sumn_scal c f n : sumn (fun k => c * f k) n == c * sumn f n.
Proof. induction n; simpl; [ring|rewrite IHn; ring]. Qed.
Lemma sumn_nonneg f n : (forall k, (k < n)%nat -> 0 <= f k) -> 0 <= sumn f n.
Proof. induction n; simpl; intros H; [apply Qle_refl|].
  apply (Qle_trans _ (0+0)); [ring_simplify; apply Qle_refl|]. apply Qplus_le_compat; auto. Qed.
Lemma sq_nonneg (x : Q) : 0 <= x * x.
Proof. destruct (Qlt_le_dec x 0) as [H|H].
  - setoid_replace (x*x) with ((-x)*(-x)) by ring. apply Qmult_le_0_compat; lra.
  - apply Qmult_le_0_compat; assumption. Qed.
Lemma sumn_zero_sq f n : sumn (fun k => f k * f k) n == 0 -> forall k, (k < n)%nat -> f k == 0.
Proof. induction n; simpl; intros H k Hk; [lia|].
  assert (A: 0 <= sumn (fun k => f k * f k) n) by (apply sumn_nonneg; intros; apply sq_nonneg).
  pose proof (sq_nonneg (f n)) as B.
  assert (f n * f n == 0) by lra. assert (sumn (fun k => f k * f k) n == 0) by lra.
  destruct (Nat.eq_dec k n) as [->|].
  - destruct (Qeq_dec (f n) 0); auto. exfalso.
    assert (0 < f n * f n). { destruct (Qlt_le_dec (f n) 0). setoid_replace (f n * f n) with ((-f n)*(-f n)) by ring. apply Qmult_lt_0_compat; lra. apply Qmult_lt_0_compat; lra. } lra.
  - apply IHn; auto; lia. Qed.

(* real Cauchy-Schwarz over Q: (sum a b)^2 <= sum a^2 * sum b^2 *)
Theorem cauchy_schwarz a b n :
  sumn (fun k => a k * b k) n * sumn (fun k => a k * b k) n
  <= sumn (fun k => a k * a k) n * sumn (fun k => b k * b k) n.
Proof.
  set (S := sumn (fun k => a k * b k) n). set (A := sumn (fun k => a k * a k) n). set (B := sumn (fun k => b k * b k) n).
  assert (HA: 0 <= A) by (apply sumn_nonneg; intros; apply sq_nonneg).
  assert (HB: 0 <= B) by (apply sumn_nonneg; intros; apply sq_nonneg).
  (* for every t: 0 <= A t^2 + 2 S t + B *)
  assert (P: forall t, 0 <= A*t*t + 2*S*t + B).
  { intros t. assert (E: sumn (fun k => (a k * t + b k) * (a k * t + b k)) n == A*t*t + 2*S*t + B).
    { unfold A, S, B. rewrite <- !sumn_scal.
      transitivity (sumn (fun k => (t*t) * (a k * a k) + ((2*t) * (a k * b k) + b k * b k)) n).
      - apply sumn_ext; intros; ring.
      - rewrite sumn_plus, sumn_plus, !sumn_scal. ring. }
    rewrite <- E. apply sumn_nonneg; intros; apply sq_nonneg. }
  destruct (Qeq_dec A 0) as [HA0|HA0].
  - (* all a = 0 so S = 0 *)
    assert (S == 0). { unfold S. transitivity (sumn (fun _ => 0) n).
      apply sumn_ext; intros k Hk. rewrite (sumn_zero_sq a n HA0 k Hk). ring.
      clear. induction n; simpl; [reflexivity|rewrite IHn; ring]. }
    rewrite H, HA0. ring_simplify. apply Qle_refl.
  - assert (0 < A) by (destruct (Qlt_le_dec 0 A); auto; exfalso; apply HA0; lra).
    specialize (P (- S / A)).
    assert (E: A * (- S / A) * (- S / A) + 2 * S * (- S / A) + B == B - S*S/A) by (field; auto).
    rewrite E in P.
    assert (S*S/A <= B) by lra.
    apply (Qmult_le_compat_r _ _ A) in H0; [|lra].
    setoid_replace (S*S/A*A) with (S*S) in H0 by (field; auto). lra.
Qed.
Print Assumptions cauchy_schwarz.
