From Coq Require Import List Arith Lia Bool.
Import ListNotations.
Section Memo.
Variable V : Type.
(* an analyzer class: for each result name (nat) its dependency list, its pure
   function of the dependency values, and the stored entries it rewrites in place *)
Variable deps : nat -> list nat.
Variable fn : nat -> list V -> V.
Variable clobber : nat -> list (nat * (V -> V)).
Variable rk : nat -> nat.                       (* acyclicity certificate *)
Hypothesis rk_dec : forall r d, In d (deps r) -> rk d < rk r.

Definition state := nat -> option V.
Definition upd (s : state) (k : nat) (v : V) : state := fun x => if Nat.eqb x k then Some v else s x.
Definition apply_clobber (s : state) (c : nat * (V -> V)) : state :=
  match s (fst c) with Some v => upd s (fst c) (snd c v) | None => s end.

(* OneTimeProperty.__get__ : stored value, or run the getter (which reads its
   dependencies through the same mechanism), store, return *)
Fixpoint read (fuel : nat) (s : state) (r : nat) : option (V * state) :=
  match s r with
  | Some v => Some (v, s)
  | None =>
    match fuel with
    | O => None
    | S fuel' =>
      let fix go (ds : list nat) (s : state) (acc : list V) : option (list V * state) :=
        match ds with
        | [] => Some (rev acc, s)
        | d :: ds' => match read fuel' s d with
                      | Some (v, s') => go ds' s' (v :: acc)
                      | None => None end
        end in
      match go (deps r) s [] with
      | Some (vals, s') =>
          let v := fn r vals in
          let s'' := fold_left apply_clobber (clobber r) s' in
          Some (v, upd s'' r v)
      | None => None end
    end
  end.

(* the value a freshly built analyzer returns when r is read first *)
Fixpoint val (fuel : nat) (r : nat) : V :=
  match fuel with O => fn r [] | S f => fn r (map (val f) (deps r)) end.

Definition wf := forall r, clobber r = [].
Definition sound (s : state) := forall x v, s x = Some v -> forall f, rk x < f -> v = val f x.

Lemma val_fuel : forall f1 f2 r, rk r < f1 -> rk r < f2 -> val f1 r = val f2 r.
Proof.
  induction f1 as [|f1 IH]; intros f2 r H1 H2; [lia|]. destruct f2 as [|f2]; [lia|]. simpl. f_equal.
  apply map_ext_in. intros d Hd. apply IH; specialize (rk_dec _ _ Hd); lia.
Qed.

Lemma read_sound : wf -> forall fuel s r, sound s -> rk r < fuel ->
  exists s', read fuel s r = Some (val fuel r, s') /\ sound s' /\ (forall x v, s x = Some v -> s' x = Some v).
Proof.
  intros Hwf. induction fuel as [|fuel IH]; intros s r Hs Hr; [lia|].
  cbn [read]. destruct (s r) as [v|] eqn:E.
  - exists s. split; [|split; auto]. f_equal. f_equal. apply (Hs _ _ E). assumption.
  - (* the inner loop over dependencies *)
    assert (G: forall ds s0 acc, sound s0 -> (forall d, In d ds -> rk d < fuel) ->
       exists s1, (fix go (ds : list nat) (s : state) (acc : list V) {struct ds} : option (list V * state) :=
          match ds with [] => Some (rev acc, s)
          | d :: ds' => match read fuel s d with Some (v, s') => go ds' s' (v :: acc) | None => None end end) ds s0 acc
          = Some (rev acc ++ map (val fuel) ds, s1) /\ sound s1 /\ (forall x v, s0 x = Some v -> s1 x = Some v)).
    { induction ds as [|d ds IHds]; intros s0 acc Hs0 Hd.
      - exists s0. rewrite app_nil_r. auto.
      - destruct (IH s0 d Hs0 (Hd d (or_introl eq_refl))) as (s1 & R1 & S1 & M1). rewrite R1.
        destruct (IHds s1 (val fuel d :: acc) S1 (fun x Hx => Hd x (or_intror Hx))) as (s2 & R2 & S2 & M2).
        exists s2. rewrite R2. simpl. rewrite <- app_assoc. simpl. split; [reflexivity|]. split; auto. }
    destruct (G (deps r) s [] Hs) as (s1 & R1 & S1 & M1).
    { intros d Hd. specialize (rk_dec _ _ Hd). lia. }
    rewrite R1. simpl rev. simpl app. rewrite (Hwf r). simpl fold_left.
    eexists. split; [reflexivity|]. split.
    + intros x v Hx f Hf. unfold upd in Hx. destruct (Nat.eqb x r) eqn:Exr.
      * apply Nat.eqb_eq in Exr. subst x. injection Hx as <-.
        change (fn r (map (val fuel) (deps r))) with (val (S fuel) r). apply val_fuel; lia.
      * apply (S1 _ _ Hx); assumption.
    + intros x v Hx. unfold upd. destruct (Nat.eqb x r) eqn:Exr.
      * apply Nat.eqb_eq in Exr. subst x. congruence.
      * auto.
Qed.

(* a history of reads, each with enough fuel *)
Fixpoint run (F : nat) (s : state) (h : list nat) : option state :=
  match h with [] => Some s | r :: h' => match read F s r with Some (_, s') => run F s' h' | None => None end end.

Theorem order_independent : wf -> forall F h r,
  (forall x, In x (r :: h) -> rk x < F) ->
  exists s, run F (fun _ => None) h = Some s /\
            exists s', read F s r = Some (val F r, s').
Proof.
  intros Hwf F h r HF.
  assert (A: forall h s0, sound s0 -> (forall x, In x h -> rk x < F) -> exists s, run F s0 h = Some s /\ sound s).
  { induction h0 as [|x h0 IHh]; intros s0 Hs0 Hh; simpl.
    - eauto.
    - destruct (read_sound Hwf F s0 x Hs0 (Hh x (or_introl eq_refl))) as (s1 & R & S1 & _). rewrite R.
      apply IHh; auto. intros y Hy. apply Hh. right; assumption. }
  destruct (A h (fun _ => None)) as (s & R & Ss).
  { intros x v Hx. discriminate. } { intros x Hx. apply HF. right; assumption. }
  exists s. split; auto.
  destruct (read_sound Hwf F s r Ss (HF r (or_introl eq_refl))) as (s' & R' & _). eauto.
Qed.
End Memo.
Print Assumptions order_independent.
