From Coq Require Import QArith Field.
Open Scope Q_scope.
(* interior row of T x = b from the LDL^T recurrences used by tridisolve *)
Lemma row_interior (ep e d Dp D lp l yp y b xp x xn : Q) :
  ~ Dp == 0 -> ~ D == 0 ->
  lp == ep / Dp -> l == e / D ->          (* ew[k-1], ew[k] after loop 1 *)
  D == d - ep * lp ->                      (* dw[k] after loop 1 *)
  y == b - lp * yp ->                      (* forward sweep *)
  xp == yp / Dp - lp * x ->                (* back substitution at k-1 *)
  x == y / D - l * xn ->                   (* back substitution at k *)
  ep * xp + d * x + e * xn == b.
Proof.
  intros HDp HD Hlp Hl HDk Hy Hxp Hx.
  assert (d == D + ep * lp) as -> by (rewrite HDk; ring).
  rewrite Hxp, Hx, Hy, Hl, Hlp. field. split; assumption.
Qed.
Print Assumptions row_interior.
