From Coq Require Import ZArith List PrimFloat Uint63 FloatOps SpecFloat.
Open Scope Z_scope.
(* exact value of a finite float as (m, e): m * 2^e *)
Definition f2ze (f : float) : option (Z * Z) :=
  match Prim2SF f with
  | S754_zero _ => Some (0, 0)
  | S754_finite s m e => Some ((if s then Z.neg m else Z.pos m), e)
  | _ => None
  end.
(* round half even of m*2^e to integer *)
Definition rne (m e : Z) : Z :=
  if 0 <=? e then m * 2^e else
  let d := 2^(-e) in
  let q := m / d in let r := m mod d in
  match Z.compare (2*r) d with
  | Lt => q | Gt => q+1 | Eq => if Z.even q then q else q+1 end.
Definition ctor_float (x : float) (conv : float) : option Z :=
  match f2ze (PrimFloat.mul x conv) with Some (m,e) => Some (rne m e) | None => None end.
Eval vm_compute in ctor_float 0x1.f9add3c0ca458p-4%float 1e12%float.
Eval vm_compute in ctor_float 2.5%float 1%float.
Eval vm_compute in ctor_float 3.5%float 1%float.
Eval vm_compute in ctor_float (-2.5)%float 1%float.
Eval vm_compute in ctor_float 2.2%float 60e12%float.
Eval vm_compute in (PrimFloat.div 1 3)%float.
