#!/bin/bash
# Full .vo build of the static Coq development (Base, Model, Proofs, Props) and the gate
# that no axiom is declared / no check is switched off anywhere in it.
set -e
cd /verif/coq
if grep -rnE '\b(Admitted|admit|Axiom|Axioms|Parameter|Parameters|Conjecture|Admit Obligations)\b|Unset Guard|bypass_check|type-in-type|impredicative-set|Unset Universe Checking|Unset Positivity' \
     --include='*.v' Base Model Check Proofs Props | grep -v '^\S*:[0-9]*:\s*(\*' ; then
  echo "GATE: forbidden declaration found" >&2; exit 3
fi
{ echo "-Q . NT"; ls Base/*.v Model/*.v Check/*.v Proofs/*.v Props/*.v 2>/dev/null || true; } > _CoqProject.new
if ! cmp -s _CoqProject.new _CoqProject 2>/dev/null; then mv _CoqProject.new _CoqProject; coq_makefile -f _CoqProject -o Makefile >/dev/null 2>&1; else rm _CoqProject.new; fi
[ -f Makefile ] || coq_makefile -f _CoqProject -o Makefile >/dev/null 2>&1
timeout 2400 make -j16 -k 2>&1 | grep -v 'WARNING conda' | tail -30
rc=${PIPESTATUS[0]}
# the build counts as failed only if a registered property's theorems did not build
# (a property still under construction must not take the others down with it)
for pid in $(python3 -c "import json;print(' '.join(c['property_id'] for c in json.load(open('/verif/MANIFEST.json'))['checks']))"); do
  if [ ! -f Props/$pid.vo ] || ! make -q Props/$pid.vo >/dev/null 2>&1; then echo "BUILD: Props/$pid.vo missing or out of date" >&2; exit 1; fi
done
[ "$1" = "-k" ] && exit 0
if [ $rc -ne 0 ]; then echo "BUILD: some file outside the registered properties failed to build (see above)" >&2; fi
exit 0
