#!/bin/bash
# Full .vo build of the static Coq development (Base, Model, Proofs, Props) and the gate
# that no axiom is declared / no check is switched off anywhere in it.
set -e
cd /verif/coq
if grep -rnE '\b(Admitted|admit|Axiom|Axioms|Parameter|Parameters|Conjecture|Admit Obligations)\b|Unset Guard|bypass_check|type-in-type|impredicative-set|Unset Universe Checking|Unset Positivity' \
     --include='*.v' Base Model Check Proofs Props | grep -v '^\S*:[0-9]*:\s*(\*' ; then
  echo "GATE: forbidden declaration found" >&2; exit 3
fi
{ echo "-Q . NT"; ls Base/*.v Model/*.v Check/*.v Proofs/*.v Props/*.v 2>/dev/null || true; } > _CoqProject.new
if ! cmp -s _CoqProject.new _CoqProject 2>/dev/null; then mv _CoqProject.new _CoqProject; coq_makefile -f _CoqProject -o Makefile >/dev/null 2>&1; else rm _CoqProject.new; fi
[ -f Makefile ] || coq_makefile -f _CoqProject -o Makefile >/dev/null 2>&1
timeout 2400 make -j16 $1 2>&1 | grep -v 'WARNING conda' | tail -30
exit ${PIPESTATUS[0]}
