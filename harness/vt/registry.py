"""Per-property registration data from which MANIFEST.json is generated (tools/mk_manifest.py)."""

CHECKS = {
    "C01": {
        "text": "Unbounded Coq theorems over an executable model of TimeArray (unit table, constructor rounding with "
                "PrimFloat bit-exact float product and round-half-even, int64 wrap written explicitly, operand conversion, "
                "broadcasting, result unit, reductions): exactness of every constructor path and of + - r+ r- and the six "
                "comparisons for all units/lengths, reductions, rewrap/convert_unit invariance. Tie to /repo on every run: "
                "the unit table read by reflection is proved equal to the model's (G), and ~2.5k (quick) / 40k (thorough) "
                "seeded calls are evaluated by the Coq kernel on the model and compared exactly with the implementation's "
                "results (K); an exact Fraction oracle searches for the failing input when a lemma breaks.",
        "note": "Trusted: Coq kernel + vm_compute; hand model (Model/TimeArray.v) tied by G+K only on sampled calls; numpy "
                "int64 = two's complement, float64 mul = IEEE (PrimFloat); harness emission/classification. mean/std not "
                "covered (not in the statement). Known finding: numpy scalar on the left of + / -.",
        "technique": "Coq proof over hand model + kernel-evaluated correspondence (vm_compute) + reflection table lemma",
        "design_ref": "DESIGN.md §6 C01",
    },
    "C15": {
        "text": "Proves, for every analyzer output that is a time series (normalisation, Hilbert, wavelet, filters, cross-correlation, "
                "signal/noise, event-related), that the output is built by a constructor call handing over the sampling rate or interval, "
                "t0 and time unit, and that such a call yields exactly the input's interval, unit and start; for correlation and "
                "event-locked results the documented lag/offset with zero lag labelled 0; that in exact arithmetic the rate handed to the "
                "algorithm layer is 10^12 / interval_ps whatever the unit; that the file reader returns the requested voxels in the order "
                "requested, ROI by ROI and file by file, with TR as sampling interval, and that concatenation appends data in time for any "
                "number of runs. The keyword table is read off the running code (G) and descriptors of ~330 (quick) / ~2800 (thorough) "
                "seeded cases are compared with the model inside Coq (K). Analyzer-versus-algorithm equality is differential validation only.",
        "note": "Partial. The binary64 rate hand-over is modelled bit-exactly with PrimFloat and compared exactly in K, but its exactness "
                "(rate_ok) is a hypothesis of the axis theorems, refuted from 2^49 ps on (known finding). Print Assumptions lists only the "
                "PrimFloat/PrimInt63 primitives. Trusted: numpy fancy indexing and np.concatenate, the nibabel int16 round trip, the Fs "
                "recorder wrapping get_spectra/periodogram/multi_taper_psd/cache_fft/wmorlet/wlogmorlet/get_freqs/mlab.psd. FilterAnalyzer "
                "values belong to C18; the .time attribute is compared only below 2^49 ps.",
        "technique": "Coq proof over Gallina descriptor model (list/Z/Q theorems) + reflected keyword table (G) + kernel-evaluated correspondence (K) + differential oracle",
        "design_ref": "DESIGN.md §6 C15",
    },
}

NOT_YET = {}
