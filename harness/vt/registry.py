"""Per-property registration data from which MANIFEST.json is generated (tools/mk_manifest.py)."""

CHECKS = {
    "C01": {
        "text": "Unbounded Coq theorems over an executable model of TimeArray (unit table, constructor rounding with "
                "PrimFloat bit-exact float product and round-half-even, int64 wrap written explicitly, operand conversion, "
                "broadcasting, result unit, reductions): exactness of every constructor path and of + - r+ r- and the six "
                "comparisons for all units/lengths, reductions, rewrap/convert_unit invariance. Tie to /repo on every run: "
                "the unit table read by reflection is proved equal to the model's (G), and ~2.5k (quick) / 40k (thorough) "
                "seeded calls are evaluated by the Coq kernel on the model and compared exactly with the implementation's "
                "results (K); an exact Fraction oracle searches for the failing input when a lemma breaks.",
        "note": "Trusted: Coq kernel + vm_compute; hand model (Model/TimeArray.v) tied by G+K only on sampled calls; numpy "
                "int64 = two's complement, float64 mul = IEEE (PrimFloat); harness emission/classification. mean/std not "
                "covered (not in the statement). Known finding: numpy scalar on the left of + / -.",
        "technique": "Coq proof over hand model + kernel-evaluated correspondence (vm_compute) + reflection table lemma",
        "design_ref": "DESIGN.md §6 C01",
    },
}

NOT_YET = {}
