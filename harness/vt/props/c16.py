"""C16 — operations never corrupt their operands, copies or inputs.

P: coq/Props/C16.v (frame / copy-disjointness theorems over the store-and-alias calculus of
   Model/Alias.v, for all stores, values and operand kinds; both exits)
G: one row per (method x operand kind) on canonical objects: observed bits (raised / which
   arguments changed, byte-wise / which arguments the result shares memory with); a Coq lemma
   proves by vm_compute that the model predicts exactly these bits
K: seeded HISTORIES (initial objects, a list of calls some of which fail: bad NFFT, mismatched
   shapes, non-uniform increments; copies followed by in-place operations on the copy): the Coq
   kernel runs the model programs on the model store and compares exception classes, the final
   byte-level snapshot of every object the caller holds, np.shares_memory and attribute identity
oracle (the search): before/after byte snapshots around every call of every history, and around
   every algorithm / utils / analyzer / time-object entry point of the wider sweep (which is
   validation only: those entry points are not modelled)
"""
import inspect
import json

import numpy as np

from vt import core
from vt.core import Case, Fail, zlit, nlit, blit, llit, zlist

DT = {"int32": "I32", "int64": "I64", "float64": "F64", "bool": "B8"}
NPDT = {"int32": np.int32, "int64": np.int64, "float64": np.float64}
UNITS = ["ps", "ns", "us", "ms", "s", "m"]
ERR = {"ValueError": "EValue", "TypeError": "EType", "UFuncTypeError": "EType", "IndexError": "EIndex",
       "AttributeError": "EAttr", "ZeroDivisionError": "EZero"}
INPLACE = ("ta_set", "ut_iop", "ut_imul", "ts_iop")     # documented in-place on their target x
# ways of deriving a new object through numpy / the copy module rather than through .copy():
# name -> (shift of the values, or None for a view; callable)
DERIVE = {
    "copy_copy": (0, lambda x: __import__("copy").copy(x)),
    "deepcopy": (0, lambda x: __import__("copy").deepcopy(x)),
    "np_copy_subok": (0, lambda x: np.copy(x, subok=True)),
    "np_array_subok": (0, lambda x: np.array(x, subok=True)),
    "add0": (0, lambda x: x + 0),
    "sub1": (-1, lambda x: x - 1),
    "np_add0": (0, lambda x: np.add(x, 0)),
    "view": (None, lambda x: x.view()),
    "slice_all": (None, lambda x: x[:] if x.ndim else x[...]),
}
DERIVE_FOR = {"uniform": list(DERIVE), "time": ["copy_copy", "deepcopy", "np_copy_subok", "np_array_subok", "view", "slice_all"],
              "series": ["deepcopy"]}


def factor(u):
    import nitime.timeseries as ts
    return int(ts.time_unit_conversion[u])


def nats(l):
    return llit([nlit(v) for v in l])


# ------------------------------------------------------------------ objects
def build(d):
    """the implementation object for a description"""
    import nitime.timeseries as ts
    k = d["k"]
    if k == "arr":
        return np.array(d["d"], dtype=NPDT[d["dt"]]).reshape(d["sh"])
    if k == "list":
        return [float(v) for v in d["d"]] if d["fl"] else [int(v) for v in d["d"]]
    if k == "time":
        a = np.array(d["d"], dtype=np.int64).reshape(d["sh"])       # picoseconds
        t = ts.TimeArray(a, time_unit="ps")
        t.convert_unit(d["u"])
        return t
    if k == "uniform":
        return ts.UniformTime(t0=d["t0"], sampling_interval=d["si"], length=d["n"], time_unit=d["u"])
    if k == "series":
        a = np.array(d["d"], dtype=NPDT[d["dt"]]).reshape(d["sh"])
        return ts.TimeSeries(a, t0=d["t0"], sampling_interval=d["si"], time_unit=d["u"], metadata={"name": "x", "n": 1})
    raise KeyError(k)


def ivals(a):
    """integer values of an array, or None when some value is not an integer"""
    a = np.asarray(a)
    if a.dtype.kind in "iub":
        return [int(v) for v in a.ravel()]
    if a.dtype.kind == "f":
        if not np.all(np.isfinite(a)) or np.any(a != np.round(a)):
            return None
        return [int(v) for v in a.ravel()]
    return None


def main_array(o):
    import nitime.timeseries as ts
    if isinstance(o, ts.TimeSeriesBase):
        return o.data
    if isinstance(o, np.ndarray):
        return o
    return None


def attr_objs(o):
    import nitime.timeseries as ts
    if isinstance(o, (ts.UniformTime, ts.TimeSeries)):
        return [getattr(o, a, None) for a in ("t0", "sampling_interval", "duration")]
    return []


def attr_values_snap(o):
    """what remains observable of an object whose samples legitimately moved (it shares memory with the
    target of an in-place call: numpy view semantics): class, shape, dtype, unit and the VALUES of its
    attribute objects"""
    import nitime.timeseries as ts
    if isinstance(o, ts.TimeSeriesBase):
        return ("series-attrs", np.asarray(o.data).shape, str(np.asarray(o.data).dtype),
                tuple(bytes_snap(a) for a in attr_objs(o)), o.time_unit, float(o.sampling_rate))
    if isinstance(o, np.ndarray):
        base = ("nd-attrs", type(o).__name__, o.shape, o.strides, str(o.dtype))
        if isinstance(o, ts.TimeInterface):
            base += (o.time_unit, int(o._conversion_factor))
        if isinstance(o, ts.UniformTime):
            base += (tuple(bytes_snap(a) for a in attr_objs(o)), float(o.sampling_rate))
        return base
    return bytes_snap(o)


def bytes_snap(o):
    """byte-level snapshot used by the oracle: everything a caller can observe of the object"""
    import nitime.timeseries as ts
    if isinstance(o, ts.TimeSeriesBase):
        return ("series", bytes_snap(np.asarray(o.data)), tuple(bytes_snap(a) for a in attr_objs(o)),
                o.time_unit, float(o.sampling_rate), bytes_snap(getattr(o, "metadata", None)))
    if isinstance(o, np.ndarray):
        # shape, strides, dtype and the bytes in logical (C) order, whatever the memory layout
        base = ("nd", type(o).__name__, o.shape, o.strides, str(o.dtype), o.tobytes())
        if isinstance(o, ts.TimeInterface):
            base += (o.time_unit, int(o._conversion_factor))
        if isinstance(o, ts.UniformTime):
            base += (tuple(bytes_snap(a) for a in attr_objs(o)), float(o.sampling_rate))
        return base
    if isinstance(o, (list, tuple)):
        return (type(o).__name__, tuple(bytes_snap(x) for x in o))
    if isinstance(o, dict):
        return ("dict", tuple((k, bytes_snap(v)) for k, v in sorted(o.items(), key=lambda kv: str(kv[0]))))
    return ("o", repr(o))


def osnap(o, opaque=False):
    """snapshot in the vocabulary of the model (JSON-able)"""
    import nitime.timeseries as ts
    if isinstance(o, list):
        fl = any(isinstance(v, float) for v in o)
        return {"t": "list", "fl": fl, "d": [int(v) for v in o] if all(float(v) == int(v) for v in o) else None}
    if isinstance(o, ts.TimeSeriesBase):
        a = np.asarray(o.data)
        return {"t": "series", "dt": str(a.dtype), "sh": list(a.shape), "d": ivals(a),
                "t0": int(o.t0), "si": int(o.sampling_interval), "dur": int(o.duration)}
    a = np.asarray(o)
    if isinstance(o, ts.UniformTime):
        return {"t": "uniform", "dt": str(a.dtype), "sh": list(a.shape), "d": ivals(a), "cf": int(o._conversion_factor),
                "t0": int(o.t0), "si": int(o.sampling_interval), "dur": int(o.duration)}
    cf = int(o._conversion_factor) if isinstance(o, ts.TimeInterface) else 1
    if opaque:
        return {"t": "opaque", "dt": str(a.dtype), "sh": list(a.shape)}
    return {"t": "arr", "dt": str(a.dtype), "sh": list(a.shape), "d": ivals(a), "cf": cf}


def osnap_coq(s):
    t = s["t"]
    if t == "list":
        return "(OList %s %s)" % (blit(s["fl"]), zlist(s["d"]))
    if t == "opaque" or (t == "arr" and s["d"] is None):
        return "(OOpaque %s %s)" % (DT.get(s["dt"], "F64"), nats(s["sh"]))
    if t == "arr":
        return "(OArr %s %s %s %s)" % (DT[s["dt"]], nats(s["sh"]), zlist(s["d"]), zlit(s["cf"]))
    if t == "uniform":
        return "(OUniform %s %s %s %s %s %s)" % (nats(s["sh"]), zlist(s["d"]), zlit(s["cf"]), zlit(s["t0"]),
                                                 zlit(s["si"]), zlit(s["dur"]))
    if t == "series":
        return "(OSeries %s %s %s %s %s %s)" % (DT[s["dt"]], nats(s["sh"]), zlist(s["d"]), zlit(s["t0"]),
                                                zlit(s["si"]), zlit(s["dur"]))
    raise KeyError(t)


def desc_coq(d, obj):
    """Coq objdesc from the description and the built object (its observed initial values)"""
    s = osnap(obj)
    k = d["k"]
    if k == "arr":
        return "(DArr %s %s %s)" % (DT[d["dt"]], nats(s["sh"]), zlist(s["d"]))
    if k == "list":
        return "(DList %s %s)" % (blit(d["fl"]), zlist(d["d"]))
    if k == "time":
        return "(DTime %s %s %s)" % (zlit(s["cf"]), nats(s["sh"]), zlist(s["d"]))
    if k == "uniform":
        return "(DUniform %s %s %s %s %s)" % (zlit(s["cf"]), zlist(s["d"]), zlit(s["t0"]), zlit(s["si"]), zlit(s["dur"]))
    if k == "series":
        return "(DSeries %s %s %s %s %s %s %s)" % (DT[d["dt"]], nats(s["sh"]), zlist(s["d"]), zlit(factor(d["u"])),
                                                   zlit(s["t0"]), zlit(s["si"]), zlit(s["dur"]))
    raise KeyError(k)


def operand_coq(o):
    if "var" in o:
        return "(OVar %s)" % nlit(o["var"])
    if "int" in o:
        return "(OInt %s)" % zlit(o["int"])
    return "(OFloat %s)" % zlit(int(o["float"]))


def step_coq(st):
    op = st["op"]
    if op == "ta_op":
        return "(STaOp %s %s %s)" % (st["f"], nlit(st["x"]), operand_coq(st["o"]))
    if op == "ta_set":
        return "(STaSet %s %s %s %s)" % (nlit(st["x"]), nlit(st["a"]), nlit(st["n"]), operand_coq(st["o"]))
    if op == "ut_iop":
        return "(SUtIop %s %s %s)" % (blit(st["neg"]), nlit(st["x"]), operand_coq(st["o"]))
    if op == "ut_imul":
        return "(SUtImul %s %s)" % (nlit(st["x"]), operand_coq(st["o"]))
    if op == "copy":
        return "(SCopy %s)" % nlit(st["x"])
    if op == "derive":
        k = DERIVE[st["how"]][0]
        return "(SDerive %s %s)" % ("None" if k is None else "(Some %s)" % zlit(k), nlit(st["x"]))
    if op == "ts_op":
        return "(STsOp %s %s %s)" % (st["f"], nlit(st["x"]), operand_coq(st["o"]))
    if op == "ts_iop":
        return "(STsIop %s %s %s)" % (st["f"], nlit(st["x"]), operand_coq(st["o"]))
    if op == "csd":
        return "(SCsd %s %s %s)" % (nlit(st["x"]), "None" if st.get("k") is None else "(Some %s)" % nlit(st["k"]),
                                    "None" if st["N"] is None else "(Some %s)" % zlit(st["N"]))
    if op == "boxcar":
        return "(SBoxcar %s)" % nlit(st["x"])
    if op == "fboxcar":
        return "(SFBoxcar %s)" % nlit(st["x"])
    raise KeyError(op)


# ------------------------------------------------------------------ running a call on the implementation
def operand_obj(env, o):
    if "var" in o:
        return env[o["var"]]
    if "int" in o:
        return int(o["int"])
    return float(o["float"])


def do_step(env, st):
    """returns (result object or None, opaque flag); raises what the implementation raises"""
    import nitime.algorithms as tsa
    import nitime.analysis as nta
    op = st["op"]
    x = env[st["x"]]
    if op == "ta_op":
        v = operand_obj(env, st["o"])
        f = st["f"]
        r = {"FAdd": lambda: x + v, "FSub": lambda: x - v, "FRAdd": lambda: x.__radd__(v),
             "FRSub": lambda: x.__rsub__(v), "FLt": lambda: x < v, "FLe": lambda: x <= v,
             "FGt": lambda: x > v, "FGe": lambda: x >= v, "FEq": lambda: x == v}[f]()
        return r, False
    if op == "ta_set":
        x[st["a"]:st["a"] + st["n"]] = operand_obj(env, st["o"])
        return None, False
    if op == "ut_iop":
        v = operand_obj(env, st["o"])
        if st["neg"]:
            x -= v
        else:
            x += v
        return None, False
    if op == "ut_imul":
        x *= operand_obj(env, st["o"])
        return None, False
    if op == "copy":
        return x.copy(), False
    if op == "derive":
        return DERIVE[st["how"]][1](x), False
    if op == "ts_op":
        v = operand_obj(env, st["o"])
        return {"FAdd": lambda: x + v, "FSub": lambda: x - v, "FMul": lambda: x * v}[st["f"]](), False
    if op == "ts_iop":
        v = operand_obj(env, st["o"])
        if st["f"] == "FAdd":
            x += v
        elif st["f"] == "FSub":
            x -= v
        else:
            x *= v
        return None, False
    if op == "csd":
        kw = {}
        if st["N"] is not None:
            kw["NFFT"] = st["N"]
        if st.get("k") is not None:
            kw["Sk"] = env[st["k"]]          # the caller's precomputed transform
        tsa.periodogram_csd(x, **kw)
        return None, False
    if op == "boxcar":
        return tsa.boxcar_filter(x, **st.get("kw", {})), True
    if op == "fboxcar":
        sr = float(x.sampling_rate)
        return nta.FilterAnalyzer(x, lb=0.05 * sr, ub=0.25 * sr).filtered_boxcar.data, True
    raise KeyError(op)


def shares_pairs(env):
    out, aout = [], []
    for i in range(len(env)):
        for j in range(i + 1, len(env)):
            a, b = main_array(env[i]), main_array(env[j])
            if a is not None and b is not None and np.shares_memory(a, b):
                out.append((i, j))
            if any(p is q for p in attr_objs(env[i]) for q in attr_objs(env[j]) if p is not None):
                aout.append((i, j))
    return out, aout


def run_history(h):
    """run a history on the implementation; returns the record (JSON-able) and the oracle's failures"""
    env = [build(d) for d in h["init"]]
    kinds = [d["k"] + ("/" + d["dt"] if "dt" in d else "") for d in h["init"]]
    init_objs = list(env)
    init_coq = [desc_coq(d, o) for d, o in zip(h["init"], env)]
    opaque = [False] * len(env)
    outs, fails = [], []
    for si, st in enumerate(h["steps"]):
        before = [bytes_snap(o) for o in env]
        kdim = np.ndim(env[st["k"]]) if st.get("k") is not None else None
        # objects that share sample memory with the target of an in-place call (views): their samples
        # move with the target's; everything else about them (attribute VALUES included) must not
        tgt = main_array(env[st["x"]]) if st["op"] in INPLACE else None
        aliased = [tgt is not None and i != st["x"] and main_array(o) is not None and np.shares_memory(main_array(o), tgt)
                   for i, o in enumerate(env)]
        before_attr = [attr_values_snap(o) if al else None for o, al in zip(env, aliased)]
        try:
            r, opq = do_step(env, st)
            exc = None
        except Exception as e:  # noqa
            r, opq, exc = None, False, e
        after = [bytes_snap(o) for o in env]
        target = st["x"] if (st["op"] in INPLACE and exc is None) else None
        ov = st.get("o", {}).get("var") if "o" in st else st.get("k")
        okind = ("scalar" if ov is None else (kinds[ov] if ov < len(kinds) else "result")) if "o" in st else \
            (kinds[st["x"]] if st.get("k") is None else "Sk-%dd" % kdim)
        for i, (b, a) in enumerate(zip(before, after)):
            if b == a or i == target:
                continue
            if aliased[i] and attr_values_snap(env[i]) == before_attr[i]:
                continue
            role = "operand" if ov == i else ("target" if i == st["x"] else "bystander")
            en = type(exc).__name__ if exc is not None else None
            if exc is not None and role == "target" and st["op"] in INPLACE:
                key = "C16/%s/target-modified-by-failing-call/%s" % (st["op"], en)
            elif role == "operand":
                key = "C16/%s/%s/operand%s" % (st["op"], okind, "-after-exception" if exc is not None else "")
            elif role == "target":
                key = "C16/%s/%s/self%s" % (st["op"], okind, "-after-exception" if exc is not None else "")
            else:
                key = "C16/%s/bystander%s" % (st["op"], "-after-exception" if exc is not None else "")
            fails.append(Fail(key, "%s changed the %s (variable %d) it was given (%s)" % (
                st["op"], role, i, "call raised %s" % en if exc is not None else "normal return"),
                observed=describe_change(b, a), required="bit-for-bit unchanged, shape included",
                replay={"step_index": si}))
        if exc is not None:
            outs.append(ERR.get(type(exc).__name__, "EOther"))
        else:
            outs.append(None)
            if r is not None:
                if st["op"] == "copy":
                    src = env[st["x"]]
                    a, b = main_array(r), main_array(src)
                    md = getattr(src, "metadata", None)
                    if (a is not None and np.shares_memory(a, b)) or any(p is q for p in attr_objs(r) for q in attr_objs(src) if p is not None) \
                            or (md is not None and getattr(r, "metadata", None) is md):
                        fails.append(Fail("C16/copy/%s/shared-state" % kinds_of(src), "a copy shares mutable state with its original",
                                          observed="samples share memory, or an attribute object / the metadata dict is the same object",
                                          required="no shared mutable state", replay={"step_index": si}))
                env.append(r)
                kinds.append("result")
                opaque.append(opq)
    sh, ash = shares_pairs(env)
    final = [osnap(o, opaque=opq) for o, opq in zip(env, opaque)]
    expressible = all(s["d"] is not None for s in final if s["t"] in ("uniform", "series", "list"))
    rec = {"outs": outs, "final": final, "shares": sh, "ashares": ash}
    coq = None
    if expressible:
        coq = "(KCase %s %s %s %s %s %s)" % (
            llit(init_coq), llit([step_coq(s) for s in h["steps"]]),
            llit(["OOk" if o is None else "(OExn %s)" % o for o in outs]),
            llit([osnap_coq(s) for s in final]),
            llit(["(%s, %s)" % (nlit(i), nlit(j)) for i, j in sh]), llit(["(%s, %s)" % (nlit(i), nlit(j)) for i, j in ash]))
    return rec, fails, coq, init_objs


def kinds_of(o):
    return type(o).__name__


def describe_change(b, a):
    def short(x):
        s = repr(x)
        return s if len(s) < 300 else s[:300] + "..."
    return {"before": short(b), "after": short(a)}


# ------------------------------------------------------------------ G: one call per (method x operand kind)
def canon_operands(n, good=True):
    """canonical operand objects of every kind (length n where a length matters)"""
    ramp = list(range(1, n + 1))
    return {
        "pyint": {"int": 3}, "pyfloat": {"float": 2.0},
        "list_int": {"k": "list", "fl": False, "d": ramp}, "list_float": {"k": "list", "fl": True, "d": ramp},
        "arr_int32": {"k": "arr", "dt": "int32", "sh": [n], "d": ramp},
        "arr_int64": {"k": "arr", "dt": "int64", "sh": [n], "d": ramp},
        "arr_float64": {"k": "arr", "dt": "float64", "sh": [n], "d": ramp},
        "arr0d_int64": {"k": "arr", "dt": "int64", "sh": [], "d": [4]},
        "arr0d_float64": {"k": "arr", "dt": "float64", "sh": [], "d": [4]},
        "arr_int64_badlen": {"k": "arr", "dt": "int64", "sh": [n + 1], "d": ramp + [n + 1]},
        "arr_float64_badlen": {"k": "arr", "dt": "float64", "sh": [n + 2], "d": ramp + [7, 9]},
        "arr_int64_nonuniform": {"k": "arr", "dt": "int64", "sh": [n], "d": ramp[:-1] + [n + 5]},
        "arr_float64_nonuniform": {"k": "arr", "dt": "float64", "sh": [n], "d": ramp[:-1] + [n + 5]},
        "list_int_nonuniform": {"k": "list", "fl": False, "d": ramp[:-1] + [n + 5]},
        "time": {"k": "time", "u": "us", "sh": [n], "d": [v * 10 ** 6 for v in ramp]},
        "time0d": {"k": "time", "u": "s", "sh": [], "d": [2 * 10 ** 12]},
    }


def g_rows():
    """(name, history with one step) for the exhaustive method x operand-kind grid"""
    rows = []
    n = 4
    ops = canon_operands(n)

    def add(name, subject, step, kinds):
        for kn in kinds:
            o = ops[kn]
            if "k" in o:
                init = [subject, o]
                st = dict(step, x=0, o={"var": 1})
            else:
                init = [subject]
                st = dict(step, x=0, o=o)
            rows.append(("%s/%s" % (name, kn), {"init": init, "steps": [st]}))

    allk = list(ops)
    tarr = {"k": "time", "u": "ms", "sh": [n], "d": [v * 10 ** 9 for v in (5, 6, 8, 11)]}
    for f in ("FAdd", "FSub", "FRAdd", "FRSub", "FLt", "FLe", "FGt", "FGe", "FEq"):
        # the reflected methods are never reached with a time object on the left (its own __add__ runs)
        add("TimeArray.%s" % f, tarr, {"op": "ta_op", "f": f}, [k for k in allk if not (f in ("FRAdd", "FRSub") and k.startswith("time"))])
    add("TimeArray.__setitem__", tarr, {"op": "ta_set", "a": 0, "n": n}, allk)
    uni = {"k": "uniform", "u": "ms", "n": n, "t0": 2, "si": 3}
    add("UniformTime.__iadd__", uni, {"op": "ut_iop", "neg": False}, allk)
    add("UniformTime.__isub__", uni, {"op": "ut_iop", "neg": True}, allk)
    add("UniformTime.__imul__", uni, {"op": "ut_imul"}, ["pyint", "pyfloat"])
    ser1 = {"k": "series", "dt": "float64", "sh": [n], "d": [3, 1, 4, 1], "u": "ms", "t0": 1, "si": 2}
    ser2 = {"k": "series", "dt": "float64", "sh": [2, n], "d": [3, 1, 4, 1, 5, 9, 2, 6], "u": "s", "t0": 0, "si": 1}
    seri = {"k": "series", "dt": "int64", "sh": [n], "d": [3, 1, 4, 1], "u": "ms", "t0": 1, "si": 2}
    tsk = ["pyint", "pyfloat", "list_int", "list_float", "arr_int32", "arr_int64", "arr_float64", "arr0d_int64",
           "arr0d_float64", "arr_int64_badlen", "arr_float64_badlen"]
    for nm, ser in (("1d", ser1), ("2d", ser2), ("int", seri)):
        for f in ("FAdd", "FSub", "FMul"):
            add("TimeSeries.%s.%s" % (f, nm), ser, {"op": "ts_op", "f": f}, tsk)
            add("TimeSeries.i%s.%s" % (f, nm), ser, {"op": "ts_iop", "f": f}, tsk)
    for nm, subj in (("TimeArray", tarr), ("UniformTime", uni), ("TimeSeries1d", ser1), ("TimeSeries2d", ser2),
                     ("ndarray", ops["arr_float64"])):
        rows.append(("copy/%s" % nm, {"init": [subj], "steps": [{"op": "copy", "x": 0}]}))
    for nm, subj, kind in (("TimeArray", tarr, "time"), ("UniformTime", uni, "uniform"), ("TimeSeries1d", ser1, "series")):
        for how in DERIVE_FOR[kind]:
            rows.append(("derive/%s/%s" % (nm, how), {"init": [subj], "steps": [{"op": "derive", "how": how, "x": 0}]}))
    a1 = {"k": "arr", "dt": "float64", "sh": [8], "d": [3, 1, 4, 1, 5, 9, 2, 6]}
    a2 = {"k": "arr", "dt": "float64", "sh": [2, 4], "d": [3, 1, 4, 1, 5, 9, 2, 6]}
    a3 = {"k": "arr", "dt": "float64", "sh": [2, 2, 2], "d": [3, 1, 4, 1, 5, 9, 2, 6]}
    a4 = {"k": "arr", "dt": "float64", "sh": [2, 1, 2, 2], "d": [3, 1, 4, 1, 5, 9, 2, 6]}
    sks = {"1d": {"k": "arr", "dt": "float64", "sh": [6], "d": [2, 7, 1, 8, 2, 8]},
           "2d": {"k": "arr", "dt": "float64", "sh": [2, 3], "d": [2, 7, 1, 8, 2, 8]},
           "3d": {"k": "arr", "dt": "float64", "sh": [2, 3, 4], "d": list(range(1, 25))},
           "4d": {"k": "arr", "dt": "float64", "sh": [2, 2, 2, 3], "d": list(range(1, 25))}}
    for nm, a in (("1d", a1), ("2d", a2), ("3d", a3), ("4d", a4)):
        for N in (None, 8, 3, 0, -1):
            rows.append(("periodogram_csd/%s/NFFT=%s" % (nm, N), {"init": [a], "steps": [{"op": "csd", "x": 0, "N": N}]}))
        for kn, sk in sks.items():
            for N in (None, -1):
                rows.append(("periodogram_csd/%s/Sk-%s/NFFT=%s" % (nm, kn, N),
                             {"init": [a, sk], "steps": [{"op": "csd", "x": 0, "k": 1, "N": N}]}))
    for nm, a in (("1d", a1), ("2d", a2), ("3d", a3)):
        rows.append(("boxcar_filter/%s" % nm, {"init": [a], "steps": [{"op": "boxcar", "x": 0}]}))
        rows.append(("boxcar_filter/%s/band" % nm, {"init": [a], "steps": [{"op": "boxcar", "x": 0, "kw": {"lb": 0.1, "ub": 0.3}}]}))
        rows.append(("boxcar_filter/%s/lowpass" % nm, {"init": [a], "steps": [{"op": "boxcar", "x": 0, "kw": {"ub": 0.2}}]}))
    for nm, ser in (("1d", ser1), ("2d", ser2)):
        rows.append(("filtered_boxcar/%s" % nm, {"init": [ser], "steps": [{"op": "fboxcar", "x": 0}]}))
    return rows


def g_measure(h):
    """observed bits of a one-step history"""
    env = [build(d) for d in h["init"]]
    init_coq = [desc_coq(d, o) for d, o in zip(h["init"], env)]
    before = [bytes_snap(o) for o in env]
    st = h["steps"][0]
    try:
        r, _ = do_step(env, st)
        raised = False
    except Exception:  # noqa
        r, raised = None, True
    after = [bytes_snap(o) for o in env]
    changed = [b != a for b, a in zip(before, after)]
    ra = main_array(r) if r is not None else None
    shares = [bool(ra is not None and main_array(o) is not None and np.shares_memory(ra, main_array(o))) for o in env]
    coq = "(GRow %s %s %s %s %s)" % (llit(init_coq), step_coq(st), blit(raised), llit([blit(b) for b in changed]),
                                     llit([blit(b) for b in shares]))
    return {"raised": raised, "changed": changed, "shares": shares}, coq


# ------------------------------------------------------------------ K: seeded histories
def rint(rng, lo=-9, hi=9, nz=False):
    v = rng.randint(lo, hi)
    while nz and v == 0:
        v = rng.randint(lo, hi)
    return v


def gen_operand_desc(rng, n, ramp=False, allow_time=True):
    """a fresh operand (description or immediate) of a random kind; length n where it matters"""
    r = rng.random()
    if r < 0.14:
        return {"int": rint(rng)}
    if r < 0.24:
        return {"float": float(rint(rng))}
    if ramp:
        a, d = rint(rng), rint(rng, -4, 4)
        vals = [a + d * i for i in range(n)]
        if rng.random() < 0.2 and n > 2:
            vals[rng.randrange(1, n)] += rng.choice([1, -1, 2])          # non-uniform increment
    else:
        vals = [rint(rng) for _ in range(n)]
    if rng.random() < 0.12:
        vals = vals + [rint(rng)] if rng.random() < 0.5 or n < 2 else vals[:-1]   # mismatched shape
    kind = rng.choice(["list_i", "list_f", "i32", "i64", "i64", "f64", "f64", "0d_i", "0d_f", "len1"] +
                      (["time", "time", "time0d"] if allow_time else []))
    if kind == "list_i":
        return {"k": "list", "fl": False, "d": vals}
    if kind == "list_f":
        return {"k": "list", "fl": True, "d": vals}
    if kind in ("i32", "i64", "f64"):
        return {"k": "arr", "dt": {"i32": "int32", "i64": "int64", "f64": "float64"}[kind], "sh": [len(vals)], "d": vals}
    if kind == "0d_i":
        return {"k": "arr", "dt": "int64", "sh": [], "d": [rint(rng)]}
    if kind == "0d_f":
        return {"k": "arr", "dt": "float64", "sh": [], "d": [rint(rng)]}
    if kind == "len1":
        return {"k": "arr", "dt": rng.choice(["int64", "float64"]), "sh": [1], "d": [rint(rng)]}
    u = rng.choice(UNITS)
    f = factor(u)
    if kind == "time0d":
        return {"k": "time", "u": u, "sh": [], "d": [rint(rng) * f]}
    return {"k": "time", "u": u, "sh": [len(vals)], "d": [v * f for v in vals]}


def place(init, o):
    """put an operand into the history: immediates stay, objects become a variable"""
    if "k" in o:
        init.append(o)
        return {"var": len(init) - 1}
    return o


def gen_history(rng):
    theme = rng.choice(["ta", "ta", "ut", "ut", "ut", "ts", "ts", "alg", "alg"])
    init, steps = [], []
    nres = [0]

    def nvars():
        return len(init) + nres[0]
    # all initial objects are created first (variables are numbered init first, results after), so the
    # operands are generated up front
    if theme == "ta":
        n = rng.randint(1, 5)
        u = rng.choice(UNITS)
        f = factor(u)
        sc = rng.random() < 0.15
        init.append({"k": "time", "u": u, "sh": [] if sc else [n], "d": [rint(rng, -20, 20) * f for _ in range(1 if sc else n)]})
        plan = []
        for _ in range(rng.randint(1, 5)):
            r = rng.random()
            if r < 0.5:
                plan.append(("ta_op", place(init, gen_operand_desc(rng, n))))
            elif r < 0.8:
                a = rng.randint(0, max(0, n - 1))
                ln = rng.randint(1, max(1, n - a)) if rng.random() < 0.9 else n + 1
                plan.append(("ta_set", place(init, gen_operand_desc(rng, ln)), a, ln))
            else:
                plan.append(("copy",))
        targets = [0]
        for p in plan:
            x = rng.choice(targets)
            if p[0] == "ta_op":
                f_ = rng.choice(["FAdd", "FSub", "FRAdd", "FRSub", "FLt", "FLe", "FGt", "FGe", "FEq"])
                if "var" in p[1] and init[p[1]["var"]]["k"] == "time" and f_ in ("FRAdd", "FRSub"):
                    f_ = {"FRAdd": "FAdd", "FRSub": "FSub"}[f_]
                steps.append({"op": "ta_op", "f": f_, "x": x, "o": p[1], "_res": f_ in ("FAdd", "FSub", "FRAdd", "FRSub")})
            elif p[0] == "ta_set":
                steps.append({"op": "ta_set", "x": x, "a": p[2], "n": p[3], "o": p[1]})
            else:
                steps.append({"op": "copy", "x": x, "_res": True})
    elif theme == "ut":
        n = rng.randint(2, 5)
        u = rng.choice(UNITS)
        init.append({"k": "uniform", "u": u, "n": n, "t0": rint(rng, -5, 9), "si": rng.randint(1, 6)})
        plan = []
        for _ in range(rng.randint(1, 5)):
            r = rng.random()
            if r < 0.45:
                plan.append(("ut_iop", place(init, gen_operand_desc(rng, n, ramp=True))))
            elif r < 0.6:
                plan.append(("ut_imul", {"int": rng.choice([2, 3, -1, 1, 0])} if rng.random() < 0.8 else {"float": 2.0}))
            else:
                plan.append(("copy",))
        if rng.random() < 0.7:
            plan.insert(0, ("copy",))
        for p in plan:
            if p[0] == "copy":
                steps.append({"op": "copy", "x": 0, "_res": True})
            elif p[0] == "ut_iop":
                steps.append({"op": "ut_iop", "neg": rng.random() < 0.5, "x": None, "o": p[1]})
            else:
                steps.append({"op": "ut_imul", "x": None, "o": p[1]})
    elif theme == "ts":
        n = rng.randint(2, 6)
        two = rng.random() < 0.4
        c = rng.randint(1, 3)
        dt = rng.choice(["float64", "float64", "int64"])
        sh = [c, n] if two else [n]
        init.append({"k": "series", "dt": dt, "sh": sh, "d": [rint(rng) for _ in range(c * n if two else n)],
                     "u": rng.choice(UNITS), "t0": rint(rng, 0, 5), "si": rng.randint(1, 4)})
        plan = []
        for _ in range(rng.randint(1, 5)):
            r = rng.random()
            if r < 0.35:
                plan.append(("ts_op", place(init, gen_operand_desc(rng, n, allow_time=False))))
            elif r < 0.65:
                plan.append(("ts_iop", place(init, gen_operand_desc(rng, n, allow_time=False))))
            elif r < 0.9:
                plan.append(("copy",))
            else:
                plan.append(("fboxcar",))
        for p in plan:
            if p[0] == "copy":
                steps.append({"op": "copy", "x": None, "_res": True, "_series": True})
            elif p[0] == "fboxcar":
                steps.append({"op": "fboxcar", "x": None, "_res": True, "_series": False})
            elif p[0] == "ts_op":
                steps.append({"op": "ts_op", "f": rng.choice(["FAdd", "FSub", "FMul"]), "x": None, "o": p[1], "_res": True, "_series": True})
            else:
                steps.append({"op": "ts_iop", "f": rng.choice(["FAdd", "FSub", "FMul"]), "x": None, "o": p[1]})
    else:
        nd = rng.choice([1, 2, 2, 3, 3, 4])
        sh = [rng.randint(1, 3) for _ in range(nd - 1)] + [rng.randint(2, 8)]
        tot = int(np.prod(sh))
        init.append({"k": "arr", "dt": rng.choice(["float64", "float64", "int64"]), "sh": sh, "d": [rint(rng) for _ in range(tot)]})
        nd = rng.choice([1, 2, 3, 3, 4])
        ksh = [rng.randint(1, 3) for _ in range(nd - 1)] + [rng.randint(2, 6)]
        init.append({"k": "arr", "dt": "float64", "sh": ksh, "d": [rint(rng) for _ in range(int(np.prod(ksh)))]})
        for _ in range(rng.randint(1, 4)):
            r = rng.random()
            if r < 0.3:
                steps.append({"op": "csd", "x": 0, "k": 1, "N": rng.choice([None, None, -1, 4])})
            elif r < 0.6:
                steps.append({"op": "csd", "x": 0, "N": rng.choice([None, None, sh[-1], sh[-1] + 3, max(1, sh[-1] - 1), 0, -1, -5])})
            elif r < 0.9:
                st = {"op": "boxcar", "x": 0, "_res": True}
                r2 = rng.random()
                if r2 < 0.4:
                    st["kw"] = {"lb": 0.1, "ub": 0.3}
                elif r2 < 0.8:
                    st["kw"] = {"ub": 0.2}            # (the default ub = 0.5 is the identity filter)
                steps.append(st)
            else:
                steps.append({"op": "copy", "x": 0, "_res": True})
    # half of the copies are made through numpy / the copy module instead of .copy()
    kind = {"ta": "time", "ut": "uniform", "ts": "series"}.get(theme)
    if kind:
        for st in steps:
            if st["op"] == "copy" and rng.random() < 0.55:
                st["op"] = "derive"
                st["how"] = rng.choice(DERIVE_FOR[kind])
    # resolve the targets of the ut / ts themes: any already existing object of the right class
    if theme in ("ut", "ts"):
        holders = [0]            # variables holding a uniform axis / a series
        nv = len(init)
        for st in steps:
            if st["x"] is None:
                st["x"] = rng.choice(holders) if st["op"] != "copy" or rng.random() < 0.5 else holders[-1]
    # variables: results are appended after the initial objects; whether a call returns depends on the
    # implementation, so the numbering of later results is resolved at run time (resolve_vars)
    return {"theme": theme, "init": init, "steps": steps}


def resolve_and_run(h, rng):
    """Targets that refer to results (copies) can only be numbered once we know which calls returned.
    Run incrementally: choose the target of each ut/ts step among the objects of the right class
    that exist at that point."""
    import nitime.timeseries as ts
    env = [build(d) for d in h["init"]]
    steps = []
    for st in h["steps"]:
        st = {k: v for k, v in st.items() if not k.startswith("_")}
        cls = {"ut": ts.UniformTime, "ts": ts.TimeSeries, "ta": ts.TimeArray}.get(h["theme"])
        if cls is not None and st["op"] not in ("csd", "boxcar"):
            cands = [i for i, o in enumerate(env) if type(o) is cls]
            if h["theme"] == "ta":
                cands = [i for i in cands if i == 0 or i >= len(h["init"])]
                cands = [i for i in cands if env[i].shape == env[0].shape]
            if st["op"] in INPLACE and len(cands) > 1 and rng.random() < 0.8:
                cands = cands[1:]                # prefer mutating a copy: the original must not move
            st["x"] = rng.choice(cands)
        try:
            r, _ = do_step(env, st)
        except Exception:  # noqa
            r = None
        if r is not None:
            env.append(r)
        steps.append(st)
    return {"theme": h["theme"], "init": h["init"], "steps": steps}


def klass(h, rec):
    ops = sorted(set(s["op"] for s in h["steps"]))
    theme = h["theme"].split("/")[0]
    return "%s:%s%s" % (theme, "+".join(ops), ":exc" if any(o is not None for o in rec["outs"]) else "")


def make_case(h):
    rec, fails, coq, _ = run_history(h)
    nontrivial = any(o is None for o in rec["outs"]) and len(h["steps"]) > 0
    c = Case(coq or "", {"history": h, "observed": rec}, klass(h, rec), nontrivial=nontrivial)
    c.fails = fails
    c.in_k = coq is not None
    return c


HEADER = ("From Coq Require Import ZArith List Bool.\nFrom NT Require Import Lists Alias C16K.\n"
          "Import ListNotations.\nOpen Scope Z_scope.\n")


def corpus_histories():
    p = core.VERIF / "harness" / "corpus" / "C16"
    out = []
    if p.exists():
        for f in sorted(p.glob("*.json")):
            d = json.loads(f.read_text())
            for h in d.get("histories", []):
                h = dict(h)
                h.setdefault("theme", "corpus:" + f.stem)
                out.append(h)
    return out


# ------------------------------------------------------------------ the wider sweep (validation / search only)
def sweep_entries(rng_seed):
    """(name, callable, args, kwargs) for entry points not documented as in-place; inputs seeded"""
    import nitime.algorithms as tsa
    import nitime.utils as tsu
    import nitime.timeseries as ts
    R = np.random.RandomState(rng_seed)
    x1, x2, x3 = R.randn(32), R.randn(3, 32), R.randn(2, 3, 32)
    ev = (R.rand(32) > 0.8).astype(int)
    ev[3] = 1
    ev[-8:] = 0
    E = []

    def add(name, f, *a, **k):
        E.append((name, f, a, k))
    for nm in ("periodogram", "periodogram_csd", "multi_taper_psd", "multi_taper_csd", "get_spectra"):
        f = getattr(tsa, nm)
        for lbl, x in (("1d", x1), ("2d", x2), ("3d", x3)):
            add("algorithms.%s/%s" % (nm, lbl), f, x.copy())
    x4 = R.randn(2, 2, 3, 32)
    shapes = (("1d", x1), ("2d", x2), ("3d", x3), ("4d", x4))
    # optional precomputed transforms of every dimensionality, with signals of every dimensionality
    for lbl, x in shapes:
        for klbl, xk in shapes:
            Sk = np.fft.fft(xk)
            add("algorithms.periodogram_csd/%s/Sk-%s" % (lbl, klbl), tsa.periodogram_csd, x.copy(), Sk=Sk.copy())
            add("algorithms.periodogram_csd/%s/Sk-%s/bad-NFFT" % (lbl, klbl), tsa.periodogram_csd, x.copy(), Sk=Sk.copy(), NFFT=-1)
            add("algorithms.periodogram/%s/Sk-%s" % (lbl, klbl), tsa.periodogram, x.copy(), Sk=Sk.copy())
            add("algorithms.periodogram/%s/Sk-%s/twosided" % (lbl, klbl), tsa.periodogram, x.copy(), Sk=Sk.copy(), sides="twosided")
        add("algorithms.periodogram_csd/%s/Sk-real" % lbl, tsa.periodogram_csd, x.copy(), Sk=x.copy()[..., :9])
        add("algorithms.periodogram_csd/%s/Sk-F-order" % lbl, tsa.periodogram_csd, x.copy(), Sk=np.asfortranarray(np.fft.fft(x)))
        add("algorithms.periodogram_csd/%s/F-order" % lbl, tsa.periodogram_csd, np.asfortranarray(x.copy()))
        add("algorithms.periodogram_csd/%s/strided" % lbl, tsa.periodogram_csd, x.copy()[..., ::2])
        for nm in ("multi_taper_psd", "multi_taper_csd", "periodogram", "get_spectra"):
            if lbl == "4d":
                add("algorithms.%s/4d" % nm, getattr(tsa, nm), x.copy())
        add("algorithms.multi_taper_psd/%s/NW-jk" % lbl, tsa.multi_taper_psd, x.copy(), NW=3, jackknife=True, adaptive=False)
        add("algorithms.multi_taper_psd/%s/twosided" % lbl, tsa.multi_taper_psd, x.copy(), sides="twosided", NFFT=40)
        add("algorithms.multi_taper_csd/%s/twosided" % lbl, tsa.multi_taper_csd, x.copy(), sides="twosided", NFFT=40)
        # mtm_cross_spectrum(tx, ty, weights): tapered transforms (K, ..., N) and weights as array / list / tuple
        K = 4
        tx = R.randn(K, *x.shape) + 1j * R.randn(K, *x.shape)
        ty = R.randn(K, *x.shape) + 1j * R.randn(K, *x.shape)
        wv = np.abs(R.randn(K, *([1] * x.ndim))) + 0.1
        wf = np.abs(R.randn(K, *x.shape)) + 0.1
        add("algorithms.mtm_cross_spectrum/%s/weights-array" % lbl, tsa.mtm_cross_spectrum, tx.copy(), tx.copy(), wv.copy())
        add("algorithms.mtm_cross_spectrum/%s/weights-list" % lbl, tsa.mtm_cross_spectrum, tx.copy(), ty.copy(), [wv.copy(), wv.copy()])
        add("algorithms.mtm_cross_spectrum/%s/weights-tuple-full" % lbl, tsa.mtm_cross_spectrum, tx.copy(), ty.copy(), (wf.copy(), wf.copy()), sides="onesided")
        add("algorithms.mtm_cross_spectrum/%s/weights-mismatch" % lbl, tsa.mtm_cross_spectrum, tx.copy(), ty.copy()[:2], [wv.copy(), wv.copy()[:3]])
    # arrays inside method dictionaries
    win = np.hanning(16)
    wm = {"this_method": "welch", "NFFT": 16, "window": win}
    add("algorithms.get_spectra/welch/window-array", tsa.get_spectra, x2.copy(), method=dict(wm))
    add("algorithms.get_spectra/welch/window-array/3d", tsa.get_spectra, x3.copy(), method=dict(wm))
    add("algorithms.get_spectra_bi/welch/window-array", tsa.get_spectra_bi, x1.copy(), x1[::-1].copy(), method=dict(wm))
    for nm in ("coherency", "coherence", "coherency_phase_spectrum", "coherency_bavg", "coherence_bavg"):
        add("algorithms.%s/window-array" % nm, getattr(tsa, nm), x2.copy(), csd_method=dict(wm))
        add("algorithms.%s/3d" % nm, getattr(tsa, nm), x3.copy())
    add("algorithms.coherence_partial/window-array", tsa.coherence_partial, x2.copy(), x1.copy(), csd_method=dict(wm))
    add("algorithms.coherency_regularized/window-array", tsa.coherency_regularized, x2.copy(), 0.1, 0.1, csd_method=dict(wm))
    add("algorithms.cache_fft/window-array", tsa.cache_fft, x2.copy(), (np.array([0, 1]), np.array([1, 2])), method=dict(wm))
    add("algorithms.cache_fft/ij-2d-array", tsa.cache_fft, x2.copy(), np.array([[0, 1], [1, 2]]))
    add("algorithms.cache_fft/3d", tsa.cache_fft, x3.copy(), (np.array([0, 1]), np.array([1, 2])))
    add("algorithms.seed_corrcoef/3d", tsa.seed_corrcoef, x1.copy(), x3.copy())
    add("algorithms.dpss_windows/interp", tsa.dpss_windows, 64, 4, 4, interp_from=32)
    add("algorithms.periodogram_csd/3d/bad-NFFT", tsa.periodogram_csd, x3.copy(), NFFT=-1)
    add("algorithms.periodogram_csd/3d/NFFT-str", tsa.periodogram_csd, x3.copy(), NFFT="x")
    add("algorithms.periodogram_csd/2d/Sk", tsa.periodogram_csd, x2.copy(), Sk=np.fft.fft(x2))
    add("algorithms.periodogram_csd/3d/Sk-mismatch", tsa.periodogram_csd, x3.copy(), Sk=np.fft.fft(x2)[:, :7])
    add("algorithms.periodogram/3d/bad-N", tsa.periodogram, x3.copy(), N=-1)
    add("algorithms.periodogram/2d/Sk", tsa.periodogram, x2.copy(), Sk=np.fft.fft(x2))
    add("algorithms.multi_taper_psd/3d/bad-NFFT", tsa.multi_taper_psd, x3.copy(), NFFT=-1)
    add("algorithms.multi_taper_psd/2d/bad-BW", tsa.multi_taper_psd, x2.copy(), BW=-1.0)
    add("algorithms.multi_taper_psd/2d/adaptive-jk", tsa.multi_taper_psd, x2.copy(), adaptive=True, jackknife=True)
    add("algorithms.multi_taper_csd/2d/bad-NFFT", tsa.multi_taper_csd, x2.copy(), NFFT=-1)
    add("algorithms.multi_taper_csd/2d/adaptive", tsa.multi_taper_csd, x2.copy(), adaptive=True)
    for m in ("welch", "periodogram_csd", "multi_taper_csd"):
        add("algorithms.get_spectra/%s" % m, tsa.get_spectra, x2.copy(), method={"this_method": m})
    add("algorithms.get_spectra/welch/bad-NFFT", tsa.get_spectra, x2.copy(), method={"this_method": "welch", "NFFT": -1})
    add("algorithms.get_spectra/bad-method", tsa.get_spectra, x2.copy(), method={"this_method": "nope"})
    add("algorithms.get_spectra_bi", tsa.get_spectra_bi, x1.copy(), x1[::-1].copy())
    add("algorithms.get_spectra_bi/mismatch", tsa.get_spectra_bi, x1.copy(), x1[:20].copy())
    for nm in ("coherency", "coherence", "coherency_phase_spectrum", "coherence_partial", "coherency_regularized",
               "coherence_regularized", "coherency_bavg", "coherence_bavg"):
        f = getattr(tsa, nm)
        if "regularized" in nm:
            add("algorithms." + nm, f, x2.copy(), 0.1, 0.1)
        elif nm == "coherence_partial":
            add("algorithms." + nm, f, x2.copy(), x1.copy())
            add("algorithms." + nm + "/mismatch", f, x2.copy(), x1[:20].copy())
        else:
            add("algorithms." + nm, f, x2.copy())
            add("algorithms." + nm + "/bad-NFFT", f, x2.copy(), csd_method={"this_method": "welch", "NFFT": -3})
    add("algorithms.correlation_spectrum", tsa.correlation_spectrum, x1.copy(), x1[::-1].copy())
    ij = (np.array([0, 1]), np.array([1, 2]))
    add("algorithms.cache_fft", tsa.cache_fft, x2.copy(), ij)
    add("algorithms.cache_fft/bad-NFFT", tsa.cache_fft, x2.copy(), ij, method={"this_method": "welch", "NFFT": -4})
    try:
        cache = tsa.cache_fft(x2.copy(), ij)
        add("algorithms.cache_to_psd", tsa.cache_to_psd, cache, ij)
        add("algorithms.cache_to_phase", tsa.cache_to_phase, cache, ij)
        add("algorithms.cache_to_coherency", tsa.cache_to_coherency, cache, ij)
        add("algorithms.cache_to_relative_phase", tsa.cache_to_relative_phase, cache, ij)
        add("algorithms.cache_to_psd/missing-pair", tsa.cache_to_psd, cache, (np.array([2]), np.array([0])))
    except Exception:  # noqa
        pass
    add("algorithms.seed_corrcoef", tsa.seed_corrcoef, x1.copy(), x2.copy())
    add("algorithms.seed_corrcoef/mismatch", tsa.seed_corrcoef, x1[:20].copy(), x2.copy())
    try:
        dm = tsu.fir_design_matrix(ev.copy(), 5)
        add("algorithms.fir", tsa.fir, x1.copy(), dm.copy())
        add("algorithms.fir/mismatch", tsa.fir, x1[:20].copy(), dm.copy())
    except Exception:  # noqa
        pass
    add("algorithms.freq_domain_xcorr", tsa.freq_domain_xcorr, x1.copy(), ev.astype(float), 5, 5)
    add("algorithms.freq_domain_xcorr_zscored", tsa.freq_domain_xcorr_zscored, x1.copy(), ev.astype(float), 5, 5)
    for nm in ("AR_est_YW", "AR_est_LD"):
        add("algorithms." + nm, getattr(tsa, nm), x1.copy(), 3)
        add("algorithms." + nm + "/2d", getattr(tsa, nm), x2.copy(), 3)
        add("algorithms." + nm + "/order-too-big", getattr(tsa, nm), x1[:4].copy(), 9)
    add("algorithms.MAR_est_LWR", tsa.MAR_est_LWR, x2.copy(), 2)
    add("algorithms.MAR_est_LWR/bad-order", tsa.MAR_est_LWR, x2.copy(), -1)
    try:
        add("algorithms.lwr_recursion", tsa.lwr_recursion, tsu.autocov_vector(x2.copy(), nlags=3))
    except Exception:  # noqa
        pass
    add("algorithms.AR_psd", tsa.AR_psd, np.array([0.5, -0.2]), 1.0)
    add("algorithms.boxcar_filter/1d", tsa.boxcar_filter, x1.copy())
    add("algorithms.boxcar_filter/2d", tsa.boxcar_filter, x2.copy())
    add("algorithms.boxcar_filter/2d/band", tsa.boxcar_filter, x2.copy(), lb=0.1, ub=0.3)
    add("algorithms.boxcar_filter/2d/lowpass", tsa.boxcar_filter, x2.copy(), ub=0.2)
    add("algorithms.boxcar_filter/1d/lowpass", tsa.boxcar_filter, x1.copy(), ub=0.2)
    add("algorithms.boxcar_filter/3d", tsa.boxcar_filter, x3.copy())
    add("algorithms.boxcar_filter/2d/bad-ub", tsa.boxcar_filter, x2.copy(), ub=0)
    add("algorithms.wfmorlet_fft", tsa.wfmorlet_fft, 0.1, 1.0, x1.copy())
    add("algorithms.wlogmorlet_fft", tsa.wlogmorlet_fft, 0.1, 1.0, x1.copy())
    d1 = (x1 > 0).astype(int)
    add("algorithms.entropy", tsa.entropy, d1.copy())
    add("algorithms.conditional_entropy", tsa.conditional_entropy, d1.copy(), d1[::-1].copy())
    add("algorithms.mutual_information", tsa.mutual_information, d1.copy(), d1[::-1].copy())
    add("algorithms.entropy_cc", tsa.entropy_cc, d1.copy(), d1[::-1].copy())
    add("algorithms.transfer_entropy", tsa.transfer_entropy, d1.copy(), d1[::-1].copy(), 1)
    add("algorithms.conditional_entropy/mismatch", tsa.conditional_entropy, d1.copy(), d1[:20].copy())
    # utils
    pos1, pos2 = np.abs(x1) + 1, np.abs(x2) + 1
    for nm in ("circularize", "dB", "zscore", "percent_change", "autocov", "autocorr", "unwrap_phases", "minmax_norm"):
        f = getattr(tsu, nm, None)
        if f is None:
            continue
        add("utils.%s/1d" % nm, f, pos1.copy())
        add("utils.%s/2d" % nm, f, pos2.copy())
        add("utils.%s/3d" % nm, f, np.abs(x3) + 1)
        add("utils.%s/4d-strided" % nm, f, (np.abs(R.randn(2, 2, 3, 32)) + 1)[..., ::2])
    add("utils.unwrap_phases/jumps", tsu.unwrap_phases, np.array([0., 3.5, 7., 0.5, -3., 4.]))
    add("utils.zero_pad", tsu.zero_pad, x2.copy(), 4)
    add("utils.rescale_arr", tsu.rescale_arr, x2.copy(), 0, 1)
    add("utils.thresholded_arr", tsu.thresholded_arr, pos2.copy(), 1.2, 1.8)
    add("utils.autocov_vector", tsu.autocov_vector, x2.copy())
    add("utils.crosscov_vector", tsu.crosscov_vector, x2.copy(), x2[::-1].copy())
    add("utils.crosscov_vector/mismatch", tsu.crosscov_vector, x2.copy(), x2[:, :20].copy())
    add("utils.crosscov", tsu.crosscov, x1.copy(), x1[::-1].copy())
    add("utils.crosscov/mismatch", tsu.crosscov, x1.copy(), x1[:20].copy())
    add("utils.crosscorr", tsu.crosscorr, x1.copy(), x1[::-1].copy())
    add("utils.fftconvolve", tsu.fftconvolve, x1.copy(), x1[:5].copy())
    add("utils.normalize_coherence", tsu.normalize_coherence, np.abs(R.rand(5)) * 0.9, 10)
    add("utils.normal_coherence_to_unit", tsu.normal_coherence_to_unit, R.rand(5), 10)
    add("utils.jackknifed_sdf_variance", tsu.jackknifed_sdf_variance, R.randn(4, 33) + 1j * R.randn(4, 33), np.ones(4))
    add("utils.jackknifed_coh_variance", tsu.jackknifed_coh_variance, R.randn(4, 33) + 1j * R.randn(4, 33),
        R.randn(4, 33) + 1j * R.randn(4, 33), np.ones(4))
    add("utils.adaptive_weights", tsu.adaptive_weights, R.randn(4, 32) + 1j * R.randn(4, 32), np.array([.99, .98, .9, .8]), "twosided")
    add("utils.adaptive_weights/mismatch", tsu.adaptive_weights, R.randn(4, 32) + 1j * R.randn(4, 32), np.array([.99, .98]), "twosided")
    add("utils.tridi_inverse_iteration", tsu.tridi_inverse_iteration, np.ones(8) * 2, np.ones(8) * 0.5, 1.2)
    try:
        add("utils.tapered_spectra", tsu.tapered_spectra, x2.copy(), tsa.dpss_windows(32, 4, 4)[0])
        add("utils.tapered_spectra/mismatch", tsu.tapered_spectra, x2.copy(), tsa.dpss_windows(30, 4, 4)[0])
    except Exception:  # noqa
        pass
    add("utils.detect_lines", tsu.detect_lines, x1.copy(), (4, 4))
    add("utils.fir_design_matrix", tsu.fir_design_matrix, ev.copy(), 5)
    add("utils.multi_intersect", tsu.multi_intersect, [np.arange(5), np.arange(3, 8)])
    add("utils.intersect_coords", tsu.intersect_coords, R.randint(0, 3, (3, 6)), R.randint(0, 3, (3, 6)))
    add("utils.get_bounds", tsu.get_bounds, np.linspace(0, 5, 11), 1.0, 3.0)
    add("utils.akaike_information_criterion", tsu.akaike_information_criterion, np.eye(2) * 0.5, 2, 2, 100)
    # time objects: lookups and constructors fed with caller-owned arrays
    ta = ts.TimeArray(np.arange(10), time_unit="ms")
    ut = ts.UniformTime(length=10, sampling_interval=2, time_unit="ms")
    ser = ts.TimeSeries(R.randn(2, 10), sampling_interval=2, time_unit="ms")
    arr_i, arr_f = np.array([2, 4]), np.array([2.0, 4.0])
    add("TimeArray(ndarray int64)", ts.TimeArray, arr_i.copy(), time_unit="ms")
    add("TimeArray(ndarray float64)", ts.TimeArray, arr_f.copy(), time_unit="ms")
    add("TimeArray(TimeArray)", ts.TimeArray, ta)
    add("TimeArray(2d)/error", ts.TimeArray, np.ones((2, 2)), time_unit="ms")
    add("TimeArray(bad unit)/error", ts.TimeArray, arr_i.copy(), time_unit="xx")
    add("TimeArray.index_at(ndarray)", ta.index_at, arr_i.copy())
    add("TimeArray.index_at(float ndarray)", ta.index_at, arr_f.copy())
    add("TimeArray.at(ndarray)", ta.at, arr_i.copy())
    add("TimeArray.min", ta.min)
    add("TimeArray.max", ta.max)
    add("TimeArray.sum", ta.sum)
    add("TimeArray.mean", ta.mean)
    add("TimeArray.ptp", ta.ptp)
    add("TimeArray/div", ta.__truediv__, arr_f.copy()[0])
    add("UniformTime.index_at(ndarray)", ut.index_at, arr_i.copy())
    add("UniformTime.index_at(out of range)/error", ut.index_at, np.array([200, 400]))
    add("UniformTime.at(ndarray)", ut.at, arr_i.copy())
    add("UniformTime(UniformTime)", ts.UniformTime, ut)
    add("UniformTime(UniformTime, length)", ts.UniformTime, ut, length=5)
    add("UniformTime(bad spec)/error", ts.UniformTime, length=5)
    add("UniformTime[slice]", ut.__getitem__, slice(1, 5))
    add("UniformTime.__setitem__/error", ut.__setitem__, 0, arr_i.copy()[0])
    add("TimeSeries(ndarray)", ts.TimeSeries, R.randn(2, 10), sampling_interval=2)
    add("TimeSeries(time=UniformTime)", ts.TimeSeries, R.randn(2, 10), time=ut)
    add("TimeSeries(time=UniformTime)/mismatch", ts.TimeSeries, R.randn(2, 7), time=ut)
    add("TimeSeries(bad spec)/error", ts.TimeSeries, R.randn(2, 7))
    add("TimeSeries.at", ser.at, ts.TimeArray(4, time_unit="ms"))
    add("TimeSeries.during", ser.during, ts.Epochs(2, 8, time_unit="ms"))
    add("TimeSeries/div", ser.__truediv__, arr_f.copy()[0] * np.ones(10))
    add("TimeSeries/div/mismatch", ser.__truediv__, np.ones(7))
    add("Epochs(ndarray)", ts.Epochs, arr_i.copy(), arr_i.copy() + 3, time_unit="ms")
    add("Epochs(mismatch)/error", ts.Epochs, arr_i.copy(), np.array([5, 6, 7]), time_unit="ms")
    add("Events(ndarray)", ts.Events, arr_i.copy(), time_unit="ms", i=np.array([1, 2]))
    add("Events(mismatch)/error", ts.Events, arr_i.copy(), time_unit="ms", i=np.array([1, 2, 3]))
    return E


SWEEP_DTYPES = ["float64", "float32", "complex128", "complex64", "int64", "int32", "bool"]
SWEEP_LAYOUTS = ["C", "F", "strided", "reversed"]


def mk_array(R, dtype, shape, layout):
    """a seeded array of the given dtype in the given memory layout (shape = logical shape)"""
    shp = tuple(shape[:-1]) + (shape[-1] * 2,) if layout == "strided" else tuple(shape)
    a = R.randn(*shp)
    if dtype.startswith("complex"):
        a = a + 1j * R.randn(*shp)
    if dtype.startswith("int"):
        a = np.round(a * 10)
    if dtype == "bool":
        a = a > 0
    a = np.ascontiguousarray(a.astype(dtype))
    if layout == "F":
        a = np.asfortranarray(a)
    elif layout == "strided":
        a = a[..., ::2]
    elif layout == "reversed":
        a = a[..., ::-1]
    return a


def dtype_matrix(rng_seed, quick):
    """every swept entry point that takes data arrays x every dtype x every memory layout x its size
    option (None / == length / > length): library routines (fftpack, lfilter, convolve, ...) decide
    between copying and working in place by dtype, contiguity and size, so the trusted hypothesis of the
    calculus - out-of-place library routines do not write their inputs - is probed exactly here"""
    import nitime.algorithms as tsa
    import nitime.utils as tsu
    R = np.random.RandomState(rng_seed + 7)
    n = 32
    shapes = {"1d": (n,), "2d": (3, n)} if quick else {"1d": (n,), "2d": (3, n), "3d": (2, 3, n)}
    layouts = ["C", "strided"] if quick else SWEEP_LAYOUTS
    ij = (np.array([0, 1]), np.array([1, 2]))

    def welch(N):
        return {"this_method": "welch", "NFFT": N if N else 16}
    # (name, callable taking (x, N) -> (f, args, kwargs), has a size option, accepted shapes)
    T = [
        ("algorithms.periodogram", lambda x, N: (tsa.periodogram, (x,), {"N": N}), True, None),
        ("algorithms.periodogram/twosided", lambda x, N: (tsa.periodogram, (x,), {"N": N, "sides": "twosided"}), True, None),
        ("algorithms.periodogram_csd", lambda x, N: (tsa.periodogram_csd, (x,), {"NFFT": N}), True, None),
        ("algorithms.multi_taper_psd", lambda x, N: (tsa.multi_taper_psd, (x,), {"NFFT": N}), True, None),
        ("algorithms.multi_taper_psd/adaptive-jk", lambda x, N: (tsa.multi_taper_psd, (x,), {"NFFT": N, "adaptive": True, "jackknife": True}), True, None),
        ("algorithms.multi_taper_csd", lambda x, N: (tsa.multi_taper_csd, (x,), {"NFFT": N}), True, ("2d",)),
        ("algorithms.get_spectra/welch", lambda x, N: (tsa.get_spectra, (x,), {"method": welch(N)}), True, ("2d", "3d")),
        ("algorithms.get_spectra/periodogram_csd", lambda x, N: (tsa.get_spectra, (x,), {"method": {"this_method": "periodogram_csd", "NFFT": N}}), True, ("2d",)),
        ("algorithms.get_spectra/multi_taper_csd", lambda x, N: (tsa.get_spectra, (x,), {"method": {"this_method": "multi_taper_csd", "NFFT": N}}), True, ("2d",)),
        ("algorithms.get_spectra_bi", lambda x, N: (tsa.get_spectra_bi, (x, x[..., ::-1].copy()), {"method": welch(N)}), True, ("1d",)),
        ("algorithms.coherency", lambda x, N: (tsa.coherency, (x,), {"csd_method": welch(N)}), True, ("2d",)),
        ("algorithms.coherence", lambda x, N: (tsa.coherence, (x,), {"csd_method": welch(N)}), True, ("2d",)),
        ("algorithms.coherence_regularized", lambda x, N: (tsa.coherence_regularized, (x, 0.1, 0.1), {"csd_method": welch(N)}), True, ("2d",)),
        ("algorithms.coherency_bavg", lambda x, N: (tsa.coherency_bavg, (x,), {"csd_method": welch(N)}), True, ("2d",)),
        ("algorithms.coherence_partial", lambda x, N: (tsa.coherence_partial, (x, x[0].copy()), {"csd_method": welch(N)}), True, ("2d",)),
        ("algorithms.coherency_phase_spectrum", lambda x, N: (tsa.coherency_phase_spectrum, (x,), {"csd_method": welch(N)}), True, ("2d",)),
        ("algorithms.correlation_spectrum", lambda x, N: (tsa.correlation_spectrum, (x, x[..., ::-1].copy()), {}), False, ("1d",)),
        ("algorithms.cache_fft", lambda x, N: (tsa.cache_fft, (x, ij), {"method": welch(N)}), True, ("2d",)),
        ("algorithms.seed_corrcoef", lambda x, N: (tsa.seed_corrcoef, (x[0].copy(), x), {}), False, ("2d",)),
        ("algorithms.AR_est_YW", lambda x, N: (tsa.AR_est_YW, (x, 3), {}), False, ("1d",)),
        ("algorithms.AR_est_LD", lambda x, N: (tsa.AR_est_LD, (x, 3), {}), False, ("1d",)),
        ("algorithms.MAR_est_LWR", lambda x, N: (tsa.MAR_est_LWR, (x, 2), {}), False, ("2d",)),
        ("algorithms.boxcar_filter", lambda x, N: (tsa.boxcar_filter, (x,), {"ub": 0.2}), False, None),
        ("algorithms.boxcar_filter/band", lambda x, N: (tsa.boxcar_filter, (x,), {"lb": 0.1, "ub": 0.3}), False, None),
        ("algorithms.freq_domain_xcorr", lambda x, N: (tsa.freq_domain_xcorr, (x, (np.abs(x) > 1).astype(float), 5, 5), {}), False, ("1d",)),
        ("algorithms.freq_domain_xcorr_zscored", lambda x, N: (tsa.freq_domain_xcorr_zscored, (x, (np.abs(x) > 1).astype(float), 5, 5), {}), False, ("1d",)),
        ("algorithms.wfmorlet_fft", lambda x, N: (tsa.wfmorlet_fft, (0.1, 1.0, x), {}), False, ("1d",)),
        ("algorithms.wlogmorlet_fft", lambda x, N: (tsa.wlogmorlet_fft, (0.1, 1.0, x), {}), False, ("1d",)),
        ("algorithms.mtm_cross_spectrum", lambda x, N: (tsa.mtm_cross_spectrum, (x, x[..., ::-1].copy(), np.ones((x.shape[0],) + (1,) * (x.ndim - 1))), {}), False, ("2d", "3d")),
        ("utils.tapered_spectra", lambda x, N: (tsu.tapered_spectra, (x, tsa.dpss_windows(x.shape[-1], 4, 4)[0]), {"NFFT": N}), True, None),
        ("utils.circularize", lambda x, N: (tsu.circularize, (x,), {}), False, None),
        ("utils.dB", lambda x, N: (tsu.dB, (x,), {}), False, None),
        ("utils.zscore", lambda x, N: (tsu.zscore, (x,), {}), False, None),
        ("utils.percent_change", lambda x, N: (tsu.percent_change, (x,), {}), False, None),
        ("utils.autocov", lambda x, N: (tsu.autocov, (x,), {}), False, None),
        ("utils.autocorr", lambda x, N: (tsu.autocorr, (x,), {}), False, None),
        ("utils.crosscov", lambda x, N: (tsu.crosscov, (x, x[..., ::-1].copy()), {}), False, None),
        ("utils.crosscov/debias", lambda x, N: (tsu.crosscov, (x, x[..., ::-1].copy()), {"debias": False, "normalize": False}), False, None),
        ("utils.crosscorr", lambda x, N: (tsu.crosscorr, (x, x[..., ::-1].copy()), {}), False, None),
        ("utils.fftconvolve", lambda x, N: (tsu.fftconvolve, (x, x[..., :5].copy()), {}), False, ("1d",)),
        ("utils.autocov_vector", lambda x, N: (tsu.autocov_vector, (x,), {}), False, ("2d",)),
        ("utils.crosscov_vector", lambda x, N: (tsu.crosscov_vector, (x, x[..., ::-1].copy()), {}), False, ("2d",)),
        ("utils.zero_pad", lambda x, N: (tsu.zero_pad, (x, 4), {}), False, None),
        ("utils.unwrap_phases", lambda x, N: (tsu.unwrap_phases, (x,), {}), False, ("1d",)),
        ("utils.rescale_arr", lambda x, N: (tsu.rescale_arr, (x, 0, 1), {}), False, None),
        ("utils.minmax_norm", lambda x, N: (tsu.minmax_norm, (x,), {}), False, None),
        ("utils.thresholded_arr", lambda x, N: (tsu.thresholded_arr, (x, -0.5, 0.5), {}), False, None),
        ("utils.adaptive_weights", lambda x, N: (tsu.adaptive_weights, (x, np.linspace(0.99, 0.8, x.shape[0]), "twosided"), {}), False, ("2d",)),
        ("utils.jackknifed_sdf_variance", lambda x, N: (tsu.jackknifed_sdf_variance, (x, np.ones(x.shape[0])), {}), False, ("2d",)),
        ("utils.detect_lines", lambda x, N: (tsu.detect_lines, (x, (4, 4)), {}), False, ("1d",)),
    ]
    for name, build, sized, shp in T:
        for sl, shape in shapes.items():
            if shp is not None and sl not in shp:
                continue
            for dt in SWEEP_DTYPES:
                for lay in layouts:
                    for N in ((None, shape[-1], shape[-1] + 8) if sized else (None,)):
                        x = mk_array(R, dt, shape, lay)
                        try:
                            f, a, k = build(x, N)
                        except Exception:  # noqa  (building a secondary argument failed for this dtype)
                            continue
                        k = {kk: vv for kk, vv in k.items() if vv is not None}
                        yield ("%s/%s/%s/%s/N=%s" % (name, sl, dt, lay, N), f, a, k)


def sweep_analyzers(rng_seed):
    """every analyzer class x every OneTimeProperty: the input series must not move"""
    import nitime.analysis as nta
    import nitime.timeseries as ts
    from nitime import descriptors as desc
    R = np.random.RandomState(rng_seed + 1)
    out = []

    dts = ["float64", "complex128", "complex64", "float32", "int64"]
    cur = ["float64"]

    def mk(sh=(3, 64)):
        return ts.TimeSeries(mk_array(R, cur[0], sh, "C"), sampling_rate=10.)
    classes = [c for n, c in sorted(vars(nta).items()) if inspect.isclass(c) and n.endswith("Analyzer") and n != "BaseAnalyzer"]
    for c, dt in [(c, dt) for c in classes for dt in dts]:
        cur[0] = dt
        t = mk()
        extra = []
        try:
            nm = c.__name__
            if nm == "FilterAnalyzer":
                a = c(t, lb=0.5, ub=2)
            elif nm in ("SeedCoherenceAnalyzer", "SeedCorrelationAnalyzer"):
                t2 = mk()
                extra = [t2]
                a = c(t, t2)
            elif nm == "EventRelatedAnalyzer":
                e = ts.TimeSeries((R.rand(64) > 0.85).astype(int), sampling_rate=10.)
                extra = [e]
                a = c(t, e, len_et=5)
            elif nm == "GrangerAnalyzer":
                a = c(t, order=2)
            elif nm == "SNRAnalyzer":
                t = mk((3, 4, 64))
                a = c(t)
            elif nm == "MorletWaveletAnalyzer":
                a = c(t, freqs=np.array([1.0, 2.0]))
            else:
                a = c(t)
        except Exception:  # noqa
            continue
        props = [n for k in type(a).__mro__ for n, v in vars(k).items() if isinstance(v, desc.OneTimeProperty)]
        for p in props:
            out.append(("analysis.%s.%s/%s" % (c.__name__, p, dt), a, p, [t] + extra))
    return out


def run_sweep(ctx):
    """before/after snapshots around every entry; returns (#entries, #raised, fails)"""
    fails = []
    n = nraise = 0
    import itertools
    for name, f, a, k in itertools.chain(sweep_entries(ctx.seed), dtype_matrix(ctx.seed, ctx.quick)):
        before = [bytes_snap(x) for x in a] + [bytes_snap(v) for v in k.values()]
        own = getattr(f, "__self__", None)
        own_b = bytes_snap(own) if own is not None and not inspect.ismodule(own) else None
        try:
            f(*a, **k)
            exc = None
        except Exception as e:  # noqa
            exc = e
            nraise += 1
        after = [bytes_snap(x) for x in a] + [bytes_snap(v) for v in k.values()]
        n += 1
        ch = [i for i, (b, c) in enumerate(zip(before, after)) if b != c]
        if own_b is not None and name.split("/")[0] not in ("UniformTime.__setitem__",) and bytes_snap(own) != own_b:
            ch.append("self")
        if ch:
            fails.append(Fail("C16/sweep/%s" % name, "%s changed its argument(s) %s (%s)" % (
                name, ch, "raised %s" % type(exc).__name__ if exc is not None else "normal return"),
                observed={"changed_arguments": ch}, required="arguments bit-for-bit unchanged",
                replay={"entry_point": name, "kind_of_case": "sweep"}))
    for name, a, p, inputs in sweep_analyzers(ctx.seed):
        before = [bytes_snap(t) for t in inputs]
        try:
            getattr(a, p)
        except Exception:  # noqa
            nraise += 1
        n += 1
        if [bytes_snap(t) for t in inputs] != before:
            fails.append(Fail("C16/sweep/%s" % name, "%s changed the analyzer's input series" % name,
                              required="input unchanged", replay={"entry_point": name, "kind_of_case": "sweep"}))
    return n, nraise, fails


# ------------------------------------------------------------------ run
def run(ctx):
    core.import_nitime()
    ctx.check_props()
    # G
    rows = g_rows()
    gsrc = HEADER + "Definition rows : list grow := [\n"
    gl, gobs = [], {}
    for name, h in rows:
        bits, coq = g_measure(h)
        gl.append(coq)
        gobs[name] = bits
    gsrc += ";\n".join(gl) + "\n].\n"
    gsrc += "Lemma alias_bits_ok : forallb check_row rows = true.\nProof. vm_compute. reflexivity. Qed.\n"
    g = ctx.check_gen("G_alias_bits", gsrc, ["alias_bits_ok"])
    gbad = []
    if not g.ok:
        loc = gsrc.rsplit("Lemma", 1)[0] + "Eval vm_compute in (failing check_row rows).\n"
        r2 = ctx.coqc("G_alias_bits_loc", loc)
        import re
        m = re.search(r"=\s*\[(.*?)\]", r2.out, flags=re.S)
        if r2.ok and m:
            gbad = [rows[int(x)][0] for x in re.findall(r"\d+", re.sub(r"%nat", "", m.group(1)))]
        ctx.extra["G_rows_disagreeing"] = gbad[:40]
    ctx.extra["G_rows"] = len(rows)
    # the G rows are also histories for the oracle
    hist = corpus_histories()
    hist += [dict(h, theme="grid:" + name) for name, h in rows]
    n = ctx.scale(2500, 20000)
    for _ in range(n):
        hist.append(resolve_and_run(gen_history(ctx.rng), ctx.rng))
    cases = [make_case(h) for h in hist]
    kcases = [c for c in cases if c.in_k]
    kbad = ctx.check_cases("K", HEADER, kcases, "check", shard=ctx.scale(250, 400), case_type="kcase")
    bad = {id(kcases[i]) for i in kbad}
    for c in cases:
        if not c.in_k:
            ctx.count_case(c)
    for c in cases:
        for f in c.fails:
            f.replay = dict(f.replay or {}, entry_point="history", model_disagrees=id(c) in bad)
            ctx.report_fail(f, c)
    # the wider sweep (nitime prints warnings on stdout: keep the check's output clean)
    import contextlib
    import io
    with contextlib.redirect_stdout(io.StringIO()):
        ns, nraise, sfails = run_sweep(ctx)
    for f in sfails:
        ctx.report_fail(f, None)
    ctx.extra["sweep_entry_points"] = ns
    ctx.extra["sweep_calls_that_raised"] = nraise
    ctx.extra["model_impl_disagreements"] = len(bad)
    ctx.extra["histories_not_expressible_in_model"] = sum(1 for c in cases if not c.in_k)
    ctx.extra["rule"] = ("corpus + exhaustive (method x operand kind) grid + seeded histories over four themes (TimeArray operators / "
                         "__setitem__ / copy; UniformTime copy then += -= *= on copy or original with ramps, non-uniform ramps, "
                         "mismatched shapes, floats; TimeSeries copy, + - *, += -= *=, filtered_boxcar; periodogram_csd with good / "
                         "bad NFFT on 1-3-d input, boxcar_filter); non-trivial = at least one call of the history returned normally")
    return ctx.finish(
        trusted=["out-of-place numpy/scipy routines (fft, diff, hstack, convolve, round, astype, binary operators) do not write to "
                 "their inputs; numpy's aliasing rules are as written in Model/Alias.v (asarray / view / copy / in-place operators), "
                 "checked only through the G and K comparisons",
                 "byte snapshots (tobytes, shape, strides, dtype, attribute values) and np.shares_memory as the observation of 'unchanged' and 'shares'",
                 "the calculus takes 'out-of-place library routines (fftpack.fft, lfilter, convolve, ...) do not write their inputs' as a "
                 "hypothesis; whether nitime calls them so that this holds (overwrite_x, dtype- and size-dependent in-place paths) is exactly "
                 "what the dtype x memory-layout x size-option sweep probes, by observation only"],
        assumptions=["payloads are integers (float64 operands are integer-valued) with |value * unit factor| < 2^62: value arithmetic is "
                     "not the subject of C16", "TimeSeries metadata: only that the copy gets its own dict is checked (oracle); the dict is copied shallowly and is not modelled"],
        explanation=("Proved (Coq, all stores / values / operand kinds, both exits): the frame and copy-disjointness theorems for the "
                     "anchored methods only (TimeArray operators and __setitem__, UniformTime += -= *= and copy, TimeSeries copy / "
                     "arithmetic / in-place arithmetic, the argument handling of periodogram_csd, boxcar_filter and "
                     "FilterAnalyzer.filtered_boxcar). The wider sweep over %d algorithm / utils / analyzer / time-object entry points "
                     "(%d of the calls made to fail) is before/after snapshot VALIDATION: it is the search oracle and widens detection, "
                     "it is not proved." % (ns, nraise)))


def replay(ctx, path):
    core.import_nitime()
    d = json.loads(open(path).read())
    if d.get("kind_of_case") == "sweep" or (d.get("entry_point") or "").startswith(("algorithms.", "utils.", "analysis.")):
        n, nr, fails = run_sweep(ctx)
        hit = [f for f in fails if f.key == d.get("finding_key")]
        print(json.dumps({"entry_point": d.get("entry_point"), "still_fails": bool(hit),
                          "what": [f.what for f in hit]}, indent=1))
        return 1 if hit else 0
    hs = [(d.get("case") or d).get("history")] if (d.get("case") or d).get("history") else d.get("histories", [])
    rc = 0
    for h in hs:
        rec, fails, coq, _ = run_history(h)
        print(json.dumps({"history": h, "observed": rec, "fails": [f.what for f in fails]}, indent=1, default=str))
        if fails:
            rc = 1
    return rc
