"""C08 — coherence measures are bounded, symmetric and invariant to channel gain.

P: coq/Props/C08.v (theorems over Model/Cohere.v; complex Cauchy-Schwarz in Proofs/CohereBase.v)
K: for seeded multi-channel signals, methods and bands the harness calls the spectral estimator exactly
   as the nitime code does (get_spectra / get_spectra_bi / mtm_cross_spectrum), runs the implementation
   (functions of algorithms/cohere.py and the analyzers of analysis/coherence.py), writes spectra and
   returned arrays as exact float literals and the Coq kernel evaluates the model on the spectra and
   compares with what the implementation returned.
oracle (search): bounds / symmetry / self-coherence / Hermitian / |coherency|^2 / antisymmetry / gain
   re-runs / analyzer-vs-function / partial coherence against numpy's inverse of the 3x3 spectral matrix.
"""
import json
import math
import os

import numpy as np

from vt import core
from vt.core import Case, Fail, flit, llit, nlit

TOL = 1e-8

HEADER = ("From Coq Require Import QArith List Bool Arith PrimFloat ZArith.\n"
          "From NT Require Import F2Z Lists Close QC Sums Cohere C08K.\nImport ListNotations.\n")


# ------------------------------------------------------------------ literals
def f1(a):
    return llit([flit(v) for v in a])


def f2(a):
    return llit([f1(r) for r in a])


def f3(a):
    return llit([f2(r) for r in a])


def c1(a):
    return llit(["(%s, %s)" % (flit(z.real), flit(z.imag)) for z in a])


def c2(a):
    return llit([c1(r) for r in a])


def c3(a):
    return llit([c2(r) for r in a])


def fopt(x):
    return "None" if x is None else "(Some %s)" % flit(x)


# ------------------------------------------------------------------ inputs
def make_signals(d):
    """deterministic signals from the description d (seed, M, N, mixing, gains)"""
    rs = np.random.RandomState(d["seed"])
    M, N = d["M"], d["N"]
    src = rs.randn(M + 1, N + 8)
    x = np.zeros((M + 1, N))
    for i in range(M + 1):
        x[i] = src[i, 4:4 + N]
    for (i, j, a, lag) in d["mix"]:
        x[i] += a * src[j, 4 + lag:4 + lag + N]
    if d.get("tone"):
        t = np.arange(N)
        for (i, fr, amp, ph) in d["tone"]:
            x[i] += amp * np.sin(2 * np.pi * fr * t + ph)
    if d.get("offset"):
        x += np.array(d["offset"])[:, None]
    x *= np.array(d["scale"])[:, None]
    if d.get("dtype"):     # integer-typed raw counts: integer-valued samples of amplitude iamp per channel
        x = integer_valued(x, d["iamp"])
    return x[:M].copy(), x[M].copy()


def integer_valued(x, amps):
    amps = np.asarray(amps, dtype=float)[:x.shape[0], None]
    return np.round(x / np.abs(x).max(axis=1, keepdims=True) * amps)


def shape_form(x, form):
    """the same numbers in another memory layout"""
    if form == "fortran":
        return np.asfortranarray(x)
    if form == "strided":
        big = np.zeros((x.shape[0], 2 * x.shape[1]), dtype=x.dtype)
        big[:, ::2] = x
        return big[:, ::2]
    if form == "rowstrided":
        big = np.zeros((2 * x.shape[0], x.shape[1]), dtype=x.dtype)
        big[::2] = x
        return big[::2]
    return x


IAMP = {"int16": [100, 3000, 30000], "int32": [500, 10 ** 6, 2 ** 30], "int64": [1000, 2 ** 33, 2 ** 45]}


def gen_input(rng, quick, big=False, kind=None, M=None, dtype="random"):
    meth = kind or rng.choice(["welch", "welch", "welch", "welch_short", "mt", "mt_adaptive", "periodogram"])
    # Welch with an overlap above NFFT/2 on an input SHORTER than NFFT + n_overlap (the window in which
    # CoherenceAnalyzer warns about short input): "several" = still 2..15 segments, "single" = one segment
    short = None
    if meth == "welch_short":
        meth = "welch"
        short = rng.choice(["several", "several", "several", "single"])
    if M is not None:
        pass
    elif big:
        M = rng.choice([2, 3])
    elif meth == "welch":
        M = rng.choice([2, 3, 3, 4, 5])
    else:
        M = rng.choice([2, 3, 3, 4])
    if big:
        N = rng.choice([64, 65, 127, 256, 257, 500, 509, 1000, 1024, 1025, 2047, 2048, 2048])
    elif meth == "welch":
        N = rng.choice([64, 80, 100, 128] if quick else [64, 100, 128, 200, 256])
    else:
        N = rng.choice([64, 64, 65] if quick else [64, 65, 72, 96, 128])
    if short:
        NFFT = rng.choice([40, 48, 64] if not big else [40, 64, 65, 128, 256])
        n_overlap = rng.randint(NFFT // 2 + 1, NFFT - 1)
        if short == "several":
            lo_n, hi_n = max(64, 2 * NFFT - n_overlap), NFFT + n_overlap - 1
        else:
            NFFT = 64 if not big else rng.choice([64, 128, 256])
            n_overlap = rng.randint(NFFT // 2 + 1, NFFT - 9)
            lo_n, hi_n = NFFT, 2 * NFFT - n_overlap - 1
        N = rng.randint(lo_n, max(lo_n, hi_n))
        method = {"this_method": "welch", "NFFT": NFFT, "n_overlap": n_overlap}
    elif meth == "welch":
        NFFT = rng.choice([16, 16, 32, 15, 24] if not big else
                          [n for n in (16, 31, 32, 64, 63, 128, 127, 255, 256, 512, 513, 1024) if 2 * n <= max(N, 64)] or [16])
        n_overlap = rng.choice([0, NFFT // 2, NFFT // 4, NFFT - 3, NFFT - 1, (NFFT + 1) // 2])
        method = {"this_method": "welch", "NFFT": NFFT, "n_overlap": n_overlap}
    elif meth == "periodogram":
        method = {"this_method": "periodogram_csd"}
    else:
        method = {"this_method": "multi_taper_csd", "adaptive": meth == "mt_adaptive"}
        if rng.random() < 0.4:
            method["NW"] = rng.choice([2, 3, 2.5])
    Fs = rng.choice([1.0, 2.0, 0.5, 2 * math.pi, 10.0, 1 / 1.89])
    method["Fs"] = Fs
    mix = []
    for _ in range(rng.randint(M, 2 * M + 1)):
        i, j = rng.randrange(M + 1), rng.randrange(M + 1)
        if i != j:
            mix.append((i, j, round(rng.uniform(-1.5, 1.5), 3), rng.randint(-3, 3)))
    tone = []
    if rng.random() < 0.4:
        fr = rng.choice([0.05, 0.125, 0.2, 0.31])
        for i in range(M + 1):
            if rng.random() < 0.6:
                tone.append((i, fr, round(rng.uniform(0.3, 2), 2), round(rng.uniform(0, 6.28), 2)))
    # magnitudes: power-of-two factors between 2^-60 and 2^40 (exactly scalable), per channel; the gains of the
    # gain re-run are of either sign, small as well as large, and keep scale*gain inside the same range
    lo, hi = (-60, 40) if big else (-40, 30)
    regime = rng.choice(["unit", "tiny", "huge", "mixed", "mixed"])
    scale, gains = [], []
    for _ in range(M + 1):
        if regime == "unit":
            a = rng.choice([0, 0, -7, 5, 10, -2])
        elif regime == "tiny":
            a = rng.randint(lo, -15)
        elif regime == "huge":
            a = rng.randint(10, hi)
        else:
            a = rng.randint(lo, hi)
        b = rng.randint(max(lo - a, -45), min(hi - a, 40))
        scale.append(2.0 ** a * (1.0 if regime != "unit" else rng.choice([1.0, 1.0, 3.0, 0.01])))
        g = rng.choice([-1.0, 1.0]) * 2.0 ** b
        if rng.random() < 0.25:
            g *= rng.choice([1.5, 1e-3, 0.3])
        gains.append(g)
    if all(g > 0 for g in gains[:-1]):
        gains[rng.randrange(M)] *= -1.0
    if all(abs(g) >= 2.0 ** -10 for g in gains[:-1]):      # at least one small gain
        k = rng.randrange(M)
        gains[k] = math.copysign(2.0 ** max(-30, lo - int(math.log2(scale[k]))), gains[k])
    offset = [rng.choice([0.0, 0.0, 0.5, -3.0, 40.0]) for _ in range(M + 1)]
    form = rng.choice(["plain", "plain", "fortran", "strided", "rowstrided", "nokey", "positional"])
    # a band
    r = rng.random()
    nyq = Fs / 2
    if r < 0.25:
        lb, ub = 0, None
    elif r < 0.45:
        lb, ub = 0, round(rng.uniform(0.3, 0.9) * nyq, 4)
    elif r < 0.6:
        lb, ub = round(rng.uniform(0.05, 0.4) * nyq, 4), None
    else:
        lb = round(rng.uniform(0.0, 0.5) * nyq, 4)
        ub = round(lb + rng.uniform(0.2, 0.5) * nyq, 4)
    if rng.random() < 0.2:
        lb = 0.0
    # band edges exactly on the frequency grid (resolved against the implementation's grid at run time)
    if rng.random() < 0.5:
        nf = (method.get("NFFT", N)) // 2 + 1
        kl = rng.randint(0, max(0, nf // 2 - 1))
        ku = rng.randint(kl + 2, nf - 1) if kl + 2 <= nf - 1 else nf - 1
        r2 = rng.random()
        if r2 < 0.4:
            lb, ub = ["grid", kl], ["grid", ku]
        elif r2 < 0.7:
            ub = ["grid", ku]
            if not isinstance(lb, list) and lb and lb >= ku * Fs / (2.0 * (nf - 1)):
                lb = 0
        else:
            lb = ["grid", kl]
            if ub is not None:
                ub = None
    if dtype == "random":
        dtype = rng.choice([None, None, None, None, "int16", "int32", "int64"])
    iamp = [rng.choice(IAMP[dtype]) for _ in range(M + 1)] if dtype else None
    side = rng.choice(["float32", "float32", "int16", "int32", "int64", None])
    return {"seed": rng.randrange(10 ** 6), "M": M, "N": N, "method": method, "mix": mix, "tone": tone,
            "scale": scale, "gains": gains, "offset": offset, "form": form, "dtype": dtype, "iamp": iamp,
            "side_dtype": side, "side_form": rng.choice(["plain", "fortran", "strided", "rowstrided"]),
            "lb": lb, "ub": ub, "kind": meth, "big": big, "short": short}


# ------------------------------------------------------------------ running the implementation
def herm_complete(S):
    S = np.array(S, dtype=complex)
    M = S.shape[0]
    for i in range(M):
        for j in range(i):
            S[i, j] = S[j, i].conj()
    return S


def independent_spectra(xall, d):
    """cross-spectra of all rows of xall straight from the definition (numpy FFT only), up to one global
    positive constant (which cancels in every quantity of this property); None for multitaper."""
    m = d["method"]
    N = xall.shape[1]
    if m["this_method"] == "welch":
        NFFT, nov = m["NFFT"], m["n_overlap"]
        win = np.hanning(NFFT)
        starts = range(0, N - NFFT + 1, NFFT - nov)
        X = np.array([[np.fft.fft(row[s0:s0 + NFFT] * win) for s0 in starts] for row in xall])
        n = NFFT
    elif m["this_method"] == "periodogram_csd":
        X = np.array([[np.fft.fft(row)] for row in xall])
        n = N
    else:
        return None
    nf = n // 2 + 1
    X = X[:, :, :nf]
    S = np.einsum('ask,bsk->abk', X, X.conj()) / X.shape[1]
    dbl = np.full(nf, 2.0)
    dbl[0] = 1.0
    if n % 2 == 0:
        dbl[-1] = 1.0
    return S * dbl


def normalised_inverse_partial(S3):
    """|G_xy|^2/(G_xx G_yy) with G the inverse of the 3x3 matrix, computed on the matrix scaled to unit
    diagonal (the value is invariant, the conditioning no longer depends on the channel amplitudes)"""
    dg = np.sqrt(np.array([S3[i, i].real for i in range(3)]))
    return inverse_partial(S3 / (dg[:, None, :] * dg[None, :, :]))


class Run:
    """everything the implementation returns for one input description"""

    def __init__(self, d, want_gain=True):
        import nitime.algorithms as tsa
        import nitime.algorithms.cohere as coh
        import nitime.utils as utils
        from nitime.timeseries import TimeSeries
        from nitime.analysis import CoherenceAnalyzer, MTCoherenceAnalyzer
        self.d = self.d0 = d
        x0, r0 = make_signals(d)
        self.x0, self.r0 = x0, r0                      # contiguous copies, for the independent references
        form = d.get("form", "plain")
        xt, rt = (x0.astype(d["dtype"]), r0.astype(d["dtype"])) if d.get("dtype") else (x0, r0)
        x = shape_form(xt, form)
        r = shape_form(rt[None, :], form if form in ("fortran", "strided") else "plain")[0]
        self.x, self.r = x, r
        m = dict(d["method"])
        if form == "nokey" and m["this_method"] == "welch":
            del m["this_method"]                       # 'welch' is the documented default
        pos = form == "positional"
        self.f, self.S = tsa.get_spectra(x, dict(m))
        d = dict(d)
        for key in ("lb", "ub"):       # ["grid", k] -> the k-th grid frequency
            if isinstance(d[key], list):
                d[key] = float(self.f[min(d[key][1], len(self.f) - 1)])
        self.d = d
        self.fn = {}
        f, self.fn["coherence"] = coh.coherence(x, dict(m))
        f, self.fn["coherency"] = coh.coherency(x, dict(m))
        if pos:
            self.fn["coherence_bavg"] = coh.coherence_bavg(x, d["lb"], d["ub"], dict(m))
            self.fn["coherency_bavg"] = coh.coherency_bavg(x, d["lb"], d["ub"], dict(m))
            self.fdel, self.fn["delay"] = coh.coherency_phase_delay(x, d["lb"], d["ub"], dict(m))
        else:
            self.fn["coherence_bavg"] = coh.coherence_bavg(x, lb=d["lb"], ub=d["ub"], csd_method=dict(m))
            self.fn["coherency_bavg"] = coh.coherency_bavg(x, lb=d["lb"], ub=d["ub"], csd_method=dict(m))
            self.fdel, self.fn["delay"] = coh.coherency_phase_delay(x, lb=d["lb"], ub=d["ub"], csd_method=dict(m))
        f, self.fn["phase"] = coh.coherency_phase_spectrum(x, csd_method=dict(m))
        nseg = 2
        if d["kind"] == "welch":
            nseg = len(range(0, d["N"] - m["NFFT"] + 1, m["NFFT"] - m["n_overlap"]))
        self.nseg = nseg
        # rank-one spectra (periodogram, a single Welch segment): partial coherence is 0/0, outside the quantifier
        self.partial_ok = d["kind"] != "periodogram" and nseg > 1
        if self.partial_ok:
            if pos:
                f, self.fn["partial"] = coh.coherence_partial(x, r, dict(m))
            else:
                f, self.fn["partial"] = coh.coherence_partial(time_series=x, r=r, csd_method=dict(m))
            self.bi = [tsa.get_spectra_bi(x[i], r, dict(m)) for i in range(d["M"])]
        # analyzers on the same data
        ts = TimeSeries(x, sampling_rate=m["Fs"])
        A = CoherenceAnalyzer(ts, dict(m)) if pos else CoherenceAnalyzer(input=ts, method=dict(m))
        self.an = {"coherence": A.coherence, "coherency": A.coherency, "phase": A.phase, "delay": A.delay,
                   "frequencies": np.asarray(A.frequencies), "spectrum": A.spectrum}
        if self.partial_ok:
            self.an["partial"] = A.coherence_partial
        # multitaper analyzer (its own estimator: dpss tapers + mtm_cross_spectrum)
        self.mt = None
        if d["kind"] in ("mt", "mt_adaptive") and d["N"] <= 520:
            MT = MTCoherenceAnalyzer(ts, adaptive=d["kind"] == "mt_adaptive")
            Mch = d["M"]
            L = MT._L
            sxy = np.zeros((Mch, Mch, L), dtype=complex)
            sx = np.zeros((Mch, L))
            for i in range(Mch):
                sx[i] = tsa.mtm_cross_spectrum(MT.spectra[i], MT.spectra[i], MT.weights[i], sides='onesided')
                for j in range(i):
                    sxy[i, j] = tsa.mtm_cross_spectrum(MT.spectra[i], MT.spectra[j],
                                                       (MT.weights[i], MT.weights[j]), sides='onesided')
            self.mt = {"coherence": MT.coherence, "sxy": sxy, "sx": sx}
        # gained copy
        self.g = None
        if want_gain:
            g = np.array(d["gains"])
            xg, rg = x * g[:-1, None], r * g[-1]
            G = {}
            fg, G["S"] = tsa.get_spectra(xg, dict(m))
            f, G["coherence"] = coh.coherence(xg, dict(m))
            f, G["coherency"] = coh.coherency(xg, dict(m))
            G["coherence_bavg"] = coh.coherence_bavg(xg, lb=d["lb"], ub=d["ub"], csd_method=dict(m))
            G["coherency_bavg"] = coh.coherency_bavg(xg, lb=d["lb"], ub=d["ub"], csd_method=dict(m))
            f, G["phase"] = coh.coherency_phase_spectrum(xg, dict(m))
            fd, G["delay"] = coh.coherency_phase_delay(xg, lb=d["lb"], ub=d["ub"], csd_method=dict(m))
            if self.partial_ok:
                f, G["partial"] = coh.coherence_partial(xg, rg, dict(m))
            Ag = CoherenceAnalyzer(TimeSeries(xg, sampling_rate=m["Fs"]), method=dict(m))
            G["an_coherence"] = Ag.coherence
            G["an_coherency"] = Ag.coherency
            G["an_phase"] = Ag.phase
            G["an_delay"] = Ag.delay
            if self.partial_ok:
                G["an_partial"] = Ag.coherence_partial
            if self.mt is not None:
                G["mt_coherence"] = MTCoherenceAnalyzer(TimeSeries(xg, sampling_rate=m["Fs"]),
                                                        adaptive=d["kind"] == "mt_adaptive").coherence
            self.g = G
        self.bounds = utils.get_bounds(self.f, d["lb"], d["ub"])
        # independent reference spectra (channels 0..M-1 and r as channel M)
        self.Sind = independent_spectra(np.vstack([x0, r0[None, :]]), d)


# ------------------------------------------------------------------ K cases
def k_cases(R):
    """Coq terms for one run; returns list of (entry, coq)"""
    d = R.d
    M = d["M"]
    S = np.asarray(R.S)
    F = S.shape[-1]
    out = []
    Mn, Fn = nlit(M), nlit(F)
    Sl = c3(S)
    out.append(("coherence", "KCoh %s %s %s %s" % (Mn, Fn, Sl, f3(R.fn["coherence"]))))
    An = R.an
    SA = np.asarray(An["spectrum"])
    SAl = c3(SA)
    out.append(("an.coherence", "KCoh %s %s %s %s" % (Mn, Fn, SAl, f3(An["coherence"]))))
    # library square roots, as coherency_spec takes them
    sq = np.zeros((M, M, F))
    for a in range(M):
        for b in range(a, M):
            sq[a, b] = np.sqrt(S[a][a] * S[b][b]).real
    out.append(("coherency", "KCohy %s %s %s %s %s" % (Mn, Fn, Sl, f3(sq), c3(R.fn["coherency"]))))
    sqa = np.zeros((M, M, F))
    for a in range(M):
        for b in range(a, M):
            sqa[a, b] = np.sqrt(SA[a][a] * SA[b][b]).real
    out.append(("an.coherency", "KCohy %s %s %s %s %s" % (Mn, Fn, SAl, f3(sqa), c3(An["coherency"]))))
    fl, lbl, ubl = f1(R.f), flit(d["lb"]), fopt(d["ub"])
    out.append(("coherence_bavg", "KBavg %s %s %s %s %s %s %s" % (Mn, Fn, fl, lbl, ubl, Sl, f2(R.fn["coherence_bavg"]))))
    # band-averaged coherency: library magnitudes and (cos, sin) of the mean library phase
    l, u = R.bounds
    if d["lb"] == 0:
        l = 1
    if l < u:
        import nitime.algorithms as tsa
        n = u - l
        mags = np.zeros((M, M, n))
        cs = np.zeros((M, M), dtype=complex)
        cs[:] = 1.0
        for a in range(M):
            for b in range(a, M):
                mags[a, b] = np.abs(tsa.coherency_spec(S[a][b][l:u], S[a][a][l:u], S[b][b][l:u]))
                p = np.mean(np.angle(S[a][b][l:u]))
                cs[a, b] = complex(np.cos(p), np.sin(p))
        out.append(("coherency_bavg", "KCohyBavg %s %s %s %s %s %s %s %s %s" % (
            Mn, Fn, fl, lbl, ubl, Sl, f3(mags), c2(cs), c2(R.fn["coherency_bavg"]))))
    if R.partial_ok:
        Sr = np.array([b[3] for b in R.bi])
        frr = np.array([b[2] for b in R.bi])
        out.append(("coherence_partial", "KPartFn %s %s %s %s %s %s" % (Mn, Fn, Sl, c2(Sr), f2(frr),
                                                                         f3(R.fn["partial"].real))))
        pc = np.asarray(An["partial"]).reshape(M, M * M, F)
        out.append(("an.coherence_partial", "KPartAn %s %s %s %s" % (Mn, Fn, SAl, f3(pc))))
    out.append(("phase", "KPhase false %s %s %s %s" % (Mn, Fn, Sl, f3(R.fn["phase"]))))
    out.append(("an.phase", "KPhase true %s %s %s %s" % (Mn, Fn, SAl, f3(An["phase"]))))
    if R.fn["delay"].shape[-1] > 0:
        out.append(("delay", "KDelayFn %s %s %s %s %s %s %s %s %s" % (
            Mn, Fn, fl, lbl, ubl, flit(2 * np.pi), Sl, f1(R.fdel), f3(R.fn["delay"]))))
    dl = np.array(An["delay"], dtype=float)
    out.append(("an.delay", "KDelayAn %s %s %s %s %s %s" % (Mn, Fn, flit(2 * np.pi), f1(An["frequencies"]),
                                                            f3(An["phase"]), f3(dl))))
    if R.mt is not None:
        L = R.mt["sx"].shape[-1]
        out.append(("mt.coherence", "KMT %s %s %s %s %s" % (Mn, nlit(L), c3(R.mt["sxy"]), f2(R.mt["sx"]),
                                                            f3(R.mt["coherence"]))))
    if R.g is not None and d["kind"] != "mt_adaptive":
        out.append(("gain.spectra", "KGain %s %s %s %s %s" % (Mn, Fn, f1(d["gains"][:-1]), Sl, c3(R.g["S"]))))
    return out


# ------------------------------------------------------------------ oracle (float; the search component)
def _bad(a):
    return not np.all(np.isfinite(a))


def inverse_partial(S3):
    """|G_xy|^2/(G_xx G_yy), G = inverse of the 3x3 spectral matrix, per frequency; nan where ill-conditioned"""
    F = S3.shape[-1]
    res = np.full(F, np.nan)
    for k in range(F):
        Mx = S3[:, :, k]
        if not np.all(np.isfinite(Mx)) or np.linalg.cond(Mx) > 1e7:
            continue
        G = np.linalg.inv(Mx)
        res[k] = abs(G[0, 1]) ** 2 / (G[0, 0].real * G[1, 1].real)
    return res


def oracle(R):
    """-> list of Fail"""
    import nitime.algorithms as tsa
    d = R.d
    M = d["M"]
    fails = []

    def fail(entry, claim, what, obs=None, req=None):
        key = "C08/%s/%s" % (entry, claim)
        if claim in ("gain", "gain-sign") and d["kind"] == "mt_adaptive":
            # utils.adaptive_weights stops its iteration on an absolute (scale-dependent) threshold
            key = "C08/adaptive_weights/gain"
            what = "%s [%s]" % (what, entry)
        fails.append(Fail(key, what, obs, req, {"entry_point": entry}))

    def check_coh(entry, c, diag_one=True):
        c = np.asarray(c)
        if _bad(c):
            fail(entry, "finite", "non-finite value", None, "finite")
            return
        if c.min() < -TOL or c.max() > 1 + TOL:
            fail(entry, "bounds", "value outside [0,1]", [float(c.min()), float(c.max())], "[0,1]")
        if np.abs(c - np.swapaxes(c, 0, 1)).max() > 0:
            fail(entry, "symmetry", "c[i][j] != c[j][i]", float(np.abs(c - np.swapaxes(c, 0, 1)).max()), 0)
        if diag_one:
            dg = np.array([c[i, i] for i in range(c.shape[0])])
            if np.abs(dg - 1).max() > TOL:
                fail(entry, "self", "coherence of a channel with itself is not 1",
                     float(dg.flat[np.argmax(np.abs(dg - 1))]), 1)

    def check_cohy(entry, cy, c):
        cy = np.asarray(cy)
        if _bad(cy):
            fail(entry, "finite", "non-finite value")
            return
        if np.abs(cy - np.swapaxes(cy, 0, 1).conj()).max() > 1e-15:
            fail(entry, "hermitian", "coherency[j][i] != conj(coherency[i][j])",
                 float(np.abs(cy - np.swapaxes(cy, 0, 1).conj()).max()), 0)
        if c is not None and np.abs(np.abs(cy) ** 2 - c).max() > TOL:
            fail(entry, "norm2", "|coherency|^2 != coherence", float(np.abs(np.abs(cy) ** 2 - c).max()), 0)

    def check_antisym(entry, p, skip0=False):
        p = np.asarray(p, dtype=float)
        q = p[..., 1:] if skip0 else p
        for i in range(M):
            for j in range(M):
                if i != j:
                    a, b = q[i, j], q[j, i]
                    ok = np.isfinite(a) & np.isfinite(b)
                    if not ok.all() and not skip0:
                        fail(entry, "finite", "non-finite value")
                        return
                    if ok.any() and np.abs(a[ok] + b[ok]).max() > 1e-12 * (1 + np.abs(a[ok]).max()):
                        fail(entry, "antisymmetry", "p[j][i] != -p[i][j]", float(np.abs(a[ok] + b[ok]).max()), 0)
                        return

    fn, an = R.fn, R.an
    check_coh("coherence", fn["coherence"])
    check_coh("an.coherence", an["coherence"])
    check_cohy("coherency", fn["coherency"], fn["coherence"])
    check_cohy("an.coherency", an["coherency"], an["coherence"])
    if np.asarray(fn["coherence_bavg"]).size and not _bad(fn["coherence_bavg"]):
        check_coh("coherence_bavg", fn["coherence_bavg"])
    elif R.bounds[1] - max(R.bounds[0], 1 if d["lb"] == 0 else 0) > 0:
        fail("coherence_bavg", "finite", "non-finite band average on a non-empty band")
    # the band: exactly the grid frequencies in [lb, ub] (DC left out when lb == 0)
    S = np.asarray(R.S) if R.Sind is None else R.Sind
    fgrid = np.asarray(R.f)
    if R.Sind is not None:     # the grid from the definition: k * Fs / n
        n_ = d["method"].get("NFFT", d["N"]) if d["method"]["this_method"] == "welch" else d["N"]
        fdef = np.arange(S.shape[-1]) * (d["method"]["Fs"] / n_)
        if fdef.shape != fgrid.shape or np.abs(fdef - fgrid).max() > 1e-9 * d["method"]["Fs"]:
            fail("get_spectra", "grid", "frequency grid is not k*Fs/NFFT", None, None)
        else:
            fgrid = np.where(np.abs(fdef - fgrid) <= 1e-12 * d["method"]["Fs"], fgrid, fdef)
    sel = fgrid >= d["lb"]
    if d["ub"] is not None:
        sel &= fgrid <= d["ub"]
    if d["lb"] == 0:
        sel[0] = False
    if sel.any() and not _bad(fn["coherence_bavg"]):
        want = np.zeros((M, M))
        for i in range(M):
            for j in range(M):
                a, b = min(i, j), max(i, j)
                want[i, j] = abs(S[a, b][sel].sum()) ** 2 / (S[a, a][sel].real.sum() * S[b, b][sel].real.sum())
        e = np.abs(np.asarray(fn["coherence_bavg"]) - want).max()
        if e > TOL:
            fail("coherence_bavg", "band", "band-averaged coherence is not the average over the grid frequencies in [lb, ub]",
                 float(e), 0)
    cb = np.asarray(fn["coherency_bavg"])
    if not _bad(cb):
        check_cohy("coherency_bavg", cb, None)
        if np.abs(cb).max() > 1 + TOL:
            fail("coherency_bavg", "bounds", "|band-averaged coherency| > 1", float(np.abs(cb).max()), "<= 1")
    check_antisym("phase", fn["phase"])
    check_antisym("an.phase", an["phase"])
    if fn["delay"].shape[-1] > 0:
        check_antisym("delay", fn["delay"])
    check_antisym("an.delay", an["delay"], skip0=True)
    # analyzers against functions on the same data
    for key in ("coherence", "coherency", "phase"):
        a, b = np.asarray(an[key]), np.asarray(fn[key])
        if key == "phase":   # the analyzer also writes the diagonal (angle of a real number)
            a = a.copy()
            for i in range(M):
                a[i, i] = 0
        if a.shape != b.shape or np.abs(a - b).max() > TOL:
            fail("an." + key, "analyzer-vs-function", "analyzer and function disagree on the same data",
                 None if a.shape != b.shape else float(np.abs(a - b).max()), 0)
    # partial coherence
    if R.partial_ok:
        pf = np.asarray(fn["partial"])
        if np.abs(pf.imag).max() > 0:
            fail("coherence_partial", "real", "partial coherence has an imaginary part")
        pf = pf.real
        # conditioning: the formula divides by D = (1-|R_xr|^2)(1-|R_yr|^2); rounding errors are ~ eps/D
        cr = np.array([np.abs(b[3]) ** 2 / (b[1] * b[2]) for b in R.bi])          # coherence of x_i with r
        Dfn = np.maximum((1 - cr)[:, None, :] * (1 - cr)[None, :, :], 1e-300)
        tolfn = TOL + 1e-13 / Dfn
        if _bad(pf):
            fail("coherence_partial", "finite", "non-finite value", None, "finite")
        else:
            if (pf < -tolfn).any() or (pf > 1 + tolfn).any():
                fail("coherence_partial", "bounds", "value outside [0,1]", [float(pf.min()), float(pf.max())], "[0,1]")
            if np.abs(pf - np.swapaxes(pf, 0, 1)).max() > 0:
                fail("coherence_partial", "symmetry", "c[i][j] != c[j][i]")
            dgp = np.array([pf[i, i] for i in range(M)])
            tdg = np.array([tolfn[i, i] for i in range(M)])
            if (np.abs(dgp - 1) > tdg).any():
                fail("coherence_partial", "self", "partial coherence of a channel with itself is not 1",
                     float(dgp.flat[np.argmax(np.abs(dgp - 1) - tdg)]), 1)
        pa = np.asarray(an["partial"])
        can = np.asarray(an["coherence"])
        worst = (0.0, None)
        for i in range(M):
            for j in range(M):
                if i == j:
                    continue
                if R.Sind is not None:
                    S3 = R.Sind[np.ix_([i, j, M], [i, j, M])]
                else:
                    f3_, S3 = tsa.get_spectra(np.vstack([R.x0[i], R.x0[j], R.r0]), dict(d["method"]))
                    S3 = herm_complete(S3)
                iv = normalised_inverse_partial(S3)
                ok = np.isfinite(iv)
                if ok.any():
                    e = np.abs(pf[i, j][ok] - iv[ok]).max()
                    if e > worst[0]:
                        worst = (float(e), (i, j))
        if worst[0] > 1e-6:
            fail("coherence_partial", "inverse-matrix", "partial coherence differs from the inverse-spectral-matrix value",
                 worst[0], 0)
        worst = (0.0, None)
        for i in range(M):
            for j in range(M):
                for r in range(M):
                    if r == i or r == j:
                        if np.abs(pa[i, j, r]).max() != 0:
                            fail("an.coherence_partial", "excluded", "entry with r in {i,j} is not 0")
                        continue
                    v = pa[i, j, r]
                    tol_ = TOL + 1e-13 / np.maximum((1 - can[i, r]) * (1 - can[j, r]), 1e-300)
                    if _bad(v) or (v < -tol_).any() or (v > 1 + tol_).any():
                        fail("an.coherence_partial", "bounds", "value outside [0,1]",
                             [float(np.nanmin(v)), float(np.nanmax(v))], "[0,1]")
                    if np.abs(v - pa[j, i, r]).max() > 0:
                        fail("an.coherence_partial", "symmetry", "p[i][j][r] != p[j][i][r]")
                    if i == j:
                        if (np.abs(v - 1) > tol_).any():
                            fail("an.coherence_partial", "self", "partial coherence of a channel with itself is not 1",
                                 float(v.flat[np.argmax(np.abs(v - 1))]), 1)
                        continue
                    if R.Sind is not None:
                        S3 = R.Sind[np.ix_([i, j, r], [i, j, r])]
                    else:
                        S3 = herm_complete(np.asarray(an["spectrum"]))[np.ix_([i, j, r], [i, j, r])]
                    iv = normalised_inverse_partial(S3)
                    ok = np.isfinite(iv)
                    if ok.any():
                        e = np.abs(v[ok] - iv[ok]).max()
                        if e > worst[0]:
                            worst = (float(e), (i, j, r))
        if worst[0] > 1e-6:
            fail("an.coherence_partial", "inverse-matrix",
                 "analyzer partial coherence differs from the inverse-spectral-matrix value", worst[0], 0)
    # multitaper analyzer
    if R.mt is not None:
        check_coh("mt.coherence", R.mt["coherence"])
    # the definitions, from spectra recomputed with numpy alone (Welch, periodogram)
    if R.Sind is not None:
        Sd = R.Sind[:M, :M]
        dg = np.array([Sd[i, i].real for i in range(M)])
        den = dg[:, None, :] * dg[None, :, :]
        cdef = np.abs(Sd) ** 2 / den
        ydef = Sd / np.sqrt(den)
        for entry, c in (("coherence", fn["coherence"]), ("an.coherence", an["coherence"])):
            c = np.asarray(c)
            if c.shape != cdef.shape or _bad(c) or np.abs(c - cdef).max() > TOL:
                fail(entry, "definition", "coherence is not |S_xy|^2/(S_xx S_yy) of the spectra recomputed from the definition",
                     None if c.shape != cdef.shape or _bad(c) else float(np.abs(c - cdef).max()), 0)
        for entry, c in (("coherency", fn["coherency"]), ("an.coherency", an["coherency"])):
            c = np.asarray(c)
            if c.shape != ydef.shape or _bad(c) or np.abs(c - ydef).max() > TOL:
                fail(entry, "definition", "coherency is not S_xy/sqrt(S_xx S_yy) of the spectra recomputed from the definition",
                     None if c.shape != ydef.shape or _bad(c) else float(np.abs(c - ydef).max()), 0)
        for entry, p_ in (("phase", fn["phase"]), ("an.phase", an["phase"])):
            p_ = np.asarray(p_)
            off = ~np.eye(M, dtype=bool)
            e = np.abs(np.exp(1j * p_) - Sd / np.abs(Sd))[off].max()
            if not np.isfinite(e) or e > 1e-7:
                fail(entry, "definition", "phase is not the argument of the cross-spectrum recomputed from the definition",
                     float(e), 0)
        if sel.any() and not _bad(cb):
            want = np.zeros((M, M), dtype=complex)
            stable = True
            for i in range(M):
                for j in range(M):
                    a, b = min(i, j), max(i, j)
                    ang = np.angle(Sd[a, b][sel])
                    if np.abs(np.abs(ang) - np.pi).min() < 1e-6:
                        stable = False      # a phase on the branch cut: the mean is ill-conditioned
                    v = np.mean(np.abs(ydef[a, b][sel])) * np.exp(1j * np.mean(ang))
                    want[i, j] = v if i <= j else np.conj(v)
            if stable and np.abs(cb - want).max() > TOL:
                fail("coherency_bavg", "definition",
                     "band-averaged coherency is not mean|coherency| * exp(i mean phase) over the band", float(np.abs(cb - want).max()), 0)
    elif d.get("form", "plain") != "plain":
        # multitaper: the same numbers in contiguous layout, plain keyword call
        import nitime.algorithms.cohere as coh
        f_, cplain = coh.coherence(R.x0, csd_method=dict(d["method"]))
        if np.abs(np.asarray(fn["coherence"]) - cplain).max() > 1e-9:
            fail("coherence", "layout", "result depends on the memory layout / call form of the input",
                 float(np.abs(np.asarray(fn["coherence"]) - cplain).max()), 0)
    # gains
    G = R.g
    if G is not None:
        g = np.array(d["gains"])
        sg = np.sign(g[:-1])
        for key, entry in (("coherence", "coherence"), ("coherence_bavg", "coherence_bavg"),
                           ("an_coherence", "an.coherence")):
            base = fn[key] if key in fn else an["coherence"]
            a, b = np.asarray(G[key]), np.asarray(base)
            if _bad(a) and _bad(b):
                continue
            if a.shape != b.shape or _bad(a) or np.abs(a - b).max() > 1e-9:
                fail(entry, "gain", "coherence changes under channel gains",
                     None if a.shape != b.shape else float(np.abs(a - b).max()), 0)
        for key, base in (("coherency", fn["coherency"]), ("an_coherency", an["coherency"])):
            a = np.asarray(G[key])
            want = np.asarray(base) * sg[:, None, None] * sg[None, :, None]
            if _bad(a) or np.abs(a - want).max() > 1e-9:
                fail(key.replace("an_", "an."), "gain-sign", "coherency under gains is not sgn(g_i) sgn(g_j) coherency",
                     float(np.abs(a - want).max()), 0)
        if R.partial_ok:
            a, b = np.asarray(G["partial"]).real, np.asarray(fn["partial"]).real
            if _bad(a) or np.abs(a - b).max() > 1e-7:
                fail("coherence_partial", "gain", "partial coherence changes under channel gains",
                     float(np.abs(a - b).max()), 0)
            a, b = np.asarray(G["an_partial"]), np.asarray(an["partial"])
            if _bad(a) or np.abs(a - b).max() > 1e-7:
                fail("an.coherence_partial", "gain", "analyzer partial coherence changes under channel gains",
                     float(np.abs(a - b).max()), 0)
        # band-averaged coherency: |.| is unchanged; the value itself where no sign flips
        a, b = np.asarray(G["coherency_bavg"]), np.asarray(fn["coherency_bavg"])
        if not (_bad(a) and _bad(b)):
            if _bad(a) or np.abs(np.abs(a) - np.abs(b)).max() > 1e-9:
                fail("coherency_bavg", "gain", "|band-averaged coherency| changes under channel gains",
                     float(np.abs(np.abs(a) - np.abs(b)).max()), 0)
            elif np.all(sg > 0) and np.abs(a - b).max() > 1e-9:
                fail("coherency_bavg", "gain", "band-averaged coherency changes under positive channel gains",
                     float(np.abs(a - b).max()), 0)
        # phase / delay: unchanged where sgn(g_i) sgn(g_j) > 0 (compared on the unit circle / through 2 pi f)
        same = (sg[:, None] * sg[None, :]) > 0
        for key, base in (("phase", fn["phase"]), ("an_phase", an["phase"])):
            a, b = np.asarray(G[key]), np.asarray(base)
            e = np.abs(np.exp(1j * a) - np.exp(1j * b))[same].max() if same.any() else 0
            if e > 1e-9:
                fail(key.replace("an_", "an."), "gain", "phase changes under channel gains of equal sign", float(e), 0)
        if fn["delay"].shape[-1] > 0:
            a, b = np.asarray(G["delay"]), np.asarray(fn["delay"])
            w = 2 * np.pi * np.asarray(R.fdel)
            e = np.abs(np.exp(1j * a * w) - np.exp(1j * b * w))[same].max() if same.any() else 0
            if not np.isfinite(e) or e > 1e-8:
                fail("delay", "gain", "delay changes under channel gains of equal sign", float(e), 0)
        if R.mt is not None and "mt_coherence" in G:
            a, b = np.asarray(G["mt_coherence"]), np.asarray(R.mt["coherence"])
            if np.abs(a - b).max() > 1e-7:
                fail("mt.coherence", "gain", "multitaper coherence changes under channel gains",
                     float(np.abs(a - b).max()), 0)
    fails.extend(dtype_fails(R, check_coh))
    fails.extend(access_order_fails(R, check_coh))
    fails.extend(reuse_fails(R, check_coh))
    return fails


# ------------------------------------------------------------------ sample dtypes
def dtype_fails(R, check_coh):
    """Every function-level routine on the SAME samples stored as int16/int32/int64/float32 (any memory layout)
    and stored as float64: results must agree (integers: the samples are exactly representable, 1e-9; float32:
    1e-5, the FFT runs in single precision) and the integer-typed results meet bounds / diagonal / symmetry."""
    import nitime.algorithms.cohere as coh
    d = R.d
    sd = d.get("side_dtype")
    if not sd:
        return []
    fails = []
    M = d["M"]
    m = dict(d["method"])
    xall = np.vstack([R.x0, R.r0[None, :]])
    if sd == "float32":
        x64 = (xall / np.abs(xall).max(axis=1, keepdims=True)).astype(np.float32).astype(np.float64)
        # numpy >= 2 runs the FFT of float32 data in single precision: errors ~1e-7 relative to the LARGEST
        # spectral component, i.e. up to ~1e-4 on coherency / phase at weak bins; 1e-3 still separates precision
        # loss from a wrong result (truncation, wrong dtype of the container: O(0.1..1))
        tol = 1e-3
    else:
        amps = [IAMP[sd][(d["seed"] + i) % 3] for i in range(M + 1)]
        x64 = integer_valued(xall, amps)
        tol = 1e-9
    xt = x64.astype(sd)
    form = d.get("side_form", "plain")
    xs, rs = shape_form(xt[:M], form), shape_form(xt[M:], form if form != "rowstrided" else "plain")[0]
    xf, rf = x64[:M].copy(), x64[M].copy()
    eps_ = float(np.mean(xf ** 2)) * 1e-3
    lb, ub = d["lb"], d["ub"]
    calls = [("coherence", lambda a, r: coh.coherence(a, dict(m))[1], "real"),
             ("coherency", lambda a, r: coh.coherency(a, dict(m))[1], "complex"),
             ("coherence_bavg", lambda a, r: coh.coherence_bavg(a, lb=lb, ub=ub, csd_method=dict(m)), "real"),
             ("coherency_bavg", lambda a, r: coh.coherency_bavg(a, lb=lb, ub=ub, csd_method=dict(m)), "complex"),
             ("coherency_regularized", lambda a, r: coh.coherency_regularized(a, eps_, 2.0, dict(m))[1], "complex"),
             ("coherence_regularized", lambda a, r: coh.coherence_regularized(a, eps_, 2.0, dict(m))[1], "real"),
             ("phase", lambda a, r: coh.coherency_phase_spectrum(a, dict(m))[1], "angle"),
             ("delay", lambda a, r: coh.coherency_phase_delay(a, lb=lb, ub=ub, csd_method=dict(m)), "delay")]
    if R.partial_ok:
        calls.append(("coherence_partial", lambda a, r: coh.coherence_partial(a, r, dict(m))[1], "partial"))
    res = {}
    for name, fn_, kind in calls:
        try:
            a, b = fn_(xs, rs), fn_(xf, rf)
        except Exception as e:
            fails.append(Fail("C08/%s/dtype" % name, "%s input (%s layout) raised %s: %s" % (sd, form, type(e).__name__, e),
                              None, None, {"entry_point": name, "dtype": sd}))
            continue
        if kind == "delay":
            w = 2 * np.pi * np.asarray(a[0])
            a, b = np.exp(1j * np.asarray(a[1]) * w), np.exp(1j * np.asarray(b[1]) * w)
            off = ~np.eye(M, dtype=bool)
            a, b = a[off], b[off]
        elif kind == "angle":
            off = ~np.eye(M, dtype=bool)
            a, b = np.exp(1j * np.asarray(a))[off], np.exp(1j * np.asarray(b))[off]
        else:
            a, b = np.asarray(a), np.asarray(b)
        res[name] = a
        t = tol
        if a.shape != b.shape:
            e = None
        elif kind == "partial":
            a, b = a.real, b.real
            cr = np.array([np.abs(q[3]) ** 2 / (q[1] * q[2]) for q in R.bi])
            D = np.maximum((1 - cr)[:, None, :] * (1 - cr)[None, :, :], 1e-300)
            e = float(np.nanmax(np.abs(a - b) * np.minimum(D, 1.0) ** 2)) if sd == "float32" else float(np.nanmax(np.abs(a - b) * np.minimum(D, 1.0)))
            t = tol * 10
        elif a.size == 0:
            e = 0.0
        elif _bad(a) and _bad(b) and name in ("coherence_bavg", "coherency_bavg"):
            e = 0.0
        else:
            e = float(np.nanmax(np.abs(a - b))) if not _bad(a) else float("inf")
        if e is None or not e <= t:
            fails.append(Fail("C08/%s/dtype" % name,
                              "%s differs between %s samples (%s layout) and the same samples stored as float64" % (name, sd, form),
                              e, 0, {"entry_point": name, "dtype": sd}))
    if sd != "float32":
        if "coherence" in res and res["coherence"].ndim == 3:
            check_coh("coherence(%s)" % sd, res["coherence"])
        if "coherence_bavg" in res and not _bad(res["coherence_bavg"]) and res["coherence_bavg"].size:
            check_coh("coherence_bavg(%s)" % sd, res["coherence_bavg"])
    return fails


# ------------------------------------------------------------------ analyzers read in any order
AN_ATTRS = ["coherency", "spectrum", "frequencies", "coherence", "phase", "delay", "coherence_partial"]
MT_ATTRS = ["tapers", "eigs", "df", "spectra", "weights", "coherence", "confidence_interval", "frequencies"]


def _same(a, b):
    a, b = np.asarray(a), np.asarray(b)
    return a.shape == b.shape and np.array_equal(a, b, equal_nan=True)


def access_order_fails(R, check_coh):
    """The analyzers' public results are read in a seeded random order (two shuffled passes over ALL of them);
    arrays handed out earlier must keep their values, re-reads must return the values of a pristine analyzer
    (whose results carry the property checks), whatever was read in between."""
    import random
    from nitime.timeseries import TimeSeries
    from nitime.analysis import CoherenceAnalyzer, MTCoherenceAnalyzer
    d = R.d
    fails = []
    rnd = random.Random(d["seed"] * 7 + 1)
    Fs = d["method"]["Fs"]
    jobs = []
    m = dict(d["method"])
    pristine_an = {"coherency": R.an["coherency"], "spectrum": R.an["spectrum"], "frequencies": R.an["frequencies"],
                   "coherence": R.an["coherence"], "phase": R.an["phase"], "delay": R.an["delay"]}
    if R.partial_ok:
        pristine_an["coherence_partial"] = R.an["partial"]
    unwrap = rnd.random() < 0.3
    jobs.append(("an", lambda: CoherenceAnalyzer(TimeSeries(R.x, sampling_rate=Fs), method=dict(m), unwrap_phases=unwrap),
                 AN_ATTRS, pristine_an, ["delay"] if unwrap else []))
    if d["N"] <= 300:
        for adaptive in ((True,) if rnd.random() < 0.5 else (False,)):
            P = MTCoherenceAnalyzer(TimeSeries(R.x, sampling_rate=Fs), adaptive=adaptive)
            c0 = np.array(P.coherence)
            check_coh("mt.coherence", c0)
            pr = {"coherence": c0, "confidence_interval": np.array(P.confidence_interval), "df": P.df,
                  "frequencies": np.array(P.frequencies)}
            jobs.append(("mt", (lambda ad=adaptive: MTCoherenceAnalyzer(TimeSeries(R.x, sampling_rate=Fs), adaptive=ad)),
                         MT_ATTRS, pr, []))
    for tag, make, attrs, pristine, skip in jobs:
        B = make()
        order = rnd.sample(attrs, len(attrs)) + rnd.sample(attrs, len(attrs))
        handed, snap = {}, {}
        done = False
        for a in order:
            try:
                v = getattr(B, a)
            except Exception as e:
                fails.append(Fail("C08/%s.%s/access-order" % (tag, a), "reading %s after %s raised %s" % (
                    a, sorted(handed), type(e).__name__), None, None, {"entry_point": "%s.%s" % (tag, a), "order": order}))
                break
            if a not in handed:
                handed[a] = v
                snap[a] = np.array(v, copy=True)
            for h in handed:          # nothing handed out earlier may have changed
                if not _same(handed[h], snap[h]):
                    fails.append(Fail("C08/%s.%s/access-order" % (tag, h),
                                      "the array returned by .%s was changed in place when .%s was read" % (h, a),
                                      None, "unchanged", {"entry_point": "%s.%s" % (tag, h), "order": order}))
                    done = True
                    break
            if done:
                break
            if a in pristine and a not in skip:
                pv, vv = np.asarray(pristine[a]), np.asarray(v)
                ok = pv.shape == vv.shape and np.allclose(vv, pv, rtol=1e-12, atol=0, equal_nan=True)
                if not ok:
                    fails.append(Fail("C08/%s.%s/access-order" % (tag, a),
                                      ".%s read after %s differs from its value on a fresh analyzer" % (a, [x for x in order[:order.index(a)]]),
                                      None if pv.shape != vv.shape else float(np.nanmax(np.abs(vv - pv))), 0,
                                      {"entry_point": "%s.%s" % (tag, a), "order": order}))
                    break
    return fails


def reuse_fails(R, check_coh):
    """Re-use sequences: an analyzer is built on input 1, a random subset of its results is read, then
    set_input(input 2) with an input of the same shape and sampling rate (a gain-scaled copy of input 1, or other
    signals) and every result is read again: it must equal the result of a fresh analyzer on input 2, and the
    coherence must meet the bounds / diagonal / symmetry (and, for the gain-scaled copy, equal that of input 1)."""
    import random
    from nitime.timeseries import TimeSeries
    from nitime.analysis import CoherenceAnalyzer, MTCoherenceAnalyzer
    d = R.d
    fails = []
    rnd = random.Random(d["seed"] * 11 + 3)
    Fs = d["method"]["Fs"]
    m = dict(d["method"])
    g = np.array(d["gains"])[:-1]
    d2 = dict(R.d0, seed=d["seed"] + 1)
    seconds = [("gain-scaled", R.x0 * g[:, None]), ("other-signals", make_signals(d2)[0])]
    makers = [("an", lambda ts: CoherenceAnalyzer(ts, method=dict(m)), AN_ATTRS, True)]
    if d["N"] <= 300:
        if rnd.random() < 0.5:     # one flavour per input (both occur over the inputs of a run)
            makers.append(("mt", lambda ts: MTCoherenceAnalyzer(ts, adaptive=True), MT_ATTRS, False))
        else:
            makers.append(("mt", lambda ts: MTCoherenceAnalyzer(ts, adaptive=False), MT_ATTRS, True))
    for tag, make, attrs, gain_ok in makers:
        gain_ok = gain_ok and d["kind"] != "mt_adaptive"
        which, x2 = seconds[rnd.randrange(2)]
        B = make(TimeSeries(np.array(R.x0), sampling_rate=Fs))
        first = {}
        for a in rnd.sample(attrs, rnd.randint(1, len(attrs))):
            first[a] = np.array(getattr(B, a), copy=True)
        if "coherence" not in first:
            first["coherence"] = None
        B.set_input(TimeSeries(np.array(x2), sampling_rate=Fs))
        Fr = make(TimeSeries(np.array(x2), sampling_rate=Fs))
        for a in rnd.sample(attrs, len(attrs)):
            try:
                v, w = np.asarray(getattr(B, a)), np.asarray(getattr(Fr, a))
            except Exception as e:
                fails.append(Fail("C08/%s.%s/re-use" % (tag, a), "reading .%s after set_input raised %s" % (a, type(e).__name__),
                                  None, None, {"entry_point": "%s.%s" % (tag, a), "second_input": which}))
                break
            if v.shape != w.shape or not np.allclose(v, w, rtol=1e-12, atol=0, equal_nan=True):
                fails.append(Fail("C08/%s.%s/re-use" % (tag, a),
                                  ".%s after set_input(%s input; first read: %s) differs from a fresh analyzer on that input" % (
                                      a, which, sorted(first)),
                                  None if v.shape != w.shape else float(np.nanmax(np.abs(v - w))), 0,
                                  {"entry_point": "%s.%s" % (tag, a), "second_input": which}))
                break
        c = np.asarray(B.coherence)
        check_coh("%s.coherence(re-used)" % tag, c)
        if which == "gain-scaled" and gain_ok and first.get("coherence") is not None:
            if c.shape != first["coherence"].shape or np.abs(c - first["coherence"]).max() > 1e-9:
                fails.append(Fail("C08/%s.coherence/re-use-gain" % tag,
                                  "coherence after set_input(gain-scaled copy) differs from the coherence of the original input",
                                  float(np.abs(c - first["coherence"]).max()), 0,
                                  {"entry_point": "%s.coherence" % tag, "second_input": which}))
    return fails


# ------------------------------------------------------------------ estimator contract (Gram form), numerically
def validate_gram(R):
    """S_ij = c * sum over terms of A_i conj(A_j) with c > 0, for the Welch method (mlab.csd): recompute
    from the segments. Returns (n_checked, n_bad)."""
    d = R.d
    m = d["method"]
    if m["this_method"] != "welch":
        return 0, 0
    NFFT, nov, Fs = m["NFFT"], m["n_overlap"], m["Fs"]
    win = np.hanning(NFFT)
    x = R.x
    N = x.shape[1]
    starts = range(0, N - NFFT + 1, NFFT - nov)
    X = np.array([[np.fft.fft(x[i, s:s + NFFT] * win)[:NFFT // 2 + 1] for s in starts] for i in range(d["M"])])
    S = np.asarray(R.S)
    nb = n = 0
    for i in range(d["M"]):
        for j in range(i, d["M"]):
            gsum = (X[i] * X[j].conj()).sum(axis=0)
            ratio = S[i, j] / gsum
            ok = np.abs(gsum) > 1e-9 * np.abs(gsum).max()
            # one positive real constant per frequency, the same for all pairs (checked against pair (0,0))
            ref = (S[0, 0] / (X[0] * X[0].conj()).sum(axis=0)).real
            n += 1
            if np.abs(ratio[ok] - ref[ok]).max() > 1e-7 * np.abs(ref).max() or ref.min() <= 0:
                nb += 1
    return n, nb


# ------------------------------------------------------------------ run / replay
def corpus_inputs():
    p = core.VERIF / "harness" / "corpus" / "C08"
    out = []
    if p.exists():
        for f in sorted(p.glob("*.json")):
            out.append(json.loads(f.read_text())["input"])
    return out


def klass(d, entry):
    return "%s/%s%s/M%d" % (entry, d["kind"], ("-short-" + d["short"]) if d.get("short") else "", d["M"])


def run(ctx):
    core.import_nitime()
    ctx.check_props()
    # quick: 3 corpus inputs (Welch, multitaper, adaptive) + 6 Welch + 1 multitaper + 1 adaptive + 1 periodogram + 2 short-input Welch (overlap > NFFT/2)
    kinds = (["welch"] * 6 + ["mt", "mt_adaptive", "periodogram", "welch_short", "welch_short"]) if ctx.quick else [None] * 90
    if os.environ.get("C08_DEV_KINDS") is not None:      # development aid: a reduced run
        kinds = [k for k in os.environ["C08_DEV_KINDS"].split(",") if k]
    chans = [2, 3, 4, 5, 3, 2, 3, 3, 3, 2, 3] + [None] * len(kinds)     # quick: every channel count occurs
    dts = ([None, "int16", None, "int64", None, "int32", "int32", None, "int16", None, None] + [None] * len(kinds)
           if ctx.quick else ["random"] * len(kinds))     # quick: integer-typed signals for 5 of the K inputs
    inputs = corpus_inputs() + [gen_input(ctx.rng, ctx.quick, kind=k, M=(chans[n] if ctx.quick else None), dtype=dts[n])
                                for n, k in enumerate(kinds)]
    big = [gen_input(ctx.rng, ctx.quick, big=True) for _ in range(ctx.scale(40, 250))]
    cases, runs = [], []
    gram_n = gram_bad = 0
    for d in inputs:
        try:
            R = Run(d)
        except Exception as e:  # the implementation raised on an input of the quantifier
            ctx.report_fail(Fail("C08/run/exception", "implementation raised %s: %s" % (type(e).__name__, e),
                                 replay={"entry_point": "run"}), Case("", {"input": d}, "exception"))
            continue
        runs.append(R)
        a, b = validate_gram(R)
        gram_n += a
        gram_bad += b
        for entry, coq in k_cases(R):
            cases.append(Case("(" + coq + ")", {"input": d, "entry": entry}, klass(d, entry)))
    bad = ctx.check_cases("K", HEADER, cases, "check", shard=ctx.scale(3, 4), timeout=ctx.scale(1500, 3600), case_type="case")
    bad_inputs = {}
    for i in bad:
        c = cases[i]
        bad_inputs.setdefault(json.dumps(c.replay["input"], sort_keys=True), []).append(c.replay["entry"])
    # the search: exact property oracle on every run (and on larger inputs that K does not carry)
    for d in big:
        try:
            runs.append(Run(d))
            ctx.count_case(Case(json.dumps(d, sort_keys=True), {"input": d, "entry": "oracle-only"},
                                "oracle-only/%s/M%d" % (d["kind"], d["M"])))
        except Exception as e:
            ctx.report_fail(Fail("C08/run/exception", "implementation raised %s: %s" % (type(e).__name__, e),
                                 replay={"entry_point": "run"}), Case("", {"input": d}, "exception"))
    nf = 0
    for R in runs:
        key = json.dumps(R.d0, sort_keys=True)
        seen = set()
        for f in oracle(R):
            if f.key in seen:
                continue
            seen.add(f.key)
            f.replay = dict(f.replay or {}, model_disagrees=bad_inputs.get(key, []))
            if ctx.report_fail(f, Case("", {"input": R.d0, "entry": f.replay.get("entry_point")}, "")):
                nf += 1
    if gram_bad:
        ctx.obligation("G", "estimator contract: mlab.csd is a positively scaled Gram form", False,
                       "%d of %d pairs" % (gram_bad, gram_n))
    ctx.extra["model_impl_disagreements"] = len(bad)
    ctx.extra["disagreeing_entries"] = sorted({e for v in bad_inputs.values() for e in v})
    ctx.extra["oracle_contract_validations"] = {"welch Gram form (pairs)": gram_n, "failed": gram_bad}
    ctx.extra["rule"] = ("seeded generator: 2..5 channels + a common-cause channel; lengths 64..256 in K, 64..2048 (incl. 65, 127, 257, 509, "
                         "1025, 2047) oracle-only; Welch (even/odd NFFT 15..1024, overlaps 0..NFFT-1), multitaper (fixed/adaptive, NW), "
                         "periodogram; mixtures with lags, tones, DC offsets; per-channel power-of-two magnitudes 2^-40..2^30 in K and "
                         "2^-60..2^40 oracle-only; gains of either sign, small (to 2^-45) and large; Fortran / column-strided / row-strided "
                         "inputs, method dict without 'this_method', positional vs keyword calls; bands incl. lb=0 / ub=None / off-grid / "
                         "exactly on the grid; each K input yields one case per entry point (functions and analyzers); references of the "
                         "oracle are recomputed from the definition with numpy FFT for Welch and periodogram")
    return ctx.finish(
        trusted=["the spectral estimators (mlab.csd via get_spectra, multi_taper_csd, periodogram_csd, mtm_cross_spectrum, dpss) "
                 "are oracles: their output is data; their Gram form / bilinearity is a hypothesis of the theorems, validated "
                 "numerically (KGain cases in Coq; Welch Gram form recomputed from segments in the harness)",
                 "np.sqrt / np.abs / np.angle / np.cos / np.sin / np.mean: np.sqrt by contract (checked in Coq on the passed values), "
                 "np.angle by its characterising relation with sin/cos evaluated in Coq by Taylor polynomials (remainder bound not "
                 "proved), cos/sin of the mean phase in _coherency_bavg taken from numpy",
                 "float comparison at relative tolerance 1e-9 (model evaluated exactly on the float inputs)"],
        assumptions=["diagonal of the spectral matrix is real and positive (checked per case up to rounding)",
                     "periodogram partial coherence (0/0, rank-one spectra) is outside the quantifier (non-degenerate spectra)",
                     "CoherenceAnalyzer.delay is modelled without phase unwrapping (unwrap_phases=False)",
                     "band-average bound for adaptive multitaper weights holds over R by the same argument; over Q it is proved for "
                     "estimators whose normalisation is common to the two channels"])


def replay(ctx, path):
    core.import_nitime()
    d = json.loads(open(path).read())
    inp = (d.get("case") or d)["input"]
    R = Run(inp)
    fails = oracle(R)
    print(json.dumps({"input": inp, "fails": [[f.key, f.what, f.observed] for f in fails]}, indent=1, default=str))
    return 1 if fails else 0
