"""check_cases with one retry for shards whose coqc process died without a Coq error
(killed under memory pressure / timed out while other checks load the machine).  A shard that
fails WITH a Coq error ("Unable to unify true with false") is never retried: that is a verdict."""
import re


def check_cases_retry(ctx, prefix, header, cases, check_fn, shard, case_type, timeout=900):
    n_before = ctx.cases_total
    dist_before = dict(ctx.dist)
    bad = ctx.check_cases(prefix, header, cases, check_fn, shard=shard, case_type=case_type, timeout=timeout)
    died = [b for b in ctx.broken
            if b["kind"] == "K" and re.match(r"%s_\d+\.v:corr$" % re.escape(prefix), b["lemma"]) and "Error" not in b["detail"]]
    for b in died:
        si = int(re.match(r"%s_(\d+)\.v" % re.escape(prefix), b["lemma"]).group(1))
        sub = cases[si * shard:(si + 1) * shard]
        keep_total, keep_dist = ctx.cases_total, dict(ctx.dist)
        rbad = ctx.check_cases("%sretry%d" % (prefix, si), header, sub, check_fn, shard=len(sub) or 1,
                               case_type=case_type, timeout=timeout)
        ctx.cases_total, ctx.dist = keep_total, keep_dist          # the same cases: not counted twice
        retry_name = "%sretry%d_0.v:corr" % (prefix, si)
        ok = any(o[1] == retry_name and o[2] for o in ctx.obligations)
        if ok or any(x["lemma"] == retry_name and "Error" in x["detail"] for x in ctx.broken):
            # the retry produced a verdict: it replaces the attempt that died
            ctx.obligations = [o for o in ctx.obligations if o[1] != b["lemma"]]
            ctx.broken = [x for x in ctx.broken if x is not b]
            bad = {i for i in bad if not (si * shard <= i < (si + 1) * shard)} | {si * shard + j for j in rbad}
            ctx.notes.append("correspondence shard %s was re-run once after its coqc process died without a Coq error" % b["lemma"])
    return bad
