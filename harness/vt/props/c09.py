"""C09 — the cached, sparse and seed coherence paths equal the dense all-pairs Welch computation.

P  coq/Props/C09.v                     theorems over Model/Cache.v (all sizes, bands, pair lists, both flags)
K  build/C09/K_*.v                     kernel-evaluated correspondence: the implementation's cache contents,
                                       cache_to_psd / cache_to_coherency / cache_to_relative_phase outputs,
                                       Sparse/SeedCoherenceAnalyzer attributes AND the dense side (get_spectra,
                                       coherency, mlab.csd called directly) against the model, in exact Q[i]
search                                 float oracle: cache path vs dense path on the same pairs and bins
"""
import json
import math
import os

import numpy as np

from vt import core
from vt.core import Case, Fail, flit, zlit, nlit, blit, llit, olit

PID = "C09"
TOL = 1e-8


# ----------------------------------------------------------------------------- configuration -> objects
def fh(x):
    return float(x).hex()


def unhex(l):
    return [float.fromhex(v) for v in l]


def window_obj(w, dense=False):
    """the window as handed to nitime (`dense`: as handed to matplotlib, which needs an ndarray)"""
    from matplotlib import mlab
    t = w["type"]
    if t in ("default", "hanning"):
        return mlab.window_hanning
    if t == "none":
        return mlab.window_none
    if t == "hamming_fn":
        return lambda x: np.hamming(len(x)) * x
    if t == "array":
        return np.array(unhex(w["vals"]))
    if t == "list":
        return np.array(unhex(w["vals"])) if dense else list(unhex(w["vals"]))
    raise ValueError(t)


def window_vals(w, nfft):
    o = window_obj(w, dense=True)
    return np.asarray(o, dtype=float) if np.iterable(o) else np.asarray(o(np.ones(nfft)), dtype=float)


def method_of(cfg, with_fs=True, dense=False, for_impl=False):
    if for_impl and cfg.get("method_none"):
        return None                                   # every method entry at its default (NFFT 64, Hanning, NFFT // 2)
    m = {"this_method": "welch"}
    if cfg.get("nfft_in_method", True):
        m["NFFT"] = cfg["nfft"]
    if with_fs:
        m["Fs"] = float.fromhex(cfg["fs"])
    if cfg["ovl"] is not None:
        m["n_overlap"] = cfg["ovl"]
    if cfg["window"]["type"] != "default":
        m["window"] = window_obj(cfg["window"], dense=dense)
    return m


def rows_of(cfg, key):
    """float64 2-d array of cfg[key] ('data' | 'seeds' | 'targets'): literal hex rows, or a small reproducible
    spec for the large oracle-only cases (values are short dyadics times 2**exp, so scaling is exact)"""
    x = _rows_of(cfg, key)
    ce = (cfg.get("chan_exp") or {}).get(key)
    if ce is not None:
        x = x * (2.0 ** np.asarray(ce, dtype=float))[:, None]        # exact: powers of two
    return x


def _rows_of(cfg, key):
    spec = cfg.get(key + "_spec")
    if spec is None:
        return np.array([unhex(r) for r in cfg[key]], dtype=float)
    rs = np.random.RandomState(spec["seed"])
    x = rs.randn(spec["nch"], spec["n"])
    x = np.round(x * 4) if spec.get("int") else np.round(x * 1024) / 1024
    x[x == 0] = 1.0
    for c in range(1, spec["nch"]):
        x[c] += [0.0, 0.5, 1.0, -0.75][c % 4] * x[0] if not spec.get("int") else (c % 2) * x[0]
    x[x == 0] = 1.0
    x = (x + spec.get("offset", 0.0)) * 2.0 ** spec.get("exp", 0)
    if "rows" in spec:
        x = x[spec["rows"][0]:spec["rows"][1]]
    return x


def shaped(arr, form):
    """the same values in another memory layout / dtype"""
    if form in (None, "C"):
        return np.ascontiguousarray(arr)
    if form == "F":
        return np.asfortranarray(arr)
    if form == "strided":
        big = np.full((arr.shape[0], 2 * arr.shape[1]), 7.5) if arr.ndim == 2 else np.full(2 * arr.shape[0], 7.5)
        big[..., ::2] = arr
        return big[..., ::2]
    if form == "int":
        assert np.all(arr == np.round(arr))
        return arr.astype(np.int64)
    raise ValueError(form)


def ij_obj(ij, form):
    if form == "tuple":
        return tuple(tuple(p) for p in ij)
    if form == "array":
        return np.array(ij)
    if form == "lists":
        return [list(p) for p in ij]
    return [tuple(p) for p in ij]


def band_idx(f, lb, ub):
    """the bins of the vector f that lie in [lb, ub] (definition; not nitime's get_bounds)"""
    f = np.asarray(f, dtype=float)
    return int(np.sum(f < lb)), (len(f) if ub is None else int(np.sum(f <= ub)))


def reference(data, nfft, fs, wv, ovl, pairs, chans):
    """Dense Welch values straight from matplotlib.mlab.csd (window as array, explicit noverlap = the dense
    default NFFT // 2, scale_by_freq=True): spectra of `chans`, coherency Pxy / sqrt(Pxx Pyy) of `pairs` with
    x = row j, y = row i as the dense path orders them, and the bin frequencies k * Fs / NFFT."""
    from matplotlib import mlab
    od = ovl if ovl is not None else nfft // 2
    rows = {c: np.ascontiguousarray(data[c], dtype=float) for c in set(chans) | {v for p in pairs for v in p}}
    psd = {c: np.asarray(mlab.csd(rows[c], rows[c], nfft, fs, mlab.detrend_none, wv, od, scale_by_freq=True)[0])
           for c in rows}
    coh = {}
    with np.errstate(all="ignore"):
        for (i, j) in pairs:
            if (i, j) not in coh:
                pxy = np.asarray(mlab.csd(rows[j], rows[i], nfft, fs, mlab.detrend_none, wv, od, scale_by_freq=True)[0])
                c = pxy / np.sqrt(psd[i] * psd[j])
                # 0/0 bins (a spectrum vanishes there up to rounding: |X|^2 below 1e-22 of the channel's peak)
                # are outside the property (float noise decides the value on either path): marked nan = "no demand"
                dead = (np.abs(psd[i]) <= 1e-22 * np.max(np.abs(psd[i]))) | (np.abs(psd[j]) <= 1e-22 * np.max(np.abs(psd[j])))
                coh[(i, j)] = np.where(dead, np.nan, c)
    return np.arange(nfft // 2 + 1) * fs / nfft, psd, coh


def band_of(cfg):
    lb = float.fromhex(cfg["lb"])
    if cfg.get("lb_int") and lb == 0:
        lb = 0                                        # the literal default value, a python int
    ub = None if cfg["ub"] is None else float.fromhex(cfg["ub"])
    return lb, ub


def twiddles(nfft):
    nb = nfft // 2 + 1
    tw = []
    for k in range(nb):
        row = []
        for t in range(nfft):
            a = 2.0 * math.pi * ((k * t) % nfft) / nfft
            row.append(complex(math.cos(a), -math.sin(a)))
        tw.append(row)
    return tw


def chans_order(ij):
    """order of Coq's `nodup` on the flattened pair list (keeps last occurrences)"""
    flat = [int(v) for p in ij for v in p]
    return [x for n, x in enumerate(flat) if x not in flat[n + 1:]]


# ----------------------------------------------------------------------------- run the implementation
class Obs:
    pass


def run_cache(cfg):
    """cache path (functions or SparseCoherenceAnalyzer), nitime's dense path (for K) and the reference"""
    import nitime.algorithms.cohere as ch
    from nitime.algorithms.spectral import get_spectra
    from matplotlib import mlab
    o = Obs()
    vals = rows_of(cfg, "data")
    data = shaped(vals, cfg.get("form"))
    ijl = [tuple(int(v) for v in p) for p in cfg["ij"]]
    ij = ij_obj(ijl, cfg.get("ij_form"))
    lb, ub = band_of(cfg)
    nfft = cfg["nfft"]
    fs = float.fromhex(cfg["fs"])
    wide = cfg.get("wide", False)
    o.afreqs = None
    o.an = None
    if cfg["via"] == "analyzer":
        import nitime.timeseries as nts
        import nitime.analysis as nta
        T = nts.TimeSeries(data, sampling_rate=fs)
        m = method_of(cfg, with_fs=cfg.get("fs_in_method", True), for_impl=True)
        if cfg.get("call") == "defaults":
            kw = {}
            if m is not None:
                kw["method"] = m
            if lb != 0:
                kw["lb"] = lb
            if ub is not None:
                kw["ub"] = ub
            if not cfg["psm"]:
                kw["prefer_speed_over_memory"] = False
            if not cfg["sbf"]:
                kw["scale_by_freq"] = False
            A = nta.SparseCoherenceAnalyzer(T, ij, **kw)
        else:
            A = nta.SparseCoherenceAnalyzer(T, ij=ij, method=m, lb=lb, ub=ub, prefer_speed_over_memory=cfg["psm"],
                                            scale_by_freq=cfg["sbf"])
        fs = float(A.method["Fs"])
        cache = A.cache
        o.afreqs = np.asarray(A.frequencies, dtype=float)
        psd = A.spectrum
        coh = A.coherency
        o.an = {"coherence": np.asarray(A.coherence), "relative_phases": np.asarray(A.relative_phases)}
        f, _c = ch.cache_fft(data, ij, lb=lb, ub=ub, method=dict(method_of(cfg), Fs=fs),
                             prefer_speed_over_memory=cfg["psm"], scale_by_freq=cfg["sbf"])
    else:
        m = method_of(cfg, for_impl=True)
        if cfg.get("call") == "pos":
            f, cache = ch.cache_fft(data, ij, lb, ub, m, cfg["psm"], cfg["sbf"])
        elif cfg.get("call") == "defaults":          # only what differs from the signature's defaults
            kw = {}
            if m is not None:
                kw["method"] = m
            if lb != 0:
                kw["lb"] = lb
            if ub is not None:
                kw["ub"] = ub
            if cfg["psm"]:
                kw["prefer_speed_over_memory"] = True
            if not cfg["sbf"]:
                kw["scale_by_freq"] = False
            f, cache = ch.cache_fft(data, ij, **kw)
        else:
            f, cache = ch.cache_fft(data, ij, lb=lb, ub=ub, method=m,
                                    prefer_speed_over_memory=cfg["psm"], scale_by_freq=cfg["sbf"])
        psd = ch.cache_to_psd(cache, ij)
        coh = ch.cache_to_coherency(cache, ij)
    o.fs = fs
    o.freqs = np.asarray(f, dtype=float)
    o.lbi, o.ubi = band_idx(o.freqs, lb, ub)
    o.cache = cache
    o.psd = psd
    o.coh = np.asarray(coh)
    o.rp = np.asarray(ch.cache_to_relative_phase(cache, ij))
    o.nw = int(next(iter(cache["FFT_slices"].values())).shape[0])
    if cfg.get("_light"):
        return o
    # reference (independent of nitime): mlab.csd on the listed pairs / channels
    wv = window_vals(cfg["window"], nfft)
    o.rf, o.rpsd, o.rcoh = reference(vals, nfft, fs, wv, cfg["ovl"], ijl, sorted(psd))
    if wide:
        return o
    # nitime's dense side, compared with the model in K
    md = dict(method_of(cfg, dense=True), Fs=fs)
    o.fd, o.fxy = get_spectra(vals, dict(md))
    o.fd2, o.dcoh = ch.coherency(vals, dict(md))
    od = cfg["ovl"] if cfg["ovl"] is not None else nfft // 2
    o.csd = []
    seen = []
    for (i, j) in ijl:
        if (i, j) in seen or len(seen) >= 3:
            continue
        seen.append((i, j))
        p, _f = mlab.csd(vals[j], vals[i], nfft, fs, mlab.detrend_none, window_obj(cfg["window"], dense=True), od,
                         scale_by_freq=cfg["sbf"])
        o.csd.append((i, j, np.asarray(p)))
    return o


def run_seed(cfg):
    import nitime.utils as tsu
    import nitime.timeseries as nts
    import nitime.analysis as nta
    o = Obs()
    seeds = rows_of(cfg, "seeds")
    targets = rows_of(cfg, "targets")
    lb, ub = band_of(cfg)
    fs = float.fromhex(cfg["fs"])
    sd = seeds if cfg["seed2d"] else seeds[0]
    S = nts.TimeSeries(shaped(sd, cfg.get("form")), sampling_rate=fs)
    T = nts.TimeSeries(shaped(targets, cfg.get("form")), sampling_rate=fs)
    m = method_of(cfg, with_fs=cfg.get("fs_in_method", True), for_impl=True)
    if cfg.get("call") == "pos":
        A = nta.SeedCoherenceAnalyzer(S, T, m, lb, ub, cfg["psm"], cfg["sbf"])
    elif cfg.get("call") == "defaults":
        kw = {}
        if m is not None:
            kw["method"] = m
        if lb != 0:
            kw["lb"] = lb
        if ub is not None:
            kw["ub"] = ub
        if not cfg["psm"]:
            kw["prefer_speed_over_memory"] = False
        if not cfg["sbf"]:
            kw["scale_by_freq"] = False
        A = nta.SeedCoherenceAnalyzer(S, T, **kw)
    else:
        A = nta.SeedCoherenceAnalyzer(S, T, method=m, lb=lb, ub=ub,
                                      prefer_speed_over_memory=cfg["psm"], scale_by_freq=cfg["sbf"])
    o.coh = np.asarray(A.coherency)
    o.afreqs = np.asarray(A.frequencies, dtype=float)
    o.coherence = np.asarray(A.coherence)
    o.relative_phases = np.asarray(A.relative_phases)
    fs = float(A.method["Fs"])
    o.fs = fs
    o.ffull = np.asarray(tsu.get_freqs(fs, cfg["nfft"]), dtype=float)
    o.lbi, o.ubi = band_idx(o.ffull, lb, ub)
    o.ns, o.nt = seeds.shape[0], targets.shape[0]
    if cfg.get("_light"):
        return o
    stacked = np.vstack([seeds, targets])
    pairs = [(s_, o.ns + t_) for s_ in range(o.ns) for t_ in range(o.nt)]
    o.rf, _p, rc = reference(stacked, cfg["nfft"], fs, window_vals(cfg["window"], cfg["nfft"]), cfg["ovl"], pairs, [])
    o.rrows = np.array([[rc[(s_, o.ns + t_)] for t_ in range(o.nt)] for s_ in range(o.ns)])
    return o


def run_cfg(cfg):
    return run_seed(cfg) if cfg["kind"] == "seed" else run_cache(cfg)


# ----------------------------------------------------------------------------- Coq emission
def zl(n):
    return "%s%%Z" % zlit(n)


def cl(z):
    z = complex(z)
    return "(%s, %s)" % (flit(z.real), flit(z.imag))


def cvec(v):
    return llit([cl(z) for z in np.asarray(v).ravel()])


def cmat(a):
    a = np.asarray(a)
    if a.ndim == 1:
        a = a[None, :]
    return llit([cvec(r) for r in a])


def fvec(v):
    return llit([flit(x) for x in np.asarray(v, dtype=float).ravel()])


def common_coq(cfg, fs):
    nfft = cfg["nfft"]
    wv = window_vals(cfg["window"], nfft)
    lb, ub = band_of(cfg)
    return " ".join([
        nlit(nfft), olit(cfg["ovl"], nlit), flit(fs), blit(cfg["sbf"]), blit(cfg["psm"]), flit(lb), olit(ub, flit),
        fvec(wv), llit([cvec(r) for r in twiddles(nfft)])])


def cache_coq(cfg, o):
    ij = [tuple(int(v) for v in p) for p in cfg["ij"]]
    keys = chans_order(ij)
    sl = o.cache["FFT_slices"]
    cj = o.cache["FFT_conj_slices"]
    parts = [common_coq(cfg, o.fs),
             llit([fvec(r) for r in rows_of(cfg, "data")]),
             llit(["(%s, %s)" % (zl(i), zl(j)) for i, j in ij]),
             fvec(o.freqs),
             "None" if o.afreqs is None else "(Some %s)" % fvec(o.afreqs),
             flit(o.cache["norm_val"]),
             llit([nlit(k) for k in o.cache.get("unpaired_idx", [])]),
             llit(["(%s, %s)" % (zl(k), cmat(sl[k])) for k in keys if k in sl]),
             llit(["(%s, %s)" % (zl(k), cmat(cj[k])) for k in keys if k in cj]),
             llit(["(%s, %s, %s)" % (zl(k), blit(np.asarray(o.psd[k]).ndim == 2), cvec(o.psd[k]))
                   for k in keys if k in o.psd]),
             "(%s, %s, %s)" % tuple(nlit(s) for s in o.coh.shape),
             llit([llit([cvec(cell) for cell in row]) for row in o.coh])]
    # relative phase on the listed pairs: the returned value and, per window, the angle the
    # harness computes separately (np.angle of the same product) with its cosine and sine
    rps = []
    done = []
    for (i, j) in ij:
        if (i, j) in done or len(done) >= 2:
            continue
        done.append((i, j))
        prod = np.asarray(sl[i]) * np.conjugate(np.asarray(sl[j]))     # (nw, nf)
        ang = np.angle(prod)
        cells = []
        for k in range(prod.shape[1]):
            ws = llit(["(%s, %s, %s)" % (flit(a), flit(math.cos(a)), flit(math.sin(a))) for a in ang[:, k]])
            cells.append("(%s, %s)" % (flit(complex(o.rp[i, j, k]).real), ws))
        rps.append("(%s, %s, %s)" % (zl(i), zl(j), llit(cells)))
    parts.append(llit(rps))
    parts.append(llit([llit([cvec(cell) for cell in row]) for row in np.asarray(o.fxy)]))
    dc = np.asarray(o.dcoh)
    dpairs = []
    for (i, j) in ij:
        if (i, j) not in dpairs and len(dpairs) < 5:
            dpairs.append((i, j))
    parts.append(llit(["(%s, %s, %s)" % (nlit(i), nlit(j), cvec(dc[i, j])) for i, j in dpairs]))
    parts.append(llit(["(%s, %s, %s)" % (nlit(i), nlit(j), cvec(p)) for i, j, p in o.csd]))
    return "(KCache " + "\n ".join(parts) + ")"


def seed_coq(cfg, o):
    parts = [common_coq(cfg, o.fs),
             llit([fvec(r) for r in rows_of(cfg, "seeds")]), blit(cfg["seed2d"]),
             llit([fvec(r) for r in rows_of(cfg, "targets")]),
             fvec(o.ffull), fvec(o.afreqs),
             llit([nlit(s) for s in o.coh.shape]), cvec(o.coh)]
    return "(KSeed " + "\n ".join(parts) + ")"


# ----------------------------------------------------------------------------- oracle (the search)
def _close(a, b, scale=1.0, skip_nan_ref=False):
    a = np.asarray(a)
    b = np.asarray(b)
    if a.shape != b.shape:
        return False
    if skip_nan_ref:                 # reference nan = no demand at that bin (0/0)
        keep = np.isfinite(b)
        a, b = a[keep], b[keep]
    na, nb = ~np.isfinite(a), ~np.isfinite(b)
    if np.any(na != nb):
        return False            # one path is undefined (0/0) where the other is not
    m = ~na
    return bool(np.all(np.abs(a[m] - b[m]) <= TOL * scale + TOL * np.maximum(np.abs(a[m]), np.abs(b[m]))))


def _phase_bad(got, want):
    """Relative phase `got` against the dense complex coherency `want`, as VALUES in the principal range:
    every returned phase must lie in [-pi, pi]; where the dense spectrum is not ~0 and its phase is away
    from the +-pi cut the values must agree; only at the cut (DC / Nyquist / real negative cross-spectra, where
    rounding decides between +pi and -pi) the comparison is on the circle.  Returns None or a description
    naming the first offending bin."""
    got = np.asarray(got, dtype=float).ravel()
    want = np.asarray(want).ravel()
    if got.shape != want.shape:
        return "shapes %s vs %s" % (got.shape, want.shape)
    fin = np.isfinite(want)
    if np.any(~np.isfinite(got) & fin):
        k = int(np.argmax(~np.isfinite(got) & fin))
        return "bin %d: phase %s is not finite (dense %.6g)" % (k, got[k], float(np.angle(want[k])))
    out = np.isfinite(got) & (np.abs(got) > np.pi + 1e-9)
    if np.any(out):
        k = int(np.argmax(out))
        return "bin %d: phase %.9g lies outside [-pi, pi] (dense %.9g)" % (k, got[k], float(np.angle(want[k])) if fin[k] else float("nan"))
    m = fin & np.isfinite(got)
    m[m] &= np.abs(want[m]) > 1e-6
    ph = np.zeros(got.shape)
    ph[m] = np.angle(want[m])
    d = got - ph
    cut = np.abs(ph) > np.pi - 1e-6
    d = np.where(cut, np.angle(np.exp(1j * d)), d)
    bad = m & (np.abs(d) > 1e-6)
    if np.any(bad):
        k = int(np.argmax(bad))
        return "bin %d: phase %.9g, dense %.9g (difference %.6g)" % (k, got[k], ph[k], got[k] - ph[k])
    return None


def _worst(a, b):
    a = np.asarray(a)
    b = np.asarray(b)
    if a.shape != b.shape:
        return "shapes %s vs %s" % (a.shape, b.shape)
    with np.errstate(all="ignore"):
        r = np.abs(a - b) / np.maximum(np.abs(b), 1e-300)
    r = np.where(np.isfinite(r), r, np.inf).ravel()
    if not r.size:
        return "empty"
    k = int(np.argmax(r))
    return "max relative deviation %.3g at flat index %d (%s vs %s)" % (float(r[k]), k, a.ravel()[k], b.ravel()[k])


def oracle_cache(cfg, o):
    """the property itself, in floats: cache outputs == dense outputs on the same pairs and bins"""
    fails = []
    ij = [tuple(int(v) for v in p) for p in cfg["ij"]]
    lbi, ubi = o.lbi, o.ubi
    nfft = cfg["nfft"]
    par = "odd-NFFT" if nfft % 2 else "even-NFFT"
    ep = "SparseCoherenceAnalyzer" if cfg["via"] == "analyzer" else "cache_fft"
    # frequency vector
    fband = o.freqs[lbi:ubi]
    if not _close(fband, o.rf[lbi:ubi], scale=abs(o.fs)):
        fails.append(Fail("C09/frequencies/%s" % par, "cache frequency vector differs from the dense (mlab) one: "
                          + _worst(fband, o.rf[lbi:ubi]), fband.tolist(), o.rf[lbi:ubi].tolist()))
    if o.afreqs is not None and not _close(o.afreqs, o.rf[lbi:ubi], scale=abs(o.fs)):
        fails.append(Fail("C09/frequencies/%s" % par, "SparseCoherenceAnalyzer.frequencies differs from the dense one: "
                          + _worst(o.afreqs, o.rf[lbi:ubi]), o.afreqs.tolist(), o.rf[lbi:ubi].tolist()))
    nf = ubi - lbi
    for (i, j) in ij:
        want = o.rcoh[(i, j)][lbi:ubi]
        got = o.coh[i, j]
        if not _close(got, want, skip_nan_ref=True):
            fails.append(Fail("C09/cache_to_coherency/%s" % par, "%s coherency of pair (%d,%d) differs from dense: %s"
                              % (ep, i, j, _worst(got, want)), str(got), str(want)))
            break
        if o.an is not None:
            if not _close(o.an["coherence"][i, j], np.abs(want) ** 2, skip_nan_ref=True):
                fails.append(Fail("C09/SparseCoherenceAnalyzer.coherence", "coherence of pair (%d,%d) differs from dense: %s"
                                  % (i, j, _worst(o.an["coherence"][i, j], np.abs(want) ** 2))))
                break
            pb = _phase_bad(o.an["relative_phases"][i, j], want)
            if pb:
                fails.append(Fail("C09/SparseCoherenceAnalyzer.relative_phases", "relative phase of pair (%d,%d) differs "
                                  "from dense, band %s" % (i, j, pb), str(o.an["relative_phases"][i, j]), str(np.angle(want))))
                break
    for k in sorted(o.psd):
        want = o.rpsd[k][lbi:ubi]
        got = np.asarray(o.psd[k]).ravel()
        if got.shape != (nf,) or not _close(got, want, scale=float(np.max(np.abs(want))) if nf else 1.0):
            key = "C09/cache_to_psd/scale_by_freq=False" if not cfg["sbf"] else "C09/cache_to_psd/%s" % par
            fails.append(Fail(key, "%s power spectrum of channel %d differs from dense get_spectra: %s"
                              % (ep, k, _worst(got, want)), str(got), str(want)))
            break
    for (i, j) in ij:
        want = o.rcoh[(i, j)][lbi:ubi]
        got = np.asarray(o.rp)[i, j].real
        pb = _phase_bad(got, want)
        if pb:
            key = "C09/cache_to_relative_phase/multi-window" if o.nw > 1 else "C09/cache_to_relative_phase/single-window"
            fails.append(Fail(key, "cache_to_relative_phase of pair (%d,%d) differs from the dense phase (angle of the "
                              "averaged cross-spectrum), band %s" % (i, j, pb), str(got), str(np.angle(want))))
            break
    return fails


def oracle_seed(cfg, o):
    fails = []
    lbi, ubi = o.lbi, o.ubi
    nf = ubi - lbi
    par = "odd-NFFT" if cfg["nfft"] % 2 else "even-NFFT"
    if not _close(o.afreqs, o.rf[lbi:ubi], scale=abs(o.fs)):
        fails.append(Fail("C09/frequencies/%s" % par, "SeedCoherenceAnalyzer.frequencies differs from the dense one: "
                          + _worst(o.afreqs, o.rf[lbi:ubi]), o.afreqs.tolist(), o.rf[lbi:ubi].tolist()))
    want = o.rrows[:, :, lbi:ubi]
    if o.coh.size != want.size:
        fails.append(Fail("C09/SeedCoherenceAnalyzer/shape", "coherency has %s values, dense rows have %s"
                          % (o.coh.shape, want.shape)))
        return fails
    got = o.coh.reshape(want.shape)
    if not _close(got, want, skip_nan_ref=True):
        fails.append(Fail("C09/SeedCoherenceAnalyzer/%s" % par, "seed rows differ from the dense result on the stacked "
                          "channels: " + _worst(got, want), str(got), str(want)))
    elif not _close(o.coherence.reshape(want.shape), np.abs(want) ** 2, skip_nan_ref=True):
        fails.append(Fail("C09/SeedCoherenceAnalyzer.coherence", "coherence differs from dense"))
    else:
        pb = _phase_bad(o.relative_phases.reshape(want.shape), want)
        if pb:
            fails.append(Fail("C09/SeedCoherenceAnalyzer.relative_phases", "relative phases differ from dense, flat %s" % pb,
                              str(o.relative_phases), str(np.angle(want))))
    return fails


def oracle_zero_pad(cfg):
    """utils.zero_pad: data kept in place, zeros appended on the last axis, long data untouched"""
    import nitime.utils as tsu
    data = rows_of(cfg, "data" if cfg["kind"] == "cache" else "targets")
    nfft = cfg["nfft"]
    got = np.asarray(tsu.zero_pad(data.copy(), nfft))
    n = data.shape[1]
    want = data if n >= nfft else np.concatenate([data, np.zeros((data.shape[0], nfft - n))], axis=1)
    if got.shape != want.shape or not np.array_equal(got, want):
        return [Fail("C09/zero_pad", "utils.zero_pad(x, %d) of %d samples is not x followed by zeros" % (nfft, n),
                     str(got), str(want))]
    g1 = np.asarray(tsu.zero_pad(data[0].copy(), nfft))
    if g1.shape != want[0].shape or not np.array_equal(g1, want[0]):
        return [Fail("C09/zero_pad", "utils.zero_pad of a 1-d series is not x followed by zeros", str(g1), str(want[0]))]
    return []


RESCALE_EXP = [-45, 35, -44, 36, -43, 34, -46, 33]


def _eq_rel(a, b):
    """equal up to a relative 1e-9 of the larger magnitude in the array (no absolute term), same nan pattern"""
    a = np.asarray(a)
    b = np.asarray(b)
    if a.shape != b.shape:
        return False
    na, nb = ~np.isfinite(a), ~np.isfinite(b)
    if np.any(na != nb):
        return False
    m = ~na
    if not np.any(m):
        return True
    return bool(np.all(np.abs(a[m] - b[m]) <= 1e-9 * max(float(np.max(np.abs(a[m]))), float(np.max(np.abs(b[m]))))))


def oracle_rescale(cfg, o):
    """Every channel multiplied by its own exact power of two far from the data's scale: coherency, coherence and
    relative phase must not move, a power spectrum must scale by the square of its channel's factor.  A hidden
    absolute threshold / eps guard in the cache path fails this on every input."""
    fails = []
    c2 = dict(cfg, _light=True)
    if cfg.get("form") == "int":
        c2["form"] = "C"                    # the rescaled values are not integers
    ex = lambda n, off=0: [RESCALE_EXP[(k + off) % len(RESCALE_EXP)] for k in range(n)]
    try:
        if cfg["kind"] == "seed":
            c2["chan_exp"] = {"seeds": ex(o.ns), "targets": ex(o.nt, o.ns)}
            o2 = run_seed(c2)
            for name, a, b in (("coherency", o2.coh, o.coh), ("coherence", o2.coherence, o.coherence),
                               ("relative_phases", o2.relative_phases, o.relative_phases)):
                if not _eq_rel(a, b):
                    fails.append(Fail("C09/rescale/SeedCoherenceAnalyzer.%s" % name,
                                      "SeedCoherenceAnalyzer.%s changes when each channel is multiplied by a power of two "
                                      "(2^%s): %s" % (name, c2["chan_exp"], _worst(a, b)), str(a), str(b)))
                    break
            return fails
        nch = rows_of(cfg, "data").shape[0]
        c2["chan_exp"] = {"data": ex(nch)}
        o2 = run_cache(c2)
        ij = [tuple(int(v) for v in p) for p in cfg["ij"]]
        ep = "SparseCoherenceAnalyzer" if cfg["via"] == "analyzer" else "cache_fft"
        for (i, j) in ij:
            if not _eq_rel(o2.coh[i, j], o.coh[i, j]):
                fails.append(Fail("C09/rescale/cache_to_coherency", "%s coherency of pair (%d,%d) changes when the channels are "
                                  "multiplied by 2^%s: %s" % (ep, i, j, c2["chan_exp"]["data"], _worst(o2.coh[i, j], o.coh[i, j])),
                                  str(o2.coh[i, j]), str(o.coh[i, j])))
                break
            if not _eq_rel(np.asarray(o2.rp)[i, j], np.asarray(o.rp)[i, j]):
                fails.append(Fail("C09/rescale/cache_to_relative_phase", "relative phase of pair (%d,%d) changes when the channels "
                                  "are multiplied by 2^%s" % (i, j, c2["chan_exp"]["data"]),
                                  str(np.asarray(o2.rp)[i, j]), str(np.asarray(o.rp)[i, j])))
                break
            if o.an is not None and not (_eq_rel(o2.an["coherence"][i, j], o.an["coherence"][i, j]) and
                                         _eq_rel(o2.an["relative_phases"][i, j], o.an["relative_phases"][i, j])):
                fails.append(Fail("C09/rescale/SparseCoherenceAnalyzer", "coherence / relative_phases of pair (%d,%d) change when "
                                  "the channels are multiplied by 2^%s" % (i, j, c2["chan_exp"]["data"])))
                break
        for k in sorted(o.psd):
            want = np.asarray(o.psd[k]) * 4.0 ** c2["chan_exp"]["data"][k]
            if not _eq_rel(np.asarray(o2.psd[k]), want):
                fails.append(Fail("C09/rescale/cache_to_psd", "%s power spectrum of channel %d does not scale by c^2 when the channel "
                                  "is multiplied by c = 2^%d: %s" % (ep, k, c2["chan_exp"]["data"][k],
                                                                   _worst(np.asarray(o2.psd[k]), want)),
                                  str(np.asarray(o2.psd[k])), str(want)))
                break
    except Exception as e:
        fails.append(Fail("C09/rescale/exception", "the computation on rescaled data raised %s: %s" % (type(e).__name__, e)))
    return fails


def oracle(cfg, o):
    return (oracle_zero_pad(cfg) + (oracle_seed(cfg, o) if cfg["kind"] == "seed" else oracle_cache(cfg, o))
            + oracle_rescale(cfg, o))


# ----------------------------------------------------------------------------- generator
def gen_data(rng, nch, n):
    rows = []
    for c in range(nch):
        mode = rng.random()
        if mode < 0.5:
            r = [round(rng.gauss(0, 1) * 16) / 16 for _ in range(n)]
        else:
            r = [rng.gauss(0, 1) + 0.5 * math.sin(0.7 * t + c) for t in range(n)]
        r = [v if v != 0 else 0.0625 for v in r]      # no exact zeros: a windowed channel is never identically 0
        rows.append(r)
    # correlate the channels a little so that coherency is not tiny
    base = rows[0]
    for c in range(1, nch):
        a = rng.choice([0.0, 0.5, 1.0, -0.75])
        rows[c] = [(x + a * b) or 0.0625 for x, b in zip(rows[c], base)]
    return rows


def gen_window(rng, nfft):
    r = rng.random()
    if r < 0.3:
        return {"type": "default"}
    if r < 0.45:
        return {"type": "hanning"}
    if r < 0.55:
        return {"type": "none"}
    if r < 0.65:
        return {"type": "hamming_fn"}
    if r < 0.85:
        return {"type": "array", "vals": [fh(round(rng.uniform(0.1, 1.5) * 32) / 32) for _ in range(nfft)]}
    return {"type": rng.choice(["array", "list"]), "vals": [fh(rng.uniform(-1.0, 1.5)) for _ in range(nfft)]}


def gen_common(rng, ctx_quick, maxwin):
    nfft = rng.choice([4, 5, 6, 7, 8, 9, 10, 11, 12, 15, 16] if ctx_quick else
                      [4, 5, 6, 7, 8, 9, 10, 11, 12, 13, 15, 16, 20, 21, 24, 32])
    if rng.random() < 0.5:
        ovl = None
        step = nfft - nfft // 2
    else:
        ovl = rng.choice([0, 0, 1, nfft // 2, (nfft + 1) // 2, nfft - 1, rng.randint(0, nfft - 1)])
        step = nfft - ovl
    r = rng.random()
    if r < 0.15:
        n = rng.randint(2, nfft - 1)                       # shorter than NFFT: zero padded, one window
    elif r < 0.3:
        n = nfft                                           # exactly one window
    elif r < 0.4:
        n = nfft + rng.randint(1, max(1, step))            # one or two windows
    else:
        nw = rng.randint(2, maxwin)
        n = nfft + (nw - 1) * step + rng.randint(0, step - 1)
    fs = rng.choice([1.0, 2.0, 0.5, 2 * math.pi, 10.0, 4.0, 100.0, 0.8])
    nb = nfft // 2 + 1
    grid = [k * (fs / 2) / (nb - 1) for k in range(nb)]
    r = rng.random()
    if r < 0.35:
        lb, ub = 0.0, None
    elif r < 0.42:
        lb, ub = 0.0, 0.0                                  # ub = 0 is a legal band: the DC bin alone
    else:
        k1 = rng.randint(0, nb - 1)
        k2 = rng.randint(k1, nb - 1)
        lb = rng.choice([0.0, grid[k1], grid[k1] - 0.01 * fs / nfft, grid[k1] + 0.01 * fs / nfft])
        ub = rng.choice([None, grid[k2], grid[k2] + 0.01 * fs / nfft, fs / 2])
        lb = max(lb, 0.0)
        if ub is not None and ub < lb:
            ub = lb
    return {"nfft": nfft, "ovl": ovl, "fs": fh(fs), "sbf": rng.random() < 0.6, "psm": rng.random() < 0.5,
            "lb": fh(lb), "ub": None if ub is None else fh(ub), "window": gen_window(rng, nfft)}, n


def gen_ij(rng, nch):
    r = rng.random()
    allp = [(i, j) for i in range(nch) for j in range(nch)]
    if r < 0.1:
        return [list(rng.choice([(0, 0), (0, 1), (1, 0), rng.choice(allp), (nch - 1, nch - 1)]))]   # a single pair
    if r < 0.2:
        ij = allp
    elif r < 0.35:
        ij = [(i, j) for i in range(nch) for j in range(i, nch)]
    else:
        ij = [rng.choice(allp) for _ in range(rng.randint(1, 6))]
        if rng.random() < 0.5:
            p = rng.choice(ij)
            ij.append((p[1], p[0]))          # reversed pair
        if rng.random() < 0.4:
            ij.append(rng.choice(ij))        # repeated pair
        if rng.random() < 0.4:
            c = rng.randrange(nch)
            ij.append((c, c))                # self pair
        rng.shuffle(ij)
    return [list(p) for p in ij]


def gen_base_cfg(rng, quick):
    maxwin = 8 if quick else 14
    if rng.random() < 0.25:
        c, n = gen_common(rng, quick, maxwin)
        ns = rng.choice([1, 1, 2, 3])
        nt = rng.randint(1, 4)
        rows = gen_data(rng, ns + nt, n)
        c.update({"kind": "seed", "seed2d": (ns > 1) or rng.random() < 0.5,
                  "seeds": [[fh(v) for v in r] for r in rows[:ns]],
                  "targets": [[fh(v) for v in r] for r in rows[ns:]],
                  "fs_in_method": rng.random() < 0.5})
        if not c["fs_in_method"]:
            c["fs"] = fh(rng.choice([1.0, 2.0, 0.5, 4.0, 10.0]))     # rates a TimeSeries keeps exactly
        return c
    c, n = gen_common(rng, quick, maxwin)
    nch = rng.randint(2, 5)
    c.update({"kind": "cache", "via": "analyzer" if rng.random() < 0.35 else "func",
              "data": [[fh(v) for v in r] for r in gen_data(rng, nch, n)], "ij": gen_ij(rng, nch),
              "fs_in_method": rng.random() < 0.5})
    if c["via"] == "analyzer" and not c["fs_in_method"]:
        c["fs"] = fh(rng.choice([1.0, 2.0, 0.5, 4.0, 10.0]))
    return c


HI_EXAMPLES = [[(1, 8)], [(8, 3), (3, 3), (0, 8)], [(11, 2), (2, 11), (9, 9), (2, 5)], [(10, 4), (4, 7), (7, 10), (10, 4)],
               [(8, 1)], [(9, 0), (0, 9)], [(15, 15)], [(12, 3), (3, 12), (12, 12)]]


def gen_hi_ij(rng, nch):
    """a SPARSE pair list on many-channel data: at most four distinct channels, at least one index >= 8
    (small Python sets / dicts of such keys do not iterate in ascending order), with repeated, self and
    reversed pairs"""
    ex = [e for e in HI_EXAMPLES if max(v for p in e for v in p) < nch]
    if ex and rng.random() < 0.4:
        return [list(p) for p in rng.choice(ex)]
    k = rng.randint(2, 4)
    hi = rng.randrange(8, nch)
    ch = [hi] + rng.sample([c for c in range(nch) if c != hi], k - 1)
    ij = [(rng.choice(ch), rng.choice(ch)) for _ in range(rng.randint(1, 4))]
    if not any(hi in p for p in ij):
        ij.append((hi, rng.choice(ch)))
    if rng.random() < 0.5:
        p = rng.choice(ij)
        ij.append((p[1], p[0]))
    if rng.random() < 0.3:
        ij.append(rng.choice(ij))
    if rng.random() < 0.3:
        ij.append((hi, hi))
    rng.shuffle(ij)
    return [list(p) for p in ij]


def gen_hi_cfg(rng, quick):
    """K-sized case on 9..12 (thorough: ..16) channels with a sparse high-index pair list; small NFFT keeps it cheap"""
    while True:
        c, n = gen_common(rng, quick, 3)
        if c["nfft"] <= 8:
            break
    nch = rng.randint(9, 12 if quick else 16)
    c.update({"kind": "cache", "via": "analyzer" if rng.random() < 0.4 else "func",
              "data": [[fh(v) for v in r] for r in gen_data(rng, nch, n)], "ij": gen_hi_ij(rng, nch),
              "fs_in_method": True, "form": rng.choice(["C", "F", "strided"]),
              "ij_form": rng.choice(["list", "tuple", "array", "lists"]), "call": rng.choice(["kw", "pos", "defaults"]),
              "lb_int": rng.random() < 0.5})
    if c["via"] == "analyzer":
        c["fs"] = fh(rng.choice([1.0, 2.0, 0.5, 4.0, 10.0]))
        c["lb"], c["ub"] = fh(0.0), None
    return c


def gen_cfg(rng, quick):
    """a K-sized configuration, in one of the alternative forms the entry points accept"""
    c = gen_base_cfg(rng, quick)
    c["form"] = rng.choice(["C", "C", "F", "strided", "int"])
    if c["form"] == "int":
        for key in ("data", "seeds", "targets"):
            if key in c:
                c[key] = [[fh(round(float.fromhex(v) * 4) or 1.0) for v in r] for r in c[key]]
    c["ij_form"] = rng.choice(["list", "tuple", "array", "lists"])
    c["call"] = rng.choice(["kw", "pos", "defaults"])
    c["lb_int"] = rng.random() < 0.5
    return c


WIDE_N = [1025, 2049, 4097, 1000, 509, 127, 64, 65, 1024, 8193, 3001, 16385, 20011]
WIDE_NFFT = [64, 64, 128, 255, 256, 257, 512, 1024, 1025, 33, 63, 100]


def gen_wide_cfg(rng, quick):
    """Oracle-only configuration (never evaluated in Coq): sizes up to tens of thousands of samples incl. lengths
    just above powers of two and primes, NFFT up to 1025 of both parities (NFFT may be left to its default 64),
    up to thousands of windows, up to 12 channels, data scaled by 2**-60 .. 2**40 with offsets, every form."""
    nfft = rng.choice(WIDE_NFFT)
    r = rng.random()
    if r < 0.15:
        ovl, n = nfft - 1, nfft + rng.choice([700, 1500, 2049 - nfft if nfft < 1500 else 900])   # very many windows
    elif r < 0.5:
        ovl, n = None, rng.choice(WIDE_N)
    else:
        ovl, n = rng.choice([0, 1, nfft // 2, nfft // 3, nfft - 2]), rng.choice(WIDE_N)
    if rng.random() < 0.12:
        n = rng.choice([nfft - 1, nfft, nfft + 1, max(2, nfft // 3)])
    if not quick and rng.random() < 0.2:
        n = rng.choice([32769, 65537, 50021])
    fs = rng.choice([1.0, 2.0, 0.5, 2 * math.pi, 10.0, 1000.0, 0.001, 44100.0])
    r = rng.random()
    if r < 0.4:
        lb, ub = 0.0, None
    else:
        a, b = sorted([rng.uniform(0, fs / 2), rng.uniform(0, fs / 2)])
        k = rng.randint(0, nfft // 2)
        lb, ub = rng.choice([a, k * fs / nfft, 0.0]), rng.choice([b, None, fs / 2, (nfft // 2) * fs / nfft])
        if ub is not None and ub < lb:
            lb, ub = ub, lb
    wt = rng.choice(["default", "default", "hanning", "none", "hamming_fn", "array", "list"])
    w = {"type": wt}
    if wt in ("array", "list"):
        wrs = np.random.RandomState(rng.randint(0, 10 ** 6))
        w["vals"] = [fh(v) for v in np.round(wrs.uniform(0.1, 1.5, nfft) * 64) / 64]
    form = rng.choice(["C", "F", "strided", "int"])
    exp = rng.choice([-60, -40, -20, -8, 0, 0, 0, 7, 20, 40])
    if form == "int":
        exp = abs(exp) if abs(exp) <= 40 else 40          # int64 data: integer values only
    spec = lambda nch: {"seed": rng.randint(0, 10 ** 6), "nch": nch, "n": n, "exp": exp, "int": form == "int",
                        "offset": rng.choice([0.0, 0.0, 1.0, -3.0, 100.0])}
    c = {"wide": True, "nfft": nfft, "nfft_in_method": not (nfft == 64 and rng.random() < 0.6), "ovl": ovl,
         "fs": fh(fs), "sbf": rng.random() < 0.6, "psm": rng.random() < 0.5, "lb": fh(lb),
         "ub": None if ub is None else fh(ub), "window": w, "form": form,
         "ij_form": rng.choice(["list", "tuple", "array", "lists"]), "call": rng.choice(["kw", "pos", "defaults"]),
         "lb_int": rng.random() < 0.5, "fs_in_method": True}
    if rng.random() < 0.25:
        ns = rng.choice([1, 2, 4])
        sp = spec(ns + rng.choice([1, 3, 9]))
        c.update({"kind": "seed", "seed2d": ns > 1 or rng.random() < 0.5})
        # seeds and targets are rows of one generated block
        c["seeds_spec"] = dict(sp, rows=[0, ns])
        c["targets_spec"] = dict(sp, rows=[ns, sp["nch"]])
        return to_method_none(c, rng) if rng.random() < 0.2 else c
    nch = rng.choice([2, 3, 5, 8, 9, 12, 13, 16])
    if nch <= 5:
        ij = gen_ij(rng, nch)
    elif nch >= 9 and rng.random() < 0.6:
        ij = gen_hi_ij(rng, nch)
    else:
        ij = [[rng.randrange(nch), rng.randrange(nch)] for _ in range(rng.randint(3, 12))] + [[nch - 1, 0], [0, 0]]
    c.update({"kind": "cache", "via": "analyzer" if rng.random() < 0.3 else "func", "data_spec": spec(nch), "ij": ij})
    if c["via"] == "analyzer":
        c["fs"] = fh(rng.choice([1.0, 2.0, 0.5, 4.0, 10.0]))
    return to_method_none(c, rng) if rng.random() < 0.2 else c


def to_method_none(c, rng):
    """the same data with method=None: NFFT 64, Hanning, overlap 32, Fs 2 pi (functions) / the sampling rate"""
    func = c["kind"] == "cache" and c["via"] == "func"
    fs = 2 * math.pi if func else rng.choice([1.0, 2.0, 0.5, 4.0, 10.0])
    ub = rng.choice([None, None, fs / 2, 0.0, fs / 4])
    c.update({"method_none": True, "nfft": 64, "nfft_in_method": False, "ovl": None, "window": {"type": "default"},
              "fs": fh(fs), "fs_in_method": False, "lb": fh(0.0), "ub": None if ub is None else fh(ub)})
    return c


def klass(cfg, o):
    n = rows_of(cfg, "data" if cfg["kind"] == "cache" else "targets").shape[1]
    nfft = cfg["nfft"]
    rel = "short" if n < nfft else ("equal" if n == nfft else "long")
    band = "full" if (cfg["ub"] is None and float.fromhex(cfg["lb"]) == 0.0) else "band"
    k = cfg["kind"] if cfg["kind"] == "seed" else cfg["via"]
    if cfg["kind"] == "seed":
        k += "2d" if cfg["seed2d"] else "1d"
    if cfg.get("wide"):
        sp = cfg.get("data_spec") or cfg.get("targets_spec")
        return "wide/%s/n<=%d/nfft<=%d/%s/2^%d/%s" % (k, 1 << max(n - 1, 1).bit_length(), 1 << max(nfft - 1, 1).bit_length(),
                                                     rel, sp["exp"], cfg["form"])
    return "%s/%s/%s/%s/%s/%s/%s/%s" % (k, "odd" if nfft % 2 else "even", rel, band,
                                      "psm" if cfg["psm"] else "mem", "sbf" if cfg["sbf"] else "nosbf",
                                      "ovl" if cfg["ovl"] is not None else "dflt", cfg["window"]["type"])


def make_case(cfg):
    try:
        o = run_cfg(cfg)
        coq = "" if cfg.get("wide") else (seed_coq(cfg, o) if cfg["kind"] == "seed" else cache_coq(cfg, o))
        c = Case(coq, {"cfg": cfg}, klass(cfg, o), nontrivial=True)
        c.obs = o
        c.err = None
    except Exception as e:  # the implementation (or a library call on its behalf) raised
        c = Case("", {"cfg": cfg}, "exception", nontrivial=False)
        c.obs = None
        c.err = "%s: %s" % (type(e).__name__, e)
    return c


HEADER = ("From Coq Require Import QArith List Bool ZArith Arith PrimFloat.\n"
          "From NT Require Import F2Z Close QC Lists Cache C09K.\nImport ListNotations.\nOpen Scope Q_scope.\n")


def corpus_cfgs():
    p = core.VERIF / "harness" / "corpus" / PID
    out = []
    if p.exists():
        for f in sorted(p.glob("*.json")):
            d = json.loads(f.read_text())
            out.append(d.get("cfg") or d["case"]["cfg"])
    return out


def fails_of(c):
    if c.err is not None:
        return [Fail("C09/exception", "the cache / dense computation raised " + c.err)]
    return oracle(c.replay["cfg"], c.obs)


def retry_killed(ctx, kbad, shard):
    """A coqc process that died without a Coq error message (killed by the OOM killer / a signal on an
    overloaded machine) proves nothing either way: recompile such shards once, one at a time."""
    import re
    still = []
    for b in list(ctx.broken):
        m = re.match(r"(K_(\d+))\.v:corr$", b.get("lemma", ""))
        if b.get("kind") != "K" or not m or "Error" in b.get("detail", "") or "TIMEOUT" in b.get("detail", ""):
            still.append(b)
            continue
        name, si = m.group(1), int(m.group(2))
        path = ctx.build / (name + ".v")
        r = ctx.coqc(name + "_retry", path.read_text(), timeout=3600)
        if r.ok:
            ctx.obligations = [(k, n, True if (k == "K" and n == b["lemma"]) else ok) for (k, n, ok) in ctx.obligations]
            kbad = {i for i in kbad if not (si * shard <= i < (si + 1) * shard)}
            ctx.notes.append("shard %s: first coqc process died without a Coq error (killed); recompiled successfully" % name)
        else:
            b["detail"] = (b.get("detail", "") + "\n[retry] " + r.out[-1200:])
            still.append(b)
    ctx.broken[:] = still
    return kbad


def run(ctx):
    core.import_nitime()
    ctx.check_props()
    n = int(os.environ.get("C09_CASES") or ctx.scale(280, 1500))      # C09_CASES: development knob only
    nwide = int(os.environ.get("C09_WIDE") or ctx.scale(36, 400))
    cfgs = corpus_cfgs() + [gen_cfg(ctx.rng, ctx.quick) for _ in range(n)]
    cfgs += [gen_hi_cfg(ctx.rng, ctx.quick) for _ in range(ctx.scale(12, 80))]   # K too: sparse lists with channel indices >= 8
    cfgs += [gen_wide_cfg(ctx.rng, ctx.quick) for _ in range(nwide)]          # oracle only: the whole size / magnitude range
    cases = [make_case(c) for c in cfgs]
    kcases = [c for c in cases if c.err is None and c.coq]
    kbad = ctx.check_cases("K", HEADER, kcases, "check", shard=ctx.scale(20, 64), timeout=ctx.scale(2400, 3600),
                           case_type="kcase")
    kbad = retry_killed(ctx, kbad, ctx.scale(20, 64))
    bad = {id(kcases[i]) for i in kbad}
    for c in cases:
        if c.err is not None or not c.coq:
            ctx.count_case(c)
    # the search: disagreeing cases first
    order = sorted(range(len(cases)), key=lambda i: 0 if id(cases[i]) in bad else 1)
    for i in order:
        c = cases[i]
        for f in fails_of(c):
            f.replay = {"entry_point": "nitime.algorithms.cohere cache_* / nitime.analysis Sparse/SeedCoherenceAnalyzer",
                        "model_disagrees": id(c) in bad}
            ctx.report_fail(f, c)
    ctx.extra["model_impl_disagreements"] = len(bad)
    ctx.extra["rule"] = ("seeded generator over channel counts 2..5, pair lists (all, upper, random with repeated / self / "
                         "reversed pairs), NFFT of both parities, explicit and default overlap, window default / function / "
                         "array, data shorter / equal / longer than NFFT, full and band-limited [lb, ub] incl. bounds on grid "
                         "points, both memory settings, scale_by_freq both, functions and Sparse/SeedCoherenceAnalyzer, 1-d and "
                         "2-d seeds, data C / Fortran / strided / int64, ij as list / tuple / array / list of lists, window also as a "
                         "python list, keyword and positional calls; every case is non-trivial (random data, non-zero channels). "
                         "Plus K-sized cases on 9..16 channels with sparse pair lists using channel indices >= 8. Plus oracle-only 'wide' cases (not evaluated in Coq): lengths 21 .. 65537 incl. 1025 / 2049 / 4097 / "
                         "8193 / 16385 and primes, NFFT 33 .. 1025 of both parities or left to its default, up to thousands of "
                         "windows, up to 12 channels, data scaled by 2^-60 .. 2^40 with offsets. The search oracle takes its "
                         "reference from matplotlib.mlab.csd directly (not from nitime's get_spectra / coherency) and its band "
                         "indices from numpy, with tolerances relative to the data scale")
    return ctx.finish(
        trusted=["scipy.fftpack.fft / np.fft.fft compute the DFT (the model evaluates the DFT from a float twiddle table "
                 "exp(-2 pi i k t/NFFT) supplied by the harness)",
                 "np.sqrt, np.angle, np.mean, np.searchsorted behave as their mathematical definitions (checked through "
                 "characterising relations inside Coq: c^2 * d = pxy^2 and direction; cos/sin of the angles are applied by the harness)",
                 "matplotlib.mlab.csd: its contract as modelled (Model/Cache.v mlab_csd) is itself checked against "
                 "mlab.csd on every cache case"],
        assumptions=["all channels of one computation have the same length (seed and target series too)",
                     "channel indices in ij are non-negative (the seed analyzer's internal key -1 is modelled)",
                     "frequency *vectors* are taken from utils.get_freqs as data (their values are property C05); "
                     "the band index set is modelled (get_bounds)"])


def replay(ctx, path):
    core.import_nitime()
    d = json.loads(open(path).read())
    cfg = d.get("cfg") or (d.get("case") or {}).get("cfg")
    c = make_case(cfg)
    fs = fails_of(c)
    print(json.dumps({"cfg": {k: v for k, v in cfg.items() if k not in ("data", "seeds", "targets")},
                      "fails": [{"key": f.key, "what": f.what} for f in fs]}, indent=1))
    return 1 if any(not ctx.classify(f) for f in fs) else 0
