"""C20 — correlation, normalisation and information measures obey their definitions.

P: coq/Props/C20.v (theorems over Model/Corr.v and Model/Entropy.v, all sizes / inputs)
K: seeded calls of crosscov / crosscorr / autocov / autocorr (1..3-d, any axis, real / complex /
   int / single precision), seed_corrcoef, zscore, percent_change, CorrelationAnalyzer.xcorr /
   xcorr_norm, correlation_spectrum and the entropy family; the Coq kernel evaluates the model in
   exact Q[i] arithmetic on each call and compares with what the implementation returned
   (library kernels np.correlate / np.corrcoef / np.std / fft / np.log2 are called separately by
   the harness on the same input and handed to the model as data)
oracle: the definitions themselves (direct lagged sums, Pearson, moments, entropy identities) in
   exact Fraction arithmetic / Counter histograms, run on the implementation's results
"""
import importlib
import json
import math
from collections import Counter
from fractions import Fraction

import numpy as np

from vt import core
from vt.core import Case, Fail, zlit, flit, blit, llit, nlit

F = Fraction
HEADER = ("From Coq Require Import QArith ZArith List Bool Arith PrimFloat.\n"
          "From NT Require Import F2Z Lists Close QC Sums Corr Entropy C20K.\nImport ListNotations.\nOpen Scope Z_scope.\n")

FN = {"crosscov": "FCrossCov", "crosscorr": "FCrossCorr", "autocov": "FAutoCov", "autocorr": "FAutoCorr"}
EK = {"entropy": "EEntropy", "cond": "ECond", "mi": "EMI", "cc": "ECC", "te": "ETE"}


# ------------------------------------------------------------------ array descriptions
def arr_desc(a):
    a = np.asarray(a)
    d = {"dtype": str(a.dtype), "shape": list(a.shape)}
    flat = a.ravel()
    if np.iscomplexobj(a):
        d["re"] = [float(v).hex() for v in flat.real]
        d["im"] = [float(v).hex() for v in flat.imag]
    else:
        d["re"] = [float(v).hex() for v in flat]
        d["im"] = None
    return d


def desc_arr(d):
    re = np.array([float.fromhex(v) for v in d["re"]])
    if d["im"] is not None:
        a = re + 1j * np.array([float.fromhex(v) for v in d["im"]])
    else:
        a = re
    return a.astype(np.dtype(d["dtype"])).reshape(d["shape"])


def fclist(a):
    """flat complex list of an array as (re, im) float pairs"""
    flat = np.asarray(a).ravel()
    if np.iscomplexobj(flat):
        return llit(["(%s, %s)" % (flit(z.real), flit(z.imag)) for z in flat])
    return llit(["(%s, %s)" % (flit(z), flit(0.0)) for z in flat])


def fl(a):
    return llit([flit(v) for v in np.asarray(a, dtype=float).ravel()])


def nlist(l):
    return llit([nlit(v) for v in l])


def fr(v):
    return F(float(v))


def cfr(a):
    """array -> list of (Fraction re, Fraction im)"""
    flat = np.asarray(a).ravel()
    if np.iscomplexobj(flat):
        return [(F(float(z.real)), F(float(z.imag))) for z in flat]
    return [(F(float(z)), F(0)) for z in flat]


def is_single(dt):
    return np.dtype(dt) in (np.dtype("float32"), np.dtype("complex64"))


def dclass(a):
    dt = np.asarray(a).dtype
    if dt == np.complex64:
        return "complex64"
    if dt.kind == "c":
        return "complex"
    if dt.kind in "iub":
        return str(dt)
    if dt == np.float32:
        return "float32"
    return "real"


# ------------------------------------------------------------------ input variants
ARRAY_VARIANTS = ["plain", "plain", "fortran", "strided", "negstride", "readonly", "plus0", "positional"]


def as_variant(a, v):
    """the same values, held by an object derived in another way"""
    a = np.asarray(a)
    if v == "fortran":
        return np.asfortranarray(a)
    if v == "strided":                       # every second element of a larger buffer, along every axis
        big = np.zeros([2 * n for n in a.shape], dtype=a.dtype)
        sl = tuple(slice(None, None, 2) for _ in a.shape)
        big[sl] = a
        return big[sl]
    if v == "negstride":                     # a reversed view of reversed data
        sl = tuple(slice(None, None, -1) for _ in a.shape)
        return a[sl].copy()[sl]
    if v == "readonly":
        b = a.copy()
        b.setflags(write=False)
        return b
    if v == "plus0":
        return a + 0
    if v == "list":
        return a.tolist()
    return a


# ------------------------------------------------------------------ the implementation
def mods():
    core.import_nitime()
    import nitime.utils as utils
    ent = importlib.import_module("nitime.algorithms.entropy")
    corr = importlib.import_module("nitime.algorithms.correlation")
    cohere = importlib.import_module("nitime.algorithms.cohere")
    import nitime.timeseries as ts
    from nitime.analysis import CorrelationAnalyzer
    return utils, ent, corr, cohere, ts, CorrelationAnalyzer


class FFTSpy(object):
    """stands in for nitime.utils.fftpack while one call runs; records the transform length"""

    def __init__(self, real):
        self._real = real
        self.n = []

    def __getattr__(self, name):
        return getattr(self._real, name)

    def fft(self, x, n=None, axis=-1, **kw):
        self.n.append(n)
        return self._real.fft(x, n, axis=axis, **kw)


def call_corr(d):
    utils = mods()[0]
    v = d.get("v", "plain")
    x = as_variant(desc_arr(d["x"]), v)
    y = as_variant(desc_arr(d["y"]), v)
    x0, y0 = x.copy(), y.copy()
    kw = dict(axis=d["axis"], all_lags=d["al"], normalize=d["nm"])
    fn = d["fn"]
    spy = FFTSpy(utils.fftpack)
    utils.fftpack = spy
    try:
        if v == "positional" and fn == "crosscov":
            r = utils.crosscov(x, y, d["axis"], d["al"], d["db"], d["nm"])
        elif fn == "crosscov":
            r = utils.crosscov(x, y, debias=d["db"], **kw)
        elif fn == "crosscorr":
            r = utils.crosscorr(x, y, debias=d["db"], **kw)      # debias is documented to be ignored
        elif fn == "autocov":
            r = utils.autocov(x, debias=d["db"], **kw)
        else:
            r = utils.autocorr(x, debias=d["db"], **kw)
    finally:
        utils.fftpack = spy._real
    if not (np.array_equal(x, x0) and np.array_equal(y, y0)):
        raise AssertionError("the call modified its input array")
    fs = None
    if spy.n and all(isinstance(v, (int, np.integer)) for v in spy.n) and len(set(spy.n)) == 1:
        fs = int(spy.n[0])
    return np.asarray(r), fs


# ------------------------------------------------------------------ exact definitions (oracle side)
def cmul(a, b):
    return (a[0] * b[0] - a[1] * b[1], a[0] * b[1] + a[1] * b[0])


def lanes(shape, axis):
    """yield (o, i, flat indices of the lane) for an array of `shape` along `axis`"""
    nd = len(shape)
    ax = axis + nd if axis < 0 else axis
    outer = int(np.prod(shape[:ax], dtype=int))
    N = shape[ax]
    inner = int(np.prod(shape[ax + 1:], dtype=int))
    for o in range(outer):
        for i in range(inner):
            yield o, i, [(o * N + t) * inner + i for t in range(N)]


def lagged(x, y, N, lag):
    """sum_t x[t+lag] * conj(y[t]) over the t with both indices inside"""
    sr, si = F(0), F(0)
    for t in range(N):
        u = t + lag
        if 0 <= u < N:
            a, b = x[u], y[t]
            sr += a[0] * b[0] + a[1] * b[1]
            si += a[1] * b[0] - a[0] * b[1]
    return sr, si


def demean_c(x):
    n = len(x)
    mr = sum(v[0] for v in x) / n
    mi = sum(v[1] for v in x) / n
    return [(v[0] - mr, v[1] - mi) for v in x]


def corr_required(d):
    """the definition: list over the output's flat index of (re, im) Fractions"""
    x = desc_arr(d["x"])
    y = desc_arr(d["y"])
    fn = d["fn"]
    shape = list(x.shape)
    nd = len(shape)
    ax = d["axis"] + nd if d["axis"] < 0 else d["axis"]
    N = shape[ax]
    M = 2 * N - 1 if d["al"] else N
    fx, fy = cfr(x), cfr(y)
    inner = int(np.prod(shape[ax + 1:], dtype=int))
    outer = int(np.prod(shape[:ax], dtype=int))
    out = [None] * (outer * M * inner)
    for o, i, idx in lanes(shape, d["axis"]):
        lx = [fx[j] for j in idx]
        ly = lx if fn in ("autocov", "autocorr") else [fy[j] for j in idx]
        if d["db"] and fn in ("crosscov", "autocov"):
            lx = demean_c(lx)
            ly = lx if fn == "autocov" else demean_c(ly)
        for k in range(M):
            lag = k - (N - 1) if d["al"] else k
            v = lagged(lx, ly, N, lag)
            if d["nm"]:
                v = (v[0] / N, v[1] / N)
            out[(o * M + k) * inner + i] = v
    return out, M


def corr_tol(d):
    x = desc_arr(d["x"])
    y = desc_arr(d["y"])
    nd = x.ndim
    N = x.shape[d["axis"]]
    xf = x.astype(np.complex128)
    yf = y.astype(np.complex128)
    if d["db"] and d["fn"] in ("crosscov", "autocov"):
        xf = xf - np.mean(xf, axis=d["axis"], keepdims=True)
        yf = yf - np.mean(yf, axis=d["axis"], keepdims=True)
    mx = float(np.max(np.abs(xf))) if x.size else 0.0
    my = float(np.max(np.abs(yf))) if y.size else 0.0
    if d["fn"] in ("autocov", "autocorr"):
        my = mx
    single = is_single(x.dtype) or (d["fn"] in ("crosscov", "crosscorr") and is_single(y.dtype))
    r = 5e-4 if single else 1e-9
    return r, r * N * mx * my + 1e-300        # relative to the data scale, no absolute floor


def close(a, b, rtol, atol):
    return abs(a - b) <= atol + rtol * (abs(a) + abs(b))


def corr_required_np(d):
    """the definition through numpy's direct (non-FFT) np.correlate, for long lanes: complex128 values"""
    x = desc_arr(d["x"])
    y = desc_arr(d["y"])
    fn = d["fn"]
    nd = x.ndim
    ax = d["axis"] + nd if d["axis"] < 0 else d["axis"]
    N = x.shape[ax]
    M = 2 * N - 1 if d["al"] else N
    X = np.moveaxis(x.astype(np.complex128), ax, -1)
    Y = X if fn in ("autocov", "autocorr") else np.moveaxis(y.astype(np.complex128), ax, -1)
    out = np.zeros(X.shape[:-1] + (M,), dtype=np.complex128)
    for idx in np.ndindex(X.shape[:-1]):
        lx, ly = X[idx], Y[idx]
        if d["db"] and fn in ("crosscov", "autocov"):
            lx = lx - np.sum(lx) / N
            ly = ly - np.sum(ly) / N
        c = np.correlate(lx, ly, mode="full")          # c[k] = sum_t lx[t + k - (N-1)] conj(ly[t])
        if d["nm"]:
            c = c / N
        out[idx] = c if d["al"] else c[N - 1:]
    out = np.moveaxis(out, -1, ax)
    return [(z.real, z.imag) for z in out.ravel()], M


def oracle_corr(d, out):
    N_ax = d["x"]["shape"][d["axis"]]
    req, M = corr_required(d) if N_ax <= 64 else corr_required_np(d)
    rtol, atol = corr_tol(d)
    if N_ax > 64:
        rtol, atol = max(rtol, 1e-8), max(rtol, 1e-8) / rtol * atol
    flat = np.asarray(out).ravel()
    x = desc_arr(d["x"])
    exp_shape = list(x.shape)
    exp_shape[d["axis"]] = M
    cls = dclass(x) if d["fn"] in ("autocov", "autocorr") else "%s-%s" % (dclass(x), dclass(desc_arr(d["y"])))
    key = "C20/%s/%s" % (d["fn"], cls)
    if list(np.asarray(out).shape) != exp_shape:
        return Fail(key, "%s returned shape %s, the definition has %s" % (d["fn"], list(np.asarray(out).shape), exp_shape),
                    list(np.asarray(out).shape), exp_shape)
    for j, (rr, ri) in enumerate(req):
        z = complex(flat[j])
        if not (close(z.real, float(rr), rtol, atol) and close(z.imag, float(ri), rtol, atol)):
            return Fail(key, "%s(all_lags=%s, debias=%s, normalize=%s, axis=%d) differs from the direct lagged sum "
                             "sum_t x[t+lag] conj(y[t]) at flat output index %d" % (d["fn"], d["al"], d["db"], d["nm"], d["axis"], j),
                        repr(z), repr(complex(float(rr), float(ri))))
    return None


# ------------------------------------------------------------------ case builders
def case_corr(d):
    out, fs = call_corr(d)
    x = desc_arr(d["x"])
    y = desc_arr(d["y"])
    rtol, atol = corr_tol(d)
    cx = bool(np.iscomplexobj(x))
    cy = bool(np.iscomplexobj(y))
    coq = "(KCorr %s %s %s %s %s %s %s %s %s %s %s %s %s %s)" % (
        FN[d["fn"]], nlist(x.shape), zlit(d["axis"]), blit(cx), blit(cy), blit(d["al"]), blit(d["db"]), blit(d["nm"]),
        "None" if fs is None else "(Some %s)" % nlit(fs), flit(rtol), flit(atol), fclist(x), fclist(y), fclist(out))
    rp = {"d": d, "observed": arr_desc(out), "fsize_observed": fs}
    c = Case(coq, rp, "corr/%s/%s/%dd%s%s" % (
        d["fn"], dclass(x), x.ndim, "/oracle-only-long" if d.get("oracle_only") else "",
        "/" + d["v"] if d.get("v", "plain") != "plain" else ""))
    c.skip_k = bool(d.get("oracle_only"))
    c.nclass = "N=" + sizeclass(x.shape[d["axis"]]) + ("/all_lags" if d["al"] else "") + ("/debias" if d["db"] else "") + ("/normalize" if d["nm"] else "")
    c.out = out
    return c


def sizeclass(n):
    if n <= 3:
        return str(n)
    p2 = (n & (n - 1)) == 0
    return ("pow2" if p2 else ("odd" if n % 2 else "even")) + ("<=16" if n <= 16 else ">16")


SCALES = [0, 0, 0, 0, 0, -70, -60, -52, -45, -30, -12, 10, 25, 40, 60]     # data are multiplied by 2**s (exactly)
SINGLE_SCALES = (-40, 30)       # float32 / complex64: squares and N-fold sums stay normal numbers


def pick_scale(rng, dtype):
    s = rng.choice(SCALES)
    if dtype in ("float32", "complex64"):
        s = max(SINGLE_SCALES[0], min(SINGLE_SCALES[1], s))
    if is_int(dtype):
        s = 0
    return s


def gen_values(rng, shape, dtype, scale=0):
    a = gen_values0(rng, shape, dtype)
    if scale:
        a = (a * 2.0 ** scale).astype(dtype)
    return a


INT_DTYPES = ["int8", "uint8", "int16", "uint16", "int32", "uint32", "int64", "bool"]
ALL_DTYPES = ["float64", "float64", "complex128", "complex128", "float32", "complex64"] + INT_DTYPES


def is_int(dtype):
    return np.dtype(dtype).kind in "iub"


def gen_ints(rng, n, dtype, mode=None):
    """integer data: close to the limits of the dtype (products / sums overflow the narrow type but
    not the floating-point computation the definitions mean), or small"""
    if dtype == "bool":
        v = [rng.random() < 0.5 for _ in range(n)]
        if n >= 2 and len(set(v)) == 1:
            v[0] = not v[0]
        return np.array(v, dtype=bool)
    info = np.iinfo(dtype)
    hi, lo = min(info.max, 2 ** 40), max(info.min, -2 ** 40)
    mode = mode or rng.choice(["top", "top", "both", "small"])
    if mode == "top" or (mode == "both" and lo == 0):
        v = [rng.randint(hi - hi // 8, hi) for _ in range(n)]
    elif mode == "both":
        v = [rng.choice([rng.randint(lo, lo - lo // 8), rng.randint(hi - hi // 8, hi)]) for _ in range(n)]
    else:
        v = [rng.randint(max(lo, -9), 9) for _ in range(n)]
    return np.array(v, dtype=dtype)


def gen_values0(rng, shape, dtype):
    n = int(np.prod(shape))
    r = rng.random()
    if is_int(dtype):
        return gen_ints(rng, n, dtype).reshape(shape)

    def real():
        if r < 0.3:
            return [float(rng.randint(-8, 8)) / rng.choice([1, 2, 4]) for _ in range(n)]
        off = rng.choice([0.0, 1.5, -3.0, 10.0])
        return [rng.gauss(off, 1.0) * rng.choice([1.0, 1.0, 5.0]) for _ in range(n)]

    if dtype in ("complex128", "complex64"):
        a = np.array(real()) + 1j * np.array(real())
    else:
        a = np.array(real())
    return a.astype(dtype).reshape(shape)


def gen_shape(rng, maxn, ndim=None):
    nd = ndim or rng.choice([1, 1, 2, 2, 3])
    ax = rng.randrange(nd)
    if nd == 1:
        N = rng.choice([2, 3, 4, 5, 7, 8, 9, 15, 16, 17, rng.randint(2, maxn), rng.randint(2, maxn), maxn])
    else:
        N = rng.choice([2, 3, 4, 5, 8, 9, rng.randint(2, max(2, maxn // 2))])
    shape = [rng.randint(1, 3) for _ in range(nd)]
    shape[ax] = N
    axis = ax if rng.random() < 0.6 else ax - nd
    return shape, axis


def gen_corr(rng, maxn, force_n=None):
    shape, axis = gen_shape(rng, maxn)
    if force_n:
        shape, axis = [force_n], rng.choice([0, -1])
    dts = ALL_DTYPES
    dx = rng.choice(dts)
    r = rng.random()
    if r < 0.6:
        dy = dx
    elif r < 0.8:       # one real and one complex argument (the conjugate must fall on the second)
        cplx = ["complex128", "complex64"]
        dy = rng.choice(cplx) if dx not in cplx else rng.choice([t for t in dts if t not in cplx])
    else:
        dy = rng.choice(dts)
    fn = rng.choice(["crosscov", "crosscov", "crosscorr", "autocov", "autocorr"])
    x = gen_values(rng, shape, dx, pick_scale(rng, dx))
    y = gen_values(rng, shape, dy, pick_scale(rng, dy))
    return {"k": "corr", "fn": fn, "axis": axis, "al": rng.random() < 0.5, "db": rng.random() < 0.5,
            "nm": rng.random() < 0.5, "x": arr_desc(x), "y": arr_desc(y), "v": rng.choice(ARRAY_VARIANTS)}


BIG_N = [65, 127, 128, 129, 255, 256, 257, 383, 509, 511, 512]


def gen_corr_big(rng, N, oracle_only=True):
    """long lanes up to the stated maximum 512: checked by the independent direct-sum oracle only
    (exact Q evaluation of a 512-lane is too slow); with small integer data also by K"""
    nd = rng.choice([1, 1, 2, 3])
    shape = [rng.randint(1, 2) for _ in range(nd)]
    ax = rng.randrange(nd)
    shape[ax] = N
    axis = ax if rng.random() < 0.5 else ax - nd
    if oracle_only:
        dx = rng.choice(ALL_DTYPES)
        x = gen_values(rng, shape, dx, pick_scale(rng, dx))
        y = gen_values(rng, shape, dx, pick_scale(rng, dx))
    else:
        shape, axis = [N], 0
        x = gen_ints(rng, N, "int64", "small")
        y = gen_ints(rng, N, "int64", "small")
    return {"k": "corr", "fn": rng.choice(["crosscov", "crosscorr", "autocov", "autocorr"]), "axis": axis,
            "al": rng.random() < 0.5, "db": (rng.random() < 0.5) if oracle_only else False, "nm": rng.random() < 0.5,
            "x": arr_desc(x), "y": arr_desc(y), "v": rng.choice(ARRAY_VARIANTS), "oracle_only": oracle_only}


# ---- seed_corrcoef
def case_seed(d):
    corr = mods()[2]
    seed = desc_arr(d["seed"])
    target = desc_arr(d["target"])
    v = d.get("v", "plain")
    N = len(seed)
    rows = target.reshape(-1, N)
    if v in ("analyzer", "analyzer2"):
        # SeedCorrelationAnalyzer.corrcoef: single-seed branch / seed time-series with a channel axis
        ts = mods()[4]
        from nitime.analysis import SeedCorrelationAnalyzer
        A = SeedCorrelationAnalyzer(ts.TimeSeries(seed if v == "analyzer" else seed.reshape(1, N), sampling_interval=1.0),
                                    ts.TimeSeries(target, sampling_interval=1.0))
        out = np.atleast_1d(np.asarray(A.corrcoef))
    else:
        out = np.atleast_1d(np.asarray(corr.seed_corrcoef(as_variant(seed, v), as_variant(target, v))))
    if out.size != len(rows):
        raise AssertionError("seed correlation returned %d values for %d target series" % (out.size, len(rows)))
    coq = "(KSeed %s %s %s %s)" % (nlit(N), fl(seed), llit([fl(r) for r in rows]), fl(out))
    c = Case(coq, {"d": d, "observed": arr_desc(out)}, "seed/%s/rows=%d%s%s" % (
        dclass(seed), len(rows), "/baseline" if d.get("baseline") else "", "/analyzer" if v.startswith("analyzer") else ""))
    c.out = out
    return c


def pearson_exact(a, b):
    n = len(a)
    fa = [fr(v) for v in a]
    fb = [fr(v) for v in b]
    ma, mb = sum(fa) / n, sum(fb) / n
    cov = sum((u - ma) * (v - mb) for u, v in zip(fa, fb)) / n
    va = sum((u - ma) ** 2 for u in fa) / n
    vb = sum((v - mb) ** 2 for v in fb) / n
    return cov, va, vb


def oracle_seed(d, out):
    seed = desc_arr(d["seed"])
    target = desc_arr(d["target"])
    rows = target.reshape(-1, len(seed))
    for j, row in enumerate(rows):
        cov, va, vb = pearson_exact(row, seed)
        if va * vb == 0:
            continue
        want = float(cov) / math.sqrt(float(va * vb))
        got = float(np.ravel(out)[j])
        if not close(got, want, 1e-9, 1e-10) or abs(got) > 1 + 1e-9:
            return Fail("C20/seed_corrcoef/real", "seed_corrcoef differs from the Pearson coefficient cov/(sd sd) for target row %d" % j,
                        got, want)
    return None


def gen_seed(rng, maxn, N=None):
    N = N or rng.choice([2, 3, 4, 5, 8, rng.randint(2, maxn), rng.randint(2, maxn)])
    rows = rng.randint(1, 4)
    if rng.random() < 0.35:
        # integer dtypes near their limits: squares and dot products overflow the narrow type
        dt = rng.choice(INT_DTYPES)
        seed = gen_ints(rng, N, dt)
        while np.ptp(seed.astype(float)) == 0:
            seed = gen_ints(rng, N, dt, "small" if dt != "bool" else None)
        tshape = [rows, N] if rng.random() < 0.8 else [N]
        rws = []
        for _ in range(tshape[0] if len(tshape) == 2 else 1):
            r = gen_ints(rng, N, dt)
            while np.ptp(r.astype(float)) == 0:
                r = gen_ints(rng, N, dt, "small" if dt != "bool" else None)
            rws.append(r)
        target = np.array(rws, dtype=dt).reshape(tshape)
        return {"k": "seed", "seed": arr_desc(seed), "target": arr_desc(target),
                "v": rng.choice(["plain", "plain", "fortran", "strided", "negstride", "readonly", "plus0"])}
    sc = pick_scale(rng, "float64")
    seed = gen_values(rng, [N], "float64")
    if np.ptp(seed) == 0:
        seed[0] += 1.0
    tshape = [rows, N] if rng.random() < 0.8 else [N]
    target = gen_values(rng, tshape, "float64")
    t2 = target.reshape(-1, N)
    for r in t2:
        if np.ptp(r) == 0:
            r[-1] += 0.5
    if rng.random() < 0.3:
        t2[0] = seed * rng.choice([2.0, -0.5]) + 1.0      # |r| = 1
    sc2 = pick_scale(rng, "float64")
    return {"k": "seed", "seed": arr_desc(seed * 2.0 ** sc), "target": arr_desc(t2.reshape(tshape) * 2.0 ** sc2),
            "v": rng.choice(["plain", "plain", "fortran", "strided", "negstride", "readonly", "plus0", "list"])}


BASELINES = [2 ** 20, 2 ** 24, 2 ** 27, 2 ** 30, 10 ** 9, -2 ** 27, 3 * 10 ** 6, 2 ** 22 + 1]


def small_fluct(rng, N, amp=20):
    """N small integers, not all equal"""
    while True:
        f = [rng.randint(-amp, amp) for _ in range(N)]
        if len(set(f)) > 1:
            return f


def gen_seed_baseline(rng, maxn, N=None):
    """The Pearson coefficient does not depend on the baseline (offset) of either series: small integer
    fluctuations (exactly representable) riding on a baseline 2**20..2**30 / 1e9 that is 1e5..1e8 times
    larger, in the targets (1-d, 2-d, 3-d), the seed, or both; float64 or integer storage.  The required
    value is the exact rational Pearson coefficient; a two-pass evaluation is accurate to ~1e-13 here."""
    N = N or rng.choice([2, 3, 4, 5, 8, 16, 33, rng.randint(2, maxn), rng.randint(6, maxn), maxn])
    nd = rng.choice([1, 2, 2, 3])
    tshape = [rng.randint(1, 3) for _ in range(nd - 1)] + [N]
    nrows = int(np.prod(tshape[:-1]))
    where = rng.choice(["target", "target", "both", "seed"])
    sfl = small_fluct(rng, N)
    sbase = rng.choice(BASELINES) if where in ("both", "seed") else rng.choice([0, 37, 1000])
    rws = []
    for j in range(nrows):
        f = small_fluct(rng, N)
        if j == 0 and N > 2 and rng.random() < 0.4:       # one well-correlated target
            f = [a * rng.choice([1, -1]) + rng.randint(-3, 3) for a in sfl]
            if len(set(f)) == 1:
                f[0] += 1
        b = rng.choice(BASELINES) if where in ("both", "target") else rng.choice([0, -5, 1000])
        rws.append([b + a for a in f])
    dt = rng.choice(["float64", "float64", "int64", "int32"])
    seed = np.array([sbase + a for a in sfl], dtype=dt)
    target = np.array(rws, dtype=dt).reshape(tshape)
    vs = ["plain", "plain", "fortran", "strided", "negstride", "readonly", "plus0", "analyzer", "analyzer"]
    if nd == 2:
        vs += ["analyzer2", "analyzer2"]
    if dt == "float64":
        vs.append("list")
    return {"k": "seed", "seed": arr_desc(seed), "target": arr_desc(target), "v": rng.choice(vs), "baseline": where}


def gen_norm_baseline(rng, maxn, which):
    """zscore / percent_change of lanes with small integer fluctuations on a large baseline (the statements
    hold for every offset: zero mean / unit variance resp. zero mean).  percent_change: any baseline.
    zscore: the mean of n values near B carries a rounding error ~1e-16*B that the exact-moment oracle
    (tolerance 1e-9 on the mean of the z-scores) would see for B >= 2**22 unless n is a power of two
    (then the mean is exact); so the largest baselines are paired with power-of-two lengths."""
    shape, axis = gen_shape(rng, maxn)
    nd = len(shape)
    ax = axis + nd if axis < 0 else axis
    base = rng.choice(BASELINES)
    if which == "zscore" and abs(base) > 2 ** 20:
        shape[ax] = rng.choice([2, 4, 8, 16])
    N = shape[ax]
    dt = rng.choice(["float64", "float64", "int64", "int32"])
    x = np.zeros(shape, dtype=dt)
    xm = np.moveaxis(x, ax, -1)
    for idx in np.ndindex(xm.shape[:-1]):
        xm[idx] = np.array([base + a for a in small_fluct(rng, N)], dtype=dt)
    return {"k": which, "axis": axis, "x": arr_desc(x), "v": norm_variant(rng, shape, axis), "baseline": True}


# ---- zscore / percent_change
def norm_tol(x):
    return 1e-9, 1e-9 * (1.0 + float(np.max(np.abs(x))))


def call_norm(which, x, axis, v="plain"):
    """zscore / percent_change of x along axis, through the entry path named by v"""
    utils = mods()[0]
    if v == "analyzer":
        # NormalizationAnalyzer works along the last (time) axis of a TimeSeries
        ts = mods()[4]
        from nitime.analysis import NormalizationAnalyzer
        A = NormalizationAnalyzer(ts.TimeSeries(x, sampling_interval=1.0))
        return np.asarray((A.z_score if which == "zscore" else A.percent_change).data)
    xv = as_variant(x, v)
    if which == "zscore":
        out = utils.zscore(xv, axis) if v == "positional" else utils.zscore(xv, axis=axis)
    else:
        out = utils.percent_change(xv, axis) if v == "positional" else utils.percent_change(xv, ax=axis)
    if not np.array_equal(np.asarray(xv), x):
        raise AssertionError("%s modified its input" % which)
    return np.asarray(out)


def rescaled(x, single):
    """x * 2**k (exact) in the precision of x (integers: as float64), k far away from the scale of x"""
    xf = x if x.dtype.kind in "fc" else x.astype(np.float64)
    mag = float(np.max(np.abs(xf.astype(np.complex128))))
    e = math.frexp(mag)[1] if mag > 0 else 0
    if single:
        k = (-45 - e) if e > -20 else (25 - e)
    else:
        k = (-75 - e) if e > -20 else (45 - e)
    return (xf * xf.dtype.type(2.0) ** k).astype(xf.dtype), k


def magclass(d):
    e = d.get("scale_exp") or 0
    return "/tiny" if e <= -45 else ("/small" if e < 0 else ("/huge" if e >= 40 else ("/large" if e > 0 else "")))


def case_zscore(d):
    x = desc_arr(d["x"])
    v = d.get("v", "plain")
    out = call_norm("zscore", x, d["axis"], v)
    single = is_single(x.dtype)
    # the library kernel, called separately (in double precision also for single-precision data)
    stds = np.std(x.astype(np.complex128) if single else x, axis=d["axis"])
    rtol = 1e-4 if single else 1e-9
    atol = rtol * (1.0 + math.sqrt(x.shape[d["axis"]]))
    coq = "(KZscore %s %s %s %s %s %s %s)" % (nlist(x.shape), zlit(d["axis"]), flit(rtol), flit(atol), fclist(x), fl(stds), fclist(out))
    c = Case(coq, {"d": d, "observed": arr_desc(out)}, "zscore/%s/%dd%s%s" % (dclass(x), x.ndim, magclass(d), "/analyzer" if v == "analyzer" else ""))
    c.out = out
    return c


def oracle_zscore(d, out):
    x = desc_arr(d["x"])
    out = np.asarray(out)
    key = "C20/zscore/%s" % dclass(x)
    if out.shape != x.shape:
        return Fail(key, "zscore changed the shape", list(out.shape), list(x.shape))
    fo = cfr(out)
    for o, i, idx in lanes(list(x.shape), d["axis"]):
        n = len(idx)
        mr = sum(fo[j][0] for j in idx) / n
        mi = sum(fo[j][1] for j in idx) / n
        var = sum(fo[j][0] ** 2 + fo[j][1] ** 2 for j in idx) / n
        tol = 1e-4 if is_single(x.dtype) else 1e-9
        if abs(float(mr)) > tol or abs(float(mi)) > tol:
            return Fail(key, "z-scored lane (outer %d, inner %d) along axis %d has mean != 0" % (o, i, d["axis"]), float(mr), 0.0)
        if abs(float(var) - 1.0) > tol:
            return Fail(key, "z-scored lane (outer %d, inner %d) along axis %d has variance != 1" % (o, i, d["axis"]), float(var), 1.0)
    # z-scores do not depend on the unit of the data: zscore(2**k x) == zscore(x)
    xs, k = rescaled(x, is_single(x.dtype))
    z2 = call_norm("zscore", xs, d["axis"])
    tol = 1e-3 if is_single(x.dtype) else 1e-8
    if not np.allclose(z2, out, rtol=tol, atol=tol):
        j = int(np.argmax(np.abs(np.asarray(z2).ravel() - out.ravel())))
        return Fail(key, "zscore(x * 2**%d) differs from zscore(x) (flat index %d): z-scores depend on the scale of the data" % (k, j),
                    complex(np.asarray(z2).ravel()[j]), complex(out.ravel()[j]))
    return None


def case_pct(d):
    x = desc_arr(d["x"])
    v = d.get("v", "plain")
    out = call_norm("pct", x, d["axis"], v)
    m = np.mean(x.astype(np.complex128), d["axis"])
    scale = float(np.max(np.abs(x.astype(np.complex128)))) / float(np.min(np.abs(m)))
    rtol, atol = (1e-4, 1e-3 * (1.0 + scale)) if is_single(x.dtype) else (1e-9, 1e-7 * (1.0 + scale))
    coq = "(KPct %s %s %s %s %s %s)" % (nlist(x.shape), zlit(d["axis"]), flit(rtol), flit(atol), fclist(x), fclist(out))
    c = Case(coq, {"d": d, "observed": arr_desc(out)}, "percent_change/%s/%dd%s%s" % (dclass(x), x.ndim, magclass(d), "/analyzer" if v == "analyzer" else ""))
    c.out = out
    c.atol = atol
    return c


def oracle_pct(d, out):
    x = desc_arr(d["x"])
    out = np.asarray(out)
    key = "C20/percent_change/%s" % dclass(x)
    if out.shape != x.shape:
        return Fail(key, "percent_change changed the shape", list(out.shape), list(x.shape))
    m = np.mean(x.astype(np.complex128), d["axis"])
    tol = (1e-3 if is_single(x.dtype) else 1e-7) * (1.0 + float(np.max(np.abs(x.astype(np.complex128)))) / float(np.min(np.abs(m))))
    fo = cfr(out)
    for o, i, idx in lanes(list(x.shape), d["axis"]):
        n = len(idx)
        mr = sum(fo[j][0] for j in idx) / n
        mi = sum(fo[j][1] for j in idx) / n
        if abs(float(mr)) > tol or abs(float(mi)) > tol:
            return Fail(key, "percent-change lane (outer %d, inner %d) along axis %d has mean != 0" % (o, i, d["axis"]),
                        complex(float(mr), float(mi)), 0.0)
    xs, k = rescaled(x, is_single(x.dtype))
    p2 = np.asarray(call_norm("pct", xs, d["axis"]))
    if not np.allclose(p2, out, rtol=1e-3 if is_single(x.dtype) else 1e-8, atol=tol):
        j = int(np.argmax(np.abs(p2.ravel() - out.ravel())))
        return Fail(key, "percent_change(x * 2**%d) differs from percent_change(x) (flat index %d)" % (k, j),
                    complex(p2.ravel()[j]), complex(out.ravel()[j]))
    return None


def norm_variant(rng, shape, axis):
    last = (axis == -1 or axis == len(shape) - 1)
    if last and rng.random() < 0.3:
        return "analyzer"
    return rng.choice(ARRAY_VARIANTS + ["list"])


def gen_norm(rng, maxn, which, N=None, dt=None, sc=None):
    shape, axis = gen_shape(rng, maxn)
    if N:
        shape[axis] = N
    dt = dt or rng.choice(["float64", "float64", "complex128", "float32", "complex64"] + INT_DTYPES)
    if is_int(dt):
        return gen_norm_int(rng, shape, axis, dt, which)
    x = gen_values(rng, shape, dt)
    # lanes must not be constant (zscore) / have zero mean (percent change): the guards of the theorems
    nd = len(shape)
    ax = axis + nd if axis < 0 else axis
    xm = np.moveaxis(x, ax, -1)
    for idx in np.ndindex(xm.shape[:-1]):
        lane = xm[idx]
        if which == "zscore" and np.ptp(lane.real) == 0 and np.ptp(lane.imag) == 0:
            lane[0] += 1
        if which == "pct" and abs(np.mean(lane)) < 0.25:
            lane += 2.5
    sc = pick_scale(rng, dt) if sc is None else sc
    x = (x * 2.0 ** sc).astype(dt)      # exact: offsets and spreads scale together
    return {"k": which, "axis": axis, "x": arr_desc(x), "v": norm_variant(rng, shape, axis), "scale_exp": sc}


def gen_norm_int(rng, shape, axis, dt, which):
    """integer lanes (raw scanner data are int16 around 1000..30000): non-constant for zscore, mean far from 0
    for percent_change; `100 * x` and `x * x` overflow the narrow dtypes"""
    nd = len(shape)
    ax = axis + nd if axis < 0 else axis
    N = shape[ax]
    x = np.zeros(shape, dtype=dt)
    xm = np.moveaxis(x, ax, -1)
    for idx in np.ndindex(xm.shape[:-1]):
        while True:
            mode = rng.choice(["top", "top", "mid", "small"]) if dt != "bool" else None
            if mode == "mid":
                info = np.iinfo(dt)
                base = min(info.max, 2 ** 40) // rng.choice([3, 30, 60])
                lane = np.array([base + rng.randint(-(base // 10) - 1, base // 10 + 1) for _ in range(N)], dtype=dt)
            elif mode == "small":
                lane = np.array([rng.randint(1, 9) for _ in range(N)], dtype=dt)
            else:
                lane = gen_ints(rng, N, dt, mode)
            lf = lane.astype(float)
            if np.ptp(lf) > 0 and abs(np.mean(lf)) >= 0.25 * np.max(np.abs(lf)):
                break
        xm[idx] = lane
    return {"k": which, "axis": axis, "x": arr_desc(x), "v": norm_variant(rng, shape, axis)}


# ---- analyzer
def call_xcorr(d, norm):
    _, _, _, _, ts, CA = mods()
    data = as_variant(desc_arr(d["data"]), d.get("v", "plain"))
    T = ts.TimeSeries(data, sampling_interval=d.get("dt", 1.0))
    C = CA(T)
    r = C.xcorr_norm if norm else C.xcorr
    return np.asarray(r.data)


def case_xcorr(d):
    norm = d["k"] == "xcorr_norm"
    data = desc_arr(d["data"])
    nch, N = data.shape
    out = call_xcorr(d, norm)
    fdata = data.astype(float)            # the analyzer correlates in floating point
    lib = [np.correlate(fdata[i], fdata[j], mode="full") for i in range(nch) for j in range(i, nch)]
    rows = out.reshape(nch * nch, -1)
    if norm:
        cc = np.corrcoef(data)
        atol = 1e-9                           # normalised values are O(1) whatever the data scale
        coq = "(KXcorrNorm %s %s %s %s %s %s)" % (nlit(nch), nlit(N), flit(atol), llit([fl(r) for r in lib]), fl(cc), llit([fl(r) for r in rows]))
    else:
        atol = 1e-9 * N * float(np.max(np.abs(fdata))) ** 2      # relative to the data scale
        coq = "(KXcorr %s %s %s %s %s)" % (nlit(nch), nlit(N), flit(atol), llit([fl(r) for r in lib]), llit([fl(r) for r in rows]))
    c = Case(coq, {"d": d, "observed": arr_desc(out)}, "%s/%s/nch=%d" % (d["k"], dclass(data), nch))
    c.out = out
    return c


def oracle_xcorr(d, out):
    """every entry (p,q) is the cross-correlation of channels p and q: lagged sums; in particular
    entry (q,p) is the lag reversal of (p,q).  Returns a list of failures (one per key)."""
    norm = d["k"] == "xcorr_norm"
    data = desc_arr(d["data"])
    nch, N = data.shape
    out = np.asarray(out)
    fails = []
    fx = [[(fr(v), F(0)) for v in data[p]] for p in range(nch)]
    name = "CorrelationAnalyzer.%s" % d["k"]
    if not norm:
        data = data.astype(float)
        scale = N * float(np.max(np.abs(data))) ** 2
        big = N > 64
        for p in range(nch):
            for q in range(nch):
                ref = np.correlate(data[p], data[q], mode="full") if big else None
                for k in range(2 * N - 1):
                    want = float(ref[k]) if big else float(lagged(fx[p], fx[q], N, k - (N - 1))[0])
                    if not close(float(out[p, q, k]), want, 1e-9, 1e-9 * scale):
                        key = "C20/%s/%s" % (name, "lower-triangle-not-lag-reversed" if p > q else "upper-triangle")
                        fails.append(Fail(key, "xcorr[%d,%d] at index %d (lag %d) is not sum_t x%d[t+lag] x%d[t]%s" % (
                            p, q, k, k - (N - 1), p, q, " (it is the copy of xcorr[%d,%d], not its lag reversal)" % (q, p) if p > q else ""),
                            float(out[p, q, k]), want))
                        break
                else:
                    continue
                break
    else:
        for p in range(nch):
            for q in range(p):
                a, b = out[p, q], out[q, p][::-1]
                if not np.allclose(a, b, rtol=1e-9, atol=1e-9 * (1 + np.max(np.abs(b)))):
                    fails.append(Fail("C20/%s/lower-triangle-not-lag-reversed" % name,
                                      "xcorr_norm[%d,%d] is not the lag reversal of xcorr_norm[%d,%d]" % (p, q, q, p),
                                      [float(v) for v in a[:4]], [float(v) for v in b[:4]]))
                    break
            else:
                continue
            break
        cc = np.corrcoef(data)
        for p in range(nch):
            for q in range(p, nch):
                if not close(float(out[p, q, N - 1]), float(cc[p, q]), 1e-9, 1e-9):
                    fails.append(Fail("C20/%s/zero-lag-not-corrcoef" % name,
                                      "xcorr_norm[%d,%d] at zero lag (index N-1) is not the correlation coefficient" % (p, q),
                                      float(out[p, q, N - 1]), float(cc[p, q])))
                    return fails
    return fails


def gen_xcorr(rng, maxn, which, N=None):
    nch = rng.randint(2, 4) if not N else 2
    N = N or rng.choice([2, 3, 4, 5, 8, rng.randint(2, maxn)])
    if rng.random() < 0.4:
        # integer channels near the limits of their dtype (np.correlate in that dtype would wrap around)
        dt = rng.choice(INT_DTYPES if which == "xcorr" else INT_DTYPES[:-1])
        rows = []
        for _ in range(nch):
            # xcorr_norm divides by the zero-lag entries: all-positive channels keep them away from zero
            r = gen_ints(rng, N, dt, None if which == "xcorr" else "top")
            while np.ptp(r.astype(float)) == 0:
                r = gen_ints(rng, N, dt, None if which == "xcorr" else "top")
            rows.append(r)
        data = np.array(rows, dtype=dt)
        return {"k": which, "data": arr_desc(data), "dt": rng.choice([1.0, 0.5, 2.0]),
                "v": rng.choice(["plain", "plain", "fortran", "strided", "negstride", "readonly", "plus0"])}
    data = gen_values(rng, [nch, N], "float64")
    for r in data:
        if np.ptp(r) == 0:
            r[0] += 1.0
    if which == "xcorr_norm":
        data = np.abs(data) + 0.5      # all-positive channels: the zero-lag entries the code divides by cannot vanish
        for r in data:
            if np.ptp(r) == 0:
                r[0] += 1.0
    data = data * 2.0 ** pick_scale(rng, "float64")
    return {"k": which, "data": arr_desc(data), "dt": rng.choice([1.0, 0.5, 2.0]),
            "v": rng.choice(["plain", "plain", "fortran", "strided", "negstride", "readonly", "plus0"])}


# ---- correlation_spectrum
def case_corrspec(d):
    cohere = mods()[3]
    from scipy import fftpack
    x1 = desc_arr(d["x1"])
    x2 = desc_arr(d["x2"])
    v = d.get("v", "plain")
    f, ccn = cohere.correlation_spectrum(as_variant(x1, v), as_variant(x2, v), norm=d["norm"])
    X1 = fftpack.fft(x1.astype(float) - np.mean(x1.astype(float)))
    X2 = fftpack.fft(x2.astype(float) - np.mean(x2.astype(float)))
    n = len(x1)
    coq = "(KCorrSpec %s %s %s %s %s %s %s)" % (nlit(n), blit(d["norm"]), fl(x1), fl(x2), fclist(X1), fclist(X2), fl(ccn))
    c = Case(coq, {"d": d, "observed": arr_desc(ccn)}, "correlation_spectrum/%s/norm=%s/%s" % (dclass(x1), d["norm"], "even" if n % 2 == 0 else "odd"))
    c.out = np.asarray(ccn)
    return c


def oracle_corrspec(d, out):
    """the spectral decomposition sums (over all n bins, folded by the real-input symmetry) to the
    Pearson coefficient"""
    if d["norm"]:
        return None
    x1 = desc_arr(d["x1"])
    x2 = desc_arr(d["x2"])
    n = len(x1)
    out = np.asarray(out)
    if len(out) != n // 2 + 1:
        return Fail("C20/correlation_spectrum/length", "spectrum length", len(out), n // 2 + 1)
    tot = out[0] + 2 * np.sum(out[1:(n + 1) // 2]) + (out[n // 2] if n % 2 == 0 else 0.0)
    cov, va, vb = pearson_exact(x1, x2)
    want = float(cov) / math.sqrt(float(va * vb))
    if not close(float(tot), want, 1e-8, 1e-9):
        return Fail("C20/correlation_spectrum/real", "the correlation spectrum does not sum to the correlation coefficient", float(tot), want)
    return None


def gen_corrspec(rng, maxn, n=None):
    n = n or rng.choice([2, 3, 4, 5, 8, 9, rng.randint(2, maxn), rng.randint(2, maxn)])
    if rng.random() < 0.35:
        dt = rng.choice(INT_DTYPES)
        xs = []
        for _ in range(2):
            x = gen_ints(rng, n, dt)
            while np.ptp(x.astype(float)) == 0:
                x = gen_ints(rng, n, dt, "small" if dt != "bool" else None)
            xs.append(x)
        return {"k": "corrspec", "norm": False, "x1": arr_desc(xs[0]), "x2": arr_desc(xs[1]),
                "v": rng.choice(["plain", "plain", "strided", "negstride", "readonly", "plus0"])}
    x1 = gen_values(rng, [n], "float64")
    x2 = gen_values(rng, [n], "float64") + 0.5 * x1
    for x in (x1, x2):
        if np.ptp(x) == 0:
            x[0] += 1.0
    return {"k": "corrspec", "norm": rng.random() < 0.4, "x1": arr_desc(x1 * 2.0 ** pick_scale(rng, "float64")),
            "x2": arr_desc(x2 * 2.0 ** pick_scale(rng, "float64")),
            "v": rng.choice(["plain", "plain", "strided", "negstride", "readonly", "plus0"])}


# ---- entropy family
ENT_VARIANTS = ["int64", "int64", "int32", "int8", "float64", "float32", "tiny", "huge", "list", "tuple", "strided", "readonly"]


def ent_input(x, v):
    if v == "list":
        return list(x)
    if v == "tuple":
        return tuple(x)
    if v in ("int32", "int8", "float64", "float32"):
        return np.array(x, dtype=v)
    if v == "tiny":                      # the same symbols as float64 values of magnitude 2**-70
        return np.array(x, dtype=np.float64) * 2.0 ** -70
    if v == "huge":
        return np.array(x, dtype=np.float64) * 2.0 ** 60
    if v in ("strided", "readonly"):
        return as_variant(np.array(x, dtype=np.int64), v)
    return np.array(x, dtype=np.int64)


def ent_call(kind, xs, lag, v="int64"):
    ent = mods()[1]
    a = [ent_input(x, v) for x in xs]
    if kind == "entropy":
        return float(ent.entropy(*a))
    if kind == "cond":
        return float(ent.conditional_entropy(a[0], a[1]))
    if kind == "mi":
        return float(ent.mutual_information(a[0], a[1]))
    if kind == "cc":
        return float(ent.entropy_cc(a[0], a[1]))
    return float(ent.transfer_entropy(a[0], a[1], lag))


def case_ent(d):
    xs = d["xs"]
    n = len(xs[0])
    out = ent_call(d["kind"], xs, d["lag"], d.get("v", "int64"))
    # the library kernel, called separately on the same probabilities p = k/n
    tab = [0.0] + [float(np.log2(np.mean(np.array([True] * k + [False] * (n - k))))) for k in range(1, n + 1)]
    coq = "(KEnt %s %s %s %s %s)" % (EK[d["kind"]], llit([llit([zlit(v) for v in x]) for x in xs]), nlit(d["lag"]), fl(tab), flit(out))
    c = Case(coq, {"d": d, "observed": float(out).hex()}, "ent/%s/vars=%d" % (d["kind"], len(xs)),
             nontrivial=not math.isnan(out))
    c.out = out
    c.skip_k = math.isnan(out)
    return c


def H_exact(*xs):
    n = len(xs[0])
    cnt = Counter(zip(*xs))
    return -sum((c / n) * math.log2(c / n) for c in cnt.values())


def oracle_ent(d, out, rng):
    kind, xs, lag = d["kind"], d["xs"], d["lag"]
    n = len(xs[0])
    tol = 1e-9
    key = "C20/%s" % {"entropy": "entropy", "cond": "conditional_entropy", "mi": "mutual_information",
                       "cc": "entropy_cc", "te": "transfer_entropy"}[kind]
    # a relabelling (injective, per variable) and a joint permutation of the samples
    relab = []
    for x in xs:
        syms = sorted(set(x))
        img = rng.sample(range(-50, 50), len(syms))
        m = dict(zip(syms, img))
        relab.append([m[v] for v in x])
    perm = list(range(n))
    rng.shuffle(perm)
    permd = [[x[p] for p in perm] for x in xs]
    if kind == "entropy":
        want = H_exact(*xs)
        card = 1
        for x in xs:
            card *= len(set(x))
        if not close(out, want, tol, tol):
            return Fail(key, "entropy of %d variable(s) differs from -sum p log2 p over the joint histogram" % len(xs), out, want)
        if out < -tol or out > math.log2(card) + tol:
            return Fail(key, "entropy outside [0, log2 |alphabet|]", out, [0.0, math.log2(card)])
        r1 = ent_call(kind, relab, lag)
        r2 = ent_call(kind, permd, lag)
        if not close(r1, out, tol, tol):
            return Fail(key, "entropy changes under relabelling of the symbols", r1, out)
        if not close(r2, out, tol, tol):
            return Fail(key, "entropy changes under a joint permutation of the samples", r2, out)
        return None
    x, y = xs[0], xs[1]
    Hx, Hy, Hxy = H_exact(x), H_exact(y), H_exact(x, y)
    if kind == "mi":
        if not close(out, Hx + Hy - Hxy, tol, tol):
            return Fail(key, "mutual information differs from H(X)+H(Y)-H(X,Y)", out, Hx + Hy - Hxy)
        e = mods()[1]
        ax, ay = np.array(x), np.array(y)
        ident = float(e.entropy(ax)) + float(e.entropy(ay)) - float(e.entropy(ax, ay))
        if not close(out, ident, tol, tol):
            return Fail(key, "mutual_information differs from entropy(x)+entropy(y)-entropy(x,y) of the same module", out, ident)
        if out < -tol:
            return Fail(key, "mutual information negative", out, ">= 0")
        sw = ent_call(kind, [y, x], lag)
        if not close(sw, out, tol, tol):
            return Fail(key, "mutual information not symmetric", sw, out)
    if kind == "cond":
        # H(X|Y) = H(X,Y) - H(Y) <= H(X)
        if not close(out, Hxy - Hy, tol, tol):
            return Fail(key, "conditional entropy differs from H(X,Y)-H(Y)", out, Hxy - Hy)
        if out > Hx + tol or out < -tol:
            return Fail(key, "conditioning increased the entropy (or negative conditional entropy)", out, [0.0, Hx])
    if kind == "cc":
        if math.isnan(out):
            return None            # H(X)+H(Y) = 0: 0/0, outside the statement
        want = math.sqrt(max(0.0, (Hx + Hy - Hxy)) / (0.5 * (Hx + Hy)))
        if not close(out, want, 1e-7, 1e-7):
            return Fail(key, "entropy correlation coefficient differs from sqrt(MI / mean entropy)", out, want)
    if kind == "te":
        L = lag % n
        Fi = x[L:] + x[:L]
        want = (H_exact(x, Fi) - H_exact(x)) - (H_exact(Fi, y, x) - H_exact(x, y))
        if not close(out, want, tol, tol):
            return Fail(key, "transfer entropy differs from H(F|P) - H(F|P,Pj)", out, want)
        if out < -tol:
            return Fail(key, "transfer entropy negative: conditioning increased the entropy", out, ">= 0")
    r1 = ent_call(kind, relab, lag)
    if not (close(r1, out, 1e-7, 1e-7) or (math.isnan(r1) and math.isnan(out))):
        return Fail(key, "%s changes under relabelling of the symbols" % kind, r1, out)
    if kind != "te":
        r2 = ent_call(kind, permd, lag)
        if not (close(r2, out, 1e-7, 1e-7) or (math.isnan(r2) and math.isnan(out))):
            return Fail(key, "%s changes under a joint permutation of the samples" % kind, r2, out)
    return None


def gen_ent(rng, maxlen):
    kind = rng.choice(["entropy", "entropy", "cond", "mi", "mi", "cc", "te", "te"])
    nv = rng.choice([1, 1, 2, 3]) if kind == "entropy" else 2
    n = rng.choice([2, 3, 4, 5, 8, rng.randint(2, maxlen), rng.randint(2, maxlen), rng.choice([127, 128, 129, 199, 200])])
    xs = []
    for v in range(nv):
        a = rng.randint(1, 6)
        syms = rng.sample(range(-9, 10), a)
        r = rng.random()
        if v > 0 and r < 0.3:
            # dependent on the previous variable (non-trivial mutual information)
            prev = xs[-1]
            x = [syms[(p + (0 if rng.random() < 0.8 else rng.randrange(a))) % a] for p in prev]
        elif r < 0.5:
            w = [rng.random() ** 3 for _ in syms]
            x = rng.choices(syms, weights=w, k=n)
        else:
            x = [rng.choice(syms) for _ in range(n)]
        xs.append(x)
    return {"k": "ent", "kind": kind, "xs": xs, "lag": rng.randint(1, 5) if kind == "te" else 0,
            "v": rng.choice(ENT_VARIANTS)}


# ------------------------------------------------------------------ dispatch
def make_case(d):
    k = d["k"]
    if k == "corr":
        return case_corr(d)
    if k == "seed":
        return case_seed(d)
    if k == "zscore":
        return case_zscore(d)
    if k == "pct":
        return case_pct(d)
    if k in ("xcorr", "xcorr_norm"):
        return case_xcorr(d)
    if k == "corrspec":
        return case_corrspec(d)
    return case_ent(d)


def oracle(d, out, rng):
    """-> list of Fail"""
    k = d["k"]
    if k != "ent" and not np.all(np.isfinite(np.asarray(out))):
        # the generators keep to the guarded domain (no constant / zero-mean lanes), where every
        # definition gives finite values
        return [Fail("C20/%s/non-finite" % (d.get("fn") or k), "the result contains nan/inf on an input where the definition is finite",
                     "non-finite values", "finite values")]
    if k == "corr":
        f = oracle_corr(d, out)
    elif k == "seed":
        f = oracle_seed(d, out)
    elif k == "zscore":
        f = oracle_zscore(d, out)
    elif k == "pct":
        f = oracle_pct(d, out)
    elif k in ("xcorr", "xcorr_norm"):
        fs = oracle_xcorr(d, out)
        f = scale_check(d, out)
        return fs + ([f] if f else [])
    elif k == "corrspec":
        f = oracle_corrspec(d, out)
    else:
        f = oracle_ent(d, out, rng)
    if f is None and k != "ent":
        f = scale_check(d, out)
    return [f] if f else []


def scale_check(d, out):
    """homogeneity in the unit of the data, on the implementation: the covariances scale with the
    product of the two factors, every normalised measure does not change at all.  The factors are
    exact powers of two far away from the scale of the input (tiny if the input is ordinary, huge
    if it is tiny), so a hidden absolute threshold shows up as a difference."""
    k = d["k"]
    out = np.asarray(out)
    if k == "corr":
        x, y = desc_arr(d["x"]), desc_arr(d["y"])
        single = is_single(x.dtype) or (d["fn"] in ("crosscov", "crosscorr") and is_single(y.dtype))
        xs, a = rescaled(x, single)
        ys, b = rescaled(y, single)
        if d["fn"] in ("autocov", "autocorr"):
            b = a
        if single and not (-60 < a + b < 60):
            return None
        d2 = dict(d, x=arr_desc(xs), y=arr_desc(ys), v="plain")
        o2 = np.asarray(call_corr(d2)[0]).astype(np.complex128) * 2.0 ** (-(a + b))
        rtol, atol = corr_tol(d)
        rtol, atol = 10 * max(rtol, 1e-8), 10 * max(rtol, 1e-8) / rtol * atol
        ok = np.all(np.abs(o2 - out) <= atol + rtol * (np.abs(o2) + np.abs(out)))
        what = "%s(x * 2**%d, y * 2**%d) differs from 2**%d * %s(x, y)" % (d["fn"], a, b, a + b, d["fn"])
        key = "C20/%s/scale" % d["fn"]
    elif k == "seed":
        corr = mods()[2]
        xs, a = rescaled(desc_arr(d["seed"]), False)
        ys, b = rescaled(desc_arr(d["target"]), False)
        o2 = np.atleast_1d(np.asarray(corr.seed_corrcoef(xs, ys)))
        ok = np.allclose(o2, out, rtol=1e-8, atol=1e-8)
        what = "seed_corrcoef(seed * 2**%d, target * 2**%d) differs from seed_corrcoef(seed, target)" % (a, b)
        key = "C20/seed_corrcoef/scale"
    elif k in ("xcorr", "xcorr_norm"):
        xs, a = rescaled(desc_arr(d["data"]), False)
        o2 = call_xcorr(dict(d, data=arr_desc(xs), v="plain"), k == "xcorr_norm")
        if k == "xcorr":
            o2 = o2 * 2.0 ** (-2 * a)
        sc = float(np.max(np.abs(out)))
        ok = np.allclose(o2, out, rtol=1e-8, atol=1e-8 * sc)
        what = "%s of data * 2**%d is not the rescaled %s of the data" % (k, a, k)
        key = "C20/CorrelationAnalyzer.%s/scale" % k
    elif k == "corrspec":
        cohere = mods()[3]
        xs, a = rescaled(desc_arr(d["x1"]), False)
        ys, b = rescaled(desc_arr(d["x2"]), False)
        o2 = np.asarray(cohere.correlation_spectrum(xs, ys, norm=d["norm"])[1])
        sc = float(np.max(np.abs(out)))
        ok = np.allclose(o2, out, rtol=1e-7, atol=1e-7 * sc)
        what = "correlation_spectrum(x1 * 2**%d, x2 * 2**%d) differs from correlation_spectrum(x1, x2)" % (a, b)
        key = "C20/correlation_spectrum/scale"
    else:
        return None
    if ok:
        return None
    j = int(np.argmax(np.abs(np.asarray(o2).ravel() - out.ravel())))
    return Fail(key, what + " (flat index %d)" % j, complex(np.asarray(o2).ravel()[j]), complex(out.ravel()[j]))


def corpus_cases():
    p = core.VERIF / "harness" / "corpus" / "C20"
    out = []
    if p.exists():
        for f in sorted(p.glob("*.json")):
            out.append(json.loads(f.read_text())["d"])
    return out


def run(ctx):
    core.import_nitime()
    ctx.check_props()
    rng = ctx.rng
    maxn = ctx.scale(40, 64)
    ds = corpus_cases()
    plan = [("corr", ctx.scale(140, 1500)), ("seed", ctx.scale(40, 300)), ("zscore", ctx.scale(45, 300)),
            ("pct", ctx.scale(45, 300)), ("xcorr", ctx.scale(30, 200)), ("xcorr_norm", ctx.scale(30, 200)),
            ("corrspec", ctx.scale(40, 300)), ("ent", ctx.scale(230, 2500))]
    for kind, n in plan:
        for _ in range(n):
            if kind == "corr":
                ds.append(gen_corr(rng, maxn))
            elif kind == "seed":
                ds.append(gen_seed(rng, maxn))
            elif kind in ("zscore", "pct"):
                ds.append(gen_norm(rng, maxn // 2, kind))
            elif kind in ("xcorr", "xcorr_norm"):
                ds.append(gen_xcorr(rng, maxn // 2, kind))
            elif kind == "corrspec":
                ds.append(gen_corrspec(rng, maxn))
            else:
                ds.append(gen_ent(rng, ctx.scale(80, 200)))
    if not ctx.quick:
        for N in (96, 100, 127, 128):  # a few long lanes in K (the theorems carry the large sizes)
            ds.append(gen_corr(rng, maxn, force_n=N))
    # the whole range of the quantifier (lengths to 512, just above / below powers of two, primes):
    # the independent direct-sum oracle on every size, K on small-integer data and on the cheap kinds
    for rep in range(ctx.scale(1, 6)):
        for N in BIG_N + [512, 512]:
            ds.append(gen_corr_big(rng, N, oracle_only=True))
    for N in ctx.scale([129], [129, 257]):
        ds.append(gen_corr_big(rng, N, oracle_only=False))
    for rep in range(ctx.scale(1, 4)):
        for N in (257, 512):
            ds.append(gen_seed(rng, maxn, N=N))
            ds.append(gen_norm(rng, maxn, "zscore", N=N + rep))
            ds.append(gen_norm(rng, maxn, "pct", N=N - rep))
            ds.append(gen_xcorr(rng, maxn, "xcorr", N=N))
            ds.append(gen_xcorr(rng, maxn, "xcorr_norm", N=N - 1))
            ds.append(gen_corrspec(rng, maxn, n=N - rep))
    # offset independence: small exactly representable fluctuations on a baseline 2**20..2**30 / 1e9
    for rep in range(ctx.scale(30, 120)):
        ds.append(gen_seed_baseline(rng, maxn))
    for N in ctx.scale([64, 257], [64, 129, 257, 512]):
        ds.append(gen_seed_baseline(rng, maxn, N=N))
    for which in ("zscore", "pct"):
        for rep in range(ctx.scale(8, 40)):
            ds.append(gen_norm_baseline(rng, maxn // 2, which))
    # every float dtype at the ends of the magnitude range, every run (a hidden absolute threshold
    # such as machine eps must meet data below it: float64 < 2**-52, float32 < 2**-23)
    strata = {"float64": (-70, -60, -52, 60), "complex128": (-70, -56, 45), "float32": (-40, -30, 30), "complex64": (-40, -27, 25)}
    for which in ("zscore", "pct"):
        for dt, scs in strata.items():
            for sc in scs:
                for rep in range(ctx.scale(1, 3)):
                    ds.append(gen_norm(rng, 24, which, dt=dt, sc=sc))
    rng.shuffle(ds)                    # balance the shards
    import time as _t
    t0 = _t.time()
    cases = []
    for d in ds:
        try:
            cases.append(make_case(d))
        except Exception as e:         # the implementation raised on an input of the quantified domain
            c = Case("", {"d": d, "raised": repr(e)}, "raised/%s" % d["k"], nontrivial=False)
            c.skip_k = True
            c.raised = e
            cases.append(c)
    kcases = [c for c in cases if not getattr(c, "skip_k", False)]
    t1 = _t.time()
    kbad = ctx.check_cases("K", HEADER, kcases, "check", shard=ctx.scale(40, 80), case_type="case", timeout=1500)
    badids = {id(kcases[i]) for i in kbad}
    for c in cases:
        if getattr(c, "skip_k", False):
            ctx.count_case(c)
    orng = __import__("random").Random("oracle:%s" % ctx.seed)
    t2 = _t.time()
    for c in cases:
        d = c.replay["d"]
        if getattr(c, "raised", None) is not None:
            fails = [Fail("C20/%s/raised" % d["k"], "the call raised %r" % c.raised, repr(c.raised), "a value")]
        else:
            fails = oracle(d, c.out, orng)
        for f in fails:
            f.replay = {"entry_point": d["k"], "model_disagrees": id(c) in badids}
            ctx.report_fail(f, c)
    ctx.extra["model_impl_disagreements"] = len(kbad)
    nc = {}
    for c in cases:
        k = getattr(c, "nclass", None)
        if k:
            nc[k] = nc.get(k, 0) + 1
    ctx.extra["corr_axis_length_and_flag_classes"] = nc
    al = {}
    for c in cases:
        d = c.replay["d"]
        if d["k"] == "ent":
            k = "alphabet=%d/len=%s" % (len(set(d["xs"][0])), "<=8" if len(d["xs"][0]) <= 8 else ">8")
            al[k] = al.get(k, 0) + 1
    ctx.extra["entropy_alphabet_and_length_classes"] = al
    ctx.extra["phase_seconds"] = {"run_implementation": round(t1 - t0, 1), "K_coqc": round(t2 - t1, 1), "oracle": round(_t.time() - t2, 1)}
    ctx.extra["rule"] = ("seeded generator: crosscov/crosscorr/autocov/autocorr on 1..3-d arrays (any axis, also negative), "
                         "float64/complex128/int64/float32/complex64, all flag combinations, lengths 2..%d of every parity and "
                         "around powers of two; seed_corrcoef (also through SeedCorrelationAnalyzer, 1..3-d targets, small integer "
                         "fluctuations on baselines 2^20..2^30 / 1e9 in seed, targets or both); zscore/percent_change along every axis; CorrelationAnalyzer "
                         "xcorr/xcorr_norm with 2..4 channels; correlation_spectrum; entropy family over alphabets 1..6, "
                         "1..3 variables, lags 1..5, lengths to 200; data scaled by 2^-60..2^40 (tolerances relative to the data "
                         "scale); inputs also as Fortran-ordered / strided / negative-stride / read-only / derived (a+0) arrays, "
                         "lists, positional arguments; long lanes 65..512 (around powers of two, primes, the maximum) through the "
                         "independent numpy direct-sum oracle and, for the cheap kinds and integer data, through K; "
                         "non-trivial = the call returned finite values" % maxn)
    return ctx.finish(
        trusted=["library kernels called separately and handed to the model as data: np.correlate, np.corrcoef, np.std, "
                 "scipy.fftpack.fft (correlation_spectrum), np.log2; scipy.fftpack fft/ifft inside fftconvolve are represented "
                 "by their contract (convolution theorem: ifft(fft(a,F)*fft(b,F)) = circular convolution), a Section hypothesis "
                 "in the theorems; np.log2/np.ceil of an integer size are exact",
                 "Coq.Reals axioms (information-measure theorems only; the correlation / normalisation theorems are closed "
                 "under the global context): ClassicalDedekindReals.sig_forall_dec, ClassicalDedekindReals.sig_not_dec, "
                 "Classical_Prop.classic, FunctionalExtensionality.functional_extensionality_dep"],
        assumptions=["inputs outside the statement are not generated: constant lanes for zscore, zero-mean lanes for "
                     "percent_change, sequences of unequal length, H(X)+H(Y)=0 for entropy_cc"])


def replay(ctx, path):
    core.import_nitime()
    rp = json.loads(open(path).read())
    d = (rp.get("case") or rp)["d"]
    c = make_case(d)
    fails = oracle(d, c.out, __import__("random").Random("oracle:0"))
    print(json.dumps({"d": {k: v for k, v in d.items() if k not in ("x", "y")}, "fails": [f.what for f in fails],
                      "observed": [repr(f.observed) for f in fails], "required": [repr(f.required) for f in fails]}, indent=1))
    return 1 if fails else 0
