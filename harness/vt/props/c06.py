"""C06 — cross-spectral matrices are Hermitian, positive semidefinite and channel-consistent.

P: coq/Props/C06.v (theorems over Model/Csd.v: entry formulas of the triangular fill + completion,
   Hermitian, Gram => PSD for every M and K, locality / relabelling / flattening, diagonal = C04 model)
K: seeded calls of periodogram_csd, multi_taper_csd (fixed / adaptive weights) and get_spectra (Welch);
   the library oracles (fft, dpss_windows, adaptive weights, sqrt, mlab.csd) recorded during the call are
   handed to the model as data; the Coq kernel evaluates the model on every entry of the (M, M, F) array
   and compares (Check/C06K.v).  Permuted / subset / flattened re-runs are cases too.
oracle (search): numpy eigenvalues, Hermitian symmetry, diagonal vs the single-channel estimator,
   pairwise re-runs (permutation, subset, flattening) on the implementation's results
"""
import json

import numpy as np

from vt import core
from vt.core import Fail
from vt.props import spectral_common as S
from vt.props.c04 import corpus_scenarios, validate_fft, close_arr

REL = 1e-9
SINGLE = {"periodogram_csd": "periodogram", "multi_taper_csd": "multi_taper_psd", "welch": "welch"}


def completed(sc, out):
    """the matrix a consumer sees: Welch's semi-filled array completed by Hermitian symmetry"""
    if sc["est"] != "welch":
        return out
    M = out.shape[0]
    full = out.copy()
    for i in range(M):
        for j in range(i):
            full[i, j] = np.conj(out[j, i])
    return full


def sub_scenario(sc, x, idx):
    v = {k: w for k, w in sc.items() if k not in ("layout", "history", "sibling", "same_as_first")}
    S.set_data(v, np.ascontiguousarray(x[idx]))
    return v


def mat_of(sc, res):
    out = res["out"]
    if out.ndim == 1:
        out = out.reshape(1, 1, -1)
    return out


def oracle(sc, res, seed=0):
    fails = []
    est = sc["est"]
    if res["err"] is not None:
        if S.err_in_dpss(res["err"]):
            if est == "multi_taper_csd":
                s1 = {k: v for k, v in sc.items() if k not in ("via_get_spectra", "history")}
                s1["est"] = "multi_taper_psd"
                if S.run_scenario(s1)["err"] is None:
                    return [Fail("C06/multi_taper_csd/diag", "multi_taper_csd raises %r where multi_taper_psd with identical keywords "
                                 "returns the spectra its diagonal should equal" % res["err"], repr(res["err"]), "diagonal = psd")]
            return []
        return [Fail("C06/%s/exception" % est, "the estimator raised %r" % res["err"], repr(res["err"]), "a matrix")]
    x = res["x"]
    n = x.shape[-1]
    x2 = x.reshape(-1, n)
    M = x2.shape[0]
    out = mat_of(sc, res)
    if out.shape[:2] != (M, M):
        return [Fail("C06/%s/shape" % est, "output is not (M, M, F)", list(out.shape), [M, M, "F"])]
    if not np.all(np.isfinite(out)):
        return [Fail("C06/%s/finite" % est, "matrix contains nan/inf", None, "finite")]
    scale = float(np.max(np.abs(out))) or 1.0
    # ---- Welch: the documented semi-filled convention
    if est == "welch" and M > 1:
        low = max((float(np.max(np.abs(out[i, j]))) for i in range(M) for j in range(i)), default=0.0)
        if low != 0.0:
            fails.append(Fail("C06/welch/semi-filled", "entries below the diagonal are not zero", low, 0.0))
    full = completed(sc, out)
    # ---- Hermitian, real diagonal
    herm = float(np.max(np.abs(full - np.conj(full.transpose(1, 0, 2)))))
    if herm > 1e-12 * scale:
        fails.append(Fail("C06/%s/hermitian" % est, "S[i,j] differs from conj(S[j,i])", herm, 0.0))
    # ---- positive semidefinite at every frequency
    worst = 0.0
    for k in range(full.shape[-1]):
        H = full[:, :, k]
        H = (H + H.conj().T) / 2
        ev = np.linalg.eigvalsh(H)
        worst = min(worst, float(ev[0]) / (float(np.max(np.abs(H))) or 1.0))
    if worst < -1e-9:
        fails.append(Fail("C06/%s/psd" % est, "negative eigenvalue (relative to the largest entry)", worst, ">= 0"))
    # ---- diagonal = single-channel estimator with the same settings
    s1 = dict(sc)
    s1["est"] = SINGLE[est]
    if est == "welch":
        diag_want = []
        for i in range(M):
            r = S.run_scenario(sub_scenario(sc, x2, i))
            diag_want.append(None if r["err"] is not None else r["out"].reshape(-1))
    else:
        S.set_data(s1, x2)
        r = S.run_scenario(s1)
        diag_want = None if r["err"] is not None else list(r["out"].reshape(M, -1))
    if diag_want is not None and all(d is not None for d in diag_want):
        dg = np.einsum("iik->ik", full)
        ok, e = close_arr(dg.real, np.real(np.array(diag_want)))
        if not ok or float(np.max(np.abs(dg.imag))) > 1e-12 * scale:
            fails.append(Fail("C06/%s/diag" % est, "diagonal differs from the single-channel estimator / is not real",
                              {"relative_deviation": e, "max_imag": float(np.max(np.abs(dg.imag)))}, "equal, real"))
    # ---- homogeneity: EVERY case is re-run on exact power-of-two multiples far from its own scale (2^-45, 2^+35)
    # and with a different power of two per channel: entry (i, j) must scale by c_i * c_j (to rounding) and the
    # frequencies must not move; integer-dtype samples are re-run as the same samples in float64
    akey = "C06/multi_taper_csd/adaptive-scale" if sc.get("adaptive") else "C06/%s/scale" % est
    xf = np.asarray(x, dtype=complex if sc["cplx"] else float)
    uni, per = S.scale_factors(xf, seed)
    trials = [(np.full(M, a), "a = 2^%d" % int(np.log2(a))) for a in uni]
    if per is not None:
        trials.append((per, "per channel, log2 c = %s" % [int(v) for v in np.log2(per)]))
    for cvec, label in trials:
        r2 = S.run_scenario(sc, data=(xf.reshape(M, n) * cvec[:, None]).reshape(xf.shape))
        if r2["err"] is not None:
            fails.append(Fail(akey, "the estimator raises on rescaled data (%s): %r" % (label, r2["err"]), label, "c_i c_j scaling"))
            break
        want = out * cvec[:, None, None] * cvec[None, :, None]
        ok, e = close_arr(mat_of(sc, r2), want)
        same_f = np.array_equal(np.asarray(r2.get("f")), np.asarray(res.get("f")))
        if not ok or not same_f:
            fails.append(Fail(akey, "scaling channel i by c_i does not scale entry (i, j) by c_i c_j"
                              + ("" if same_f else " (and the frequency axis moved)"),
                              {"factors": label, "relative_deviation": e}, "c_i c_j scaling"))
            break
    if sc.get("dtype"):
        rfl = S.run_scenario(sc, data=xf)
        if rfl["err"] is None:
            ok, e = close_arr(mat_of(sc, rfl), out)
            if not ok or np.asarray(rfl["out"]).dtype != np.asarray(res["out"]).dtype:
                fails.append(Fail("C06/%s/int-dtype" % est, "integer-dtype samples give another matrix than the same samples in float64",
                                  {"dtype": sc["dtype"], "out_dtype": str(np.asarray(res["out"]).dtype), "relative_deviation": e},
                                  "identical result"))
    rng = np.random.default_rng(seed + 17)
    # ---- permutation equivariance
    if M > 1:
        perm = rng.permutation(M)
        rp = S.run_scenario(sub_scenario(sc, x2, perm))
        if rp["err"] is None:
            got = completed(sc, mat_of(sc, rp))
            want = full[np.ix_(perm, perm)]
            ok, e = close_arr(got, want)
            if not ok:
                fails.append(Fail("C06/%s/permutation" % est, "re-ordering the channels does not permute the matrix",
                                  {"perm": [int(p) for p in perm], "relative_deviation": e}, "S'[a,b] = S[p a, p b]"))
    # ---- subsets: an entry does not depend on bystander channels
    if M > 2:
        k = int(rng.integers(2, M))
        sub = np.sort(rng.choice(M, size=k, replace=False))
        rs = S.run_scenario(sub_scenario(sc, x2, sub))
        if rs["err"] is None:
            got = completed(sc, mat_of(sc, rs))
            want = full[np.ix_(sub, sub)]
            ok, e = close_arr(got, want)
            if not ok:
                fails.append(Fail("C06/%s/subset" % est, "removing other channels changes an entry",
                                  {"subset": [int(p) for p in sub], "relative_deviation": e}, "unchanged entries"))
    # ---- memory layout: the same values Fortran-ordered / strided / as a transposed view
    if sc.get("layout") not in (None, "C"):
        v = dict(sc)
        v["layout"] = "C"
        rc = S.run_scenario(v)
        if rc["err"] is None:
            ok, e = close_arr(mat_of(sc, rc), out)
            if not ok:
                fails.append(Fail("C06/%s/layout" % est, "matrix depends on the memory layout of the input (%s vs C order)" % sc["layout"],
                                  {"relative_deviation": e}, "same matrix as for the C-ordered copy"))
    # ---- flattening extra leading dimensions
    if x.ndim > 2 and est != "welch":
        rf = S.run_scenario(sub_scenario(sc, x2, slice(None)))
        if rf["err"] is None:
            ok, e = close_arr(mat_of(sc, rf), out)
            if not ok:
                fails.append(Fail("C06/%s/flatten" % est, "flattening the leading dimensions changes the matrix",
                                  {"relative_deviation": e}, "unchanged"))
    return fails


def gen_all(ctx):
    rng = ctx.rng
    q = ctx.quick
    scs = corpus_scenarios("C06")
    for _ in range(ctx.scale(24, 200)):
        scs.append(S.gen_scenario(rng, "periodogram_csd", nmax=32 if q else 96, max_ch=5 if q else 6))
    for _ in range(ctx.scale(8, 120)):
        scs.append(S.gen_scenario(rng, "multi_taper_csd", nmax=20 if q else 48,
                                  max_ch=rng.choice([2, 3, 3, 4]) if q else rng.choice([3, 4, 5, 6])))
    for _ in range(ctx.scale(16, 120)):
        scs.append(S.gen_welch(rng))
    for i in range(ctx.scale(6, 24)):
        scs.append(S.gen_welch(rng, window=["none", "array", "callable"][i % 3], M=[2, 3, 2, 4][i % 4]))
    # the BW keyword with NFFT in {None, N, > N} (the diagonal is compared with multi_taper_psd called with
    # identical keywords); adaptive=True with 1-2 usable tapers
    for _ in range(ctx.scale(5, 30)):
        scs.append(S.runnable(lambda: S.force_bw_nfft(rng, S.gen_scenario(rng, "multi_taper_csd", nmax=16 if q else 32, max_ch=2 if q else 4), idx=_)))
    for _ in range(ctx.scale(2, 12)):
        scs.append(S.runnable(lambda: S.force_few_tapers(rng, S.gen_scenario(rng, "multi_taper_csd", nmax=16 if q else 32, max_ch=2 if q else 4))))
    # BOTH NW and BW in one call (conflicting / agreeing), directly and through get_spectra's method dict
    for i in range(ctx.scale(6, 24)):
        sc = S.runnable(lambda: S.force_both_nw_bw(rng, S.gen_scenario(rng, "multi_taper_csd", nmax=18 if q else 32, max_ch=2,
                                                                        lead=[2], layout="C"), i))
        if i % 3 == 2:
            sc["via_get_spectra"] = True
        scs.append(sc)
    # option combinations as small full factorials
    scs += S.combo_plan(rng, "multi_taper_csd")
    if not q:
        scs += S.combo_plan(rng, "periodogram_csd")
    else:
        scs += S.combo_plan(rng, "periodogram_csd")[::2]
    # BW * N / Fs exactly on a half-integer (np.round: half to even), k even / odd, and one ulp either side
    for i in range(ctx.scale(8, 32)):
        scs.append(S.force_bw_tie(rng, S.gen_scenario(rng, "multi_taper_csd", nmax=20, max_ch=2, lead=[2], layout="C"), i))
    # integer-dtype samples (incl. two leading dimensions)
    plan_i = [("periodogram_csd", [3]), ("multi_taper_csd", [2]), ("welch", [3]), ("multi_taper_csd", [2, 2]), ("periodogram_csd", [2, 2])]
    for i in range(ctx.scale(5, 25)):
        est, lead = plan_i[i % len(plan_i)]
        if est == "welch":
            sc = S.gen_welch(rng)
            while len(sc["shape"]) < 2 or sc["cplx"]:
                sc = S.gen_welch(rng)
            scs.append(S.force_int(rng, sc))
        else:
            scs.append(S.runnable(lambda: S.force_int(rng, S.gen_scenario(rng, est, nmax=14 if q else 32, lead=lead, layout="C"))))
    # adaptive weights on nearly coherent, differently coloured channels (PSD clause tight)
    for _ in range(ctx.scale(4, 24)):
        scs.append(S.runnable(lambda: S.force_coherent(rng, S.gen_scenario(rng, "multi_taper_csd", nmax=20 if q else 48, min_ch=2,
                                                                         max_ch=3 if q else 4, lead=[rng.choice([2, 3])]))))
    # the NFFT-vs-N parity matrix (N even / odd x NFFT in {None, N, N+1, N+2, 2N, 2N+1})
    ne, no = (10, 9) if q else (rng.choice([16, 32]), rng.choice([15, 31]))
    for est in ("multi_taper_csd", "periodogram_csd"):
        scs += S.gen_parity_matrix(rng, est, ne if est.startswith("multi") else ne - 2,
                                   no if est.startswith("multi") else no - 2, M=2, per_cell=1 if q else 2)
    # Fortran-ordered / strided / transposed-view inputs with two or more leading dimensions > 1
    plan = [("multi_taper_csd", "F", [2, 2]), ("multi_taper_csd", "F", [2, 3]), ("multi_taper_csd", "transposed", [3, 2]),
            ("multi_taper_csd", "strided0", [2, 2]), ("periodogram_csd", "F", [2, 3]), ("periodogram_csd", "transposed", [2, 2]),
            ("periodogram_csd", "strided", [3, 2]), ("multi_taper_csd", "strided", [2, 3])]
    for i in range(ctx.scale(6, 40)):
        est, lay, lead = plan[i % len(plan)]
        if not q and i >= len(plan):
            lead = rng.choice([[2, 2], [2, 3], [3, 2], [2, 1, 3]])
        scs.append(S.runnable(lambda: S.gen_scenario(rng, est, nmax=(12 if est == "multi_taper_csd" else 16) if q else 24, lead=lead, layout=lay)))
    # option-sibling sequences
    for _ in range(ctx.scale(2, 12)):
        scs += S.runnable(lambda: S.gen_siblings(rng, "multi_taper_csd", nmax=14 if q else 32, max_ch=2 if q else 3, opt="low_bias"))
    for _ in range(ctx.scale(3, 20)):
        scs += S.runnable(lambda: S.gen_siblings(rng, rng.choice(["multi_taper_csd", "multi_taper_csd", "periodogram_csd"]),
                              nmax=14 if q else 32, max_ch=2 if q else 3))
    for sc in scs:
        if sc["est"] != "welch" and len(sc["shape"]) == 2 and not sc.get("use_sk") and not sc.get("sibling") \
                and not sc.get("layout") and rng.random() < 0.25:
            sc["via_get_spectra"] = True        # the same estimator reached through get_spectra(method=...)
    # paired variants as K cases of their own: a permuted and a flattened copy of some scenarios
    extra = []
    for sc in scs:
        if sc["est"] == "welch" or sc.get("sibling") or rng.random() > 0.25:
            continue
        x = S.sc_data(sc)
        x2 = x.reshape(-1, x.shape[-1])
        if x2.shape[0] > 1:
            perm = list(range(x2.shape[0]))
            rng.shuffle(perm)
            extra.append(sub_scenario(sc, x2, perm))
    return scs + extra


def run(ctx):
    core.import_nitime()
    ctx.check_props()
    cases = [S.make_case(sc) for sc in gen_all(ctx)]
    bad = S.run_k(ctx, cases)
    nv_ok = nv_bad = 0
    ctx.extra["skipped_dpss_windows_exception"] = sum(1 for c in cases if c.res["err"] is not None and S.err_in_dpss(c.res["err"]))
    for i, c in enumerate(cases):
        a, b = validate_fft(c.res["rec"])
        nv_ok += a
        nv_bad += b
        try:
            fl = oracle(c.sc, c.res, seed=i)
        except Exception as e:  # noqa
            fl = [Fail("C06/%s/oracle-exception" % c.sc["est"], "the oracle could not judge this call: %r" % e, repr(e), "a verdict")]
        for f in fl:
            f.replay = {"entry_point": "nitime.algorithms.spectral." + ("get_spectra" if c.sc["est"] == "welch" else c.sc["est"]),
                        "model_disagrees": id(c) in bad, "case_index": i}
            ctx.report_fail(f, S.with_run_history(cases, i))
    for f, c in S.purity_fails("C06", cases, ctx.scale(8, 50)):
        f.replay = {"entry_point": "nitime.algorithms.spectral." + c.replay["scenario"]["est"]}
        ctx.report_fail(f, c)
    ctx.extra["model_impl_disagreements"] = len(bad)
    ctx.extra["fft_contract_validations"] = {"ok": nv_ok, "failed": nv_bad}
    ctx.extra["rule"] = ("seeded generator over estimator (periodogram_csd, multi_taper_csd fixed/adaptive, get_spectra Welch) x "
                         "1-5 channels (thorough 6) incl. extra leading dimensions x lengths 8..40 (thorough ..96) of both parities x "
                         "NFFT in {None, N, >N} x sides x real/complex x Fs grid x normalize / precomputed Sk / NW / BW / low_bias / "
                         "Welch NFFT, overlap, Fs; correlated channels; permuted copies as cases of their own; non-trivial = the "
                         "call returned a matrix; distinct by hash of the Coq case term")
    return ctx.finish(
        trusted=["library oracles, taken as data recorded during the implementation's own call: scipy.fftpack.fft (validated "
                 "numerically per call), numpy ** 0.5 (relation d*d = sum w^2 checked in Coq), nitime.utils.dpss_windows "
                 "(property C07), nitime.utils.adaptive_weights' returned weights, matplotlib.mlab.csd",
                 "tolerance of the K comparison: rtol 1e-9, atol 1e-12 x largest magnitude of the compared array"],
        assumptions=["Welch branch: Hermitian symmetry / positive semidefiniteness of the completed matrix rest on "
                     "matplotlib.mlab.csd's contract and are validated numerically (eigenvalues), not proved; proved for it: "
                     "the semi-filled layout, the set and order of mlab.csd calls and their arguments",
                     "positive semidefiniteness of the multitaper matrix is proved for per-channel norms d > 0 (zero weights "
                     "at a frequency, i.e. an all-zero channel, are outside the theorem)"])


def replay(ctx, path):
    core.import_nitime()
    d = json.loads(open(path).read())
    sc = (d.get("case") or d).get("scenario") or d.get("scenario")
    if sc is None:
        print(json.dumps({"note": "no scenario in replay file (broken-lemma record)", "lemmas": d.get("lemmas")}, indent=1)[:3000])
        return 1
    want_key = d.get("finding_key") or ""
    if want_key.endswith("/history-dependence"):
        hist = sc.get("history") or []
        first = S.run_scenario(hist[0]) if hist else S.run_scenario(sc)
        for h in hist[1:]:
            S.run_scenario(h)
        again = S.run_scenario(sc)
        same = S.same_result(first, again)
        print(json.dumps({"scenario": {k: v for k, v in sc.items() if k not in ("data", "history")},
                          "calls_before": len(hist), "identical_result": same}, indent=1))
        return 0 if same else 1
    res = S.run_scenario(sc, with_history=True)
    fails = oracle(sc, res, seed=d.get("case_index", 0))
    print(json.dumps({"scenario": {k: v for k, v in sc.items() if k not in ("data", "history")}, "shape": sc["shape"],
                      "calls_before": len(sc.get("history") or []),
                      "fails": [{"key": f.key, "what": f.what, "observed": f.observed, "required": f.required} for f in fails]},
                     indent=1, default=str))
    return 1 if fails else 0
