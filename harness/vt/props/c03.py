"""C03 — indexing by time agrees with indexing by sample position.

P: coq/Props/C03.v (theorems over Model/Index.v, all axes / arrays / queries / epochs / data)
K: seeded calls of TimeArray.index_at/at/slice_during/during, UniformTime.index_at/at/slice_during/
   during, TimeSeries.time/at/__getitem__/during, Events.__getitem__, Epochs(...); the Coq kernel
   evaluates the model on each call (object state + arguments) and compares exactly with what the
   implementation returned (positions, slice ends, picoseconds, units, 0-d flags, data columns,
   exception class)
oracle: the statement's set definitions ({k | |t_k - t| <= tol}, {k | start <= t_k < stop}, floor
   bins) evaluated directly with Python integers on the implementation's results; it never calls
   nitime for a reference value (inputs are described as picosecond integers, expected states of
   axes / series are worked out from the constructor arguments).
Ranges (audit): K covers objects of 1..40 samples plus a few of 1009/1025/2049/4097; the oracle-only
   "long" family runs the implementation on objects of 1025 .. 10^6 samples (numpy int64 definitions);
   picosecond magnitudes from 1 ps grids to t0 / intervals / tolerances beyond 2^53 and up to ~2^61.6;
   objects reached through copy / copy.copy / views / np.copy(subok) / ufunc results / strided views /
   Fortran-ordered and non-contiguous data / time= and float-interval constructor forms; positional
   and keyword calls.
"""
import json
from fractions import Fraction

import numpy as np

from vt import core
from vt.core import Case, Fail, zlit, flit, blit, llit, zlist, nlit

UNITS = ["ps", "ns", "us", "ms", "s", "m", "h", "D", "W"]
UCOQ = dict(zip(UNITS, ["Ups", "Uns", "Uus", "Ums", "Us", "Um", "Uh", "UD", "UW"]))
FACT = {"ps": 1, "ns": 10 ** 3, "us": 10 ** 6, "ms": 10 ** 9, "s": 10 ** 12, "m": 60 * 10 ** 12,
        "h": 3600 * 10 ** 12, "D": 86400 * 10 ** 12, "W": 7 * 86400 * 10 ** 12}
XERR = {"ValueError": "XValue", "IndexError": "XIndex", "NotImplementedError": "XNotImpl", "TypeError": "XType"}


# ------------------------------------------------------------------ describing values
def tarr_coq(t):
    return "(mk_tarr %s %s %s)" % (zlist(t["p"]), UCOQ[t["u"]], blit(t["sc"]))


def mk_time(ts, t):
    if t["sc"]:
        a = ts.TimeArray(np.int64(t["p"][0]), time_unit="ps")
    else:
        a = ts.TimeArray(np.array(t["p"], dtype=np.int64), time_unit="ps")
    a.convert_unit(t["u"])
    return a


def mk_arg(ts, d):
    """a time-like argument: bare int / float (scalar or list) or a time object"""
    if d is None:
        return None
    k = d["kind"]
    if k == "time":
        return mk_time(ts, d["t"])
    if k == "int":
        return d["v"][0] if d["sc"] else list(d["v"])
    if k == "float":
        v = [float.fromhex(x) for x in d["v"]]
        return v[0] if d["sc"] else v
    raise ValueError(k)


def arg_coq(d):
    k = d["kind"]
    if k == "time":
        return "(DTime %s)" % tarr_coq(d["t"])
    if k == "int":
        return "(DInts %s %s)" % (blit(d["sc"]), zlist(d["v"]))
    return "(DFloats %s %s)" % (blit(d["sc"]), llit([flit(float.fromhex(x)) for x in d["v"]]))


def oarg_coq(d):
    return "None" if d is None else "(Some %s)" % arg_coq(d)


def uarg_coq(u):
    return "UArgNone" if u is None else ("(UArg %s)" % UCOQ[u] if u in UCOQ else "UArgBad")


def eargs_coq(ea):
    return "(mk_eargs %s %s %s %s %s %s)" % (oarg_coq(ea.get("t0")), oarg_coq(ea.get("stop")), oarg_coq(ea.get("offset")),
                                             oarg_coq(ea.get("start")), oarg_coq(ea.get("duration")), uarg_coq(ea.get("unit")))


def mk_epochs(ts, ea):
    if ea.get("pos"):     # positional: (t0, stop, offset, start, duration, time_unit)
        return ts.Epochs(mk_arg(ts, ea.get("t0")), mk_arg(ts, ea.get("stop")), mk_arg(ts, ea.get("offset")),
                         mk_arg(ts, ea.get("start")), mk_arg(ts, ea.get("duration")), ea.get("unit"))
    return ts.Epochs(t0=mk_arg(ts, ea.get("t0")), stop=mk_arg(ts, ea.get("stop")), offset=mk_arg(ts, ea.get("offset")),
                     start=mk_arg(ts, ea.get("start")), duration=mk_arg(ts, ea.get("duration")), time_unit=ea.get("unit"))


INT_TYPES = {"int": int, "int8": np.int8, "int16": np.int16, "int32": np.int32, "int64": np.int64, "intp": np.intp,
             "uint8": np.uint8, "uint16": np.uint16, "uint32": np.uint32, "uint64": np.uint64}


def gen_int_type(rng, k):
    """a Python / numpy integer type able to hold the key k (negative keys need a signed type)"""
    ok = [t for t in INT_TYPES if (k >= 0 or not t.startswith("u")) and (t == "int" or np.iinfo(INT_TYPES[t]).min <= k <= np.iinfo(INT_TYPES[t]).max)]
    return rng.choice(ok + ["int", "int"])


def mk_int(k, ty):
    return INT_TYPES[ty or "int"](k)


def mk_key(key):
    k = key["kind"]
    if k == "int":
        return mk_int(key["k"], key.get("ty"))
    if k == "slice":
        return slice(key["lo"], key["hi"])
    if k == "list":
        return list(key["l"])
    return np.array(key["m"], dtype=bool)


def key_coq(key):
    k = key["kind"]
    if k == "int":
        return "(EInt %s)" % zlit(key["k"])
    if k == "slice":
        return "(ESlice %s %s)" % (core.olit(key["lo"], zlit), core.olit(key["hi"], zlit))
    if k == "list":
        return "(EList %s)" % zlist(key["l"])
    return "(EMask %s)" % llit([blit(b) for b in key["m"]])


def mk_epochs_idx(ts, ea, key, sub=False, it=False):
    """Epochs(...)[key], optionally through a subclass / through iteration"""
    if sub:
        class MyEpochs(ts.Epochs):
            pass
        ea = dict(ea)
        e = MyEpochs(t0=mk_arg(ts, ea.get("t0")), stop=mk_arg(ts, ea.get("stop")), offset=mk_arg(ts, ea.get("offset")),
                     start=mk_arg(ts, ea.get("start")), duration=mk_arg(ts, ea.get("duration")), time_unit=ea.get("unit"))
    else:
        e = mk_epochs(ts, ea)
    if it and key["kind"] == "int" and e.data.ndim == 1 and 0 <= key["k"] < len(e):
        r = [x for x in e][key["k"]]
    else:
        r = e[mk_key(key)]
    if type(r) is not type(e):
        raise RuntimeError("indexing changed the class from %s to %s" % (type(e).__name__, type(r).__name__))
    return r


def obs_epochs(e):
    st, sp = np.asarray(e.data["start"]), np.asarray(e.data["stop"])
    o = {"t": "epochs", "start": [int(x) for x in st.ravel()], "stop": [int(x) for x in sp.ravel()],
         "sc": e.data.ndim == 0, "off": {"p": [int(e.offset)], "u": e.offset.time_unit, "sc": e.offset.ndim == 0},
         "u": e.time_unit}
    if len(o["start"]):
        o["dur"] = [int(x) for x in np.asarray(e.duration).ravel()]
        o["su"] = e.start.time_unit
    return o


def index_spec(e, key):
    """Python indexing of the (start, stop) pairs of the epochs description e; 'ierr' = IndexError"""
    if e["sc"]:
        return "ierr"
    st, sp = e["start"], e["stop"]
    n = len(st)
    k = key["kind"]
    if k == "int":
        if not -n <= key["k"] < n:
            return "ierr"
        i = key["k"] % n
        return dict(e, start=[st[i]], stop=[sp[i]], sc=True)
    if k == "slice":
        sl = slice(key["lo"], key["hi"])
        return dict(e, start=st[sl], stop=sp[sl])
    if k == "list":
        if not all(-n <= i < n for i in key["l"]):
            return "ierr"
        return dict(e, start=[st[i] for i in key["l"]], stop=[sp[i] for i in key["l"]])
    if len(key["m"]) != n:
        return "ierr"
    return dict(e, start=[x for x, b in zip(st, key["m"]) if b], stop=[x for x, b in zip(sp, key["m"]) if b])


def rne(q):
    """round half to even of a Fraction (np.round)"""
    fl = q.numerator // q.denominator
    r = q - fl
    if r < Fraction(1, 2):
        return fl
    if r > Fraction(1, 2):
        return fl + 1
    return fl if fl % 2 == 0 else fl + 1


def arg_ps(d, unit):
    """the instants (picoseconds) a time-like argument denotes when read in `unit` (C01's rule:
    time objects keep their value; integers are exact; floats: nearest ps of the float product)"""
    if d["kind"] == "time":
        return list(d["t"]["p"]), d["t"]["sc"]
    f = FACT[unit or "s"]
    if d["kind"] == "int":
        return [v * f for v in d["v"]], d["sc"]
    return [rne(Fraction(float.fromhex(x) * float(f))) for x in d["v"]], d["sc"]


def arg_unit(d, unit):
    """the unit TimeArray(d, time_unit=unit) ends up with"""
    if unit is not None:
        return unit
    return d["t"]["u"] if d["kind"] == "time" else "s"


# ------------------------------------------------------------------ object states
def mk_axis(ts, b):
    """build a UniformTime through one of the constructor paths described by b"""
    kw = dict(b["kw"])
    for k in ("sampling_interval", "t0", "duration"):
        if isinstance(kw.get(k), dict):
            kw[k] = mk_arg(ts, kw[k])
    return ts.UniformTime(**kw)


def axis_state(u):
    return {"samples": [int(x) for x in np.asarray(u)], "t0": int(u.t0), "dt": int(u.sampling_interval),
            "dur": int(u.duration), "u": u.time_unit}


def axis_coq(a):
    return "(mk_uaxis %s %s %s %s %s)" % (zlist(a["samples"]), zlit(a["t0"]), zlit(a["dt"]), zlit(a["dur"]), UCOQ[a["u"]])


def axis_wf(a):
    n = len(a["samples"])
    return a["dt"] > 0 and a["samples"] == [a["t0"] + i * a["dt"] for i in range(n)] and a["dur"] == n * a["dt"]


def mk_series(ts, s):
    data = np.array(s["data"], dtype=np.int64).reshape(s["shape"])
    dv = s.get("dv")
    si = ts.TimeArray(np.int64(s["dt"]), time_unit="ps")
    t0 = ts.TimeArray(np.int64(s["t0"]), time_unit="ps")
    if dv == "fortran":
        data = np.asfortranarray(data)
    elif dv == "strided":
        big = np.full(tuple(s["shape"][:-1]) + (2 * s["shape"][-1],), -7, dtype=np.int64)
        big[..., ::2] = data
        data = big[..., ::2]
    if dv == "time_arg":
        u = ts.UniformTime(length=s["shape"][-1], sampling_interval=si, t0=t0, time_unit=s["u"])
        r = ts.TimeSeries(data, time=u, time_unit=s["u"])
    elif dv == "float_interval":     # the same interval / t0 as bare floats in the series' unit (generated only when exact)
        f = float(FACT[s["u"]])
        r = ts.TimeSeries(data, sampling_interval=s["dt"] / f, t0=s["t0"] / f, time_unit=s["u"])
    else:
        r = ts.TimeSeries(data, sampling_interval=si, t0=t0, time_unit=s["u"])
    if dv == "copy":
        r = r.copy()
    if (int(r.t0), int(r.sampling_interval), r.time_unit) != (s["t0"], s["dt"], s["u"]):
        raise RuntimeError("series state (t0, interval, unit) = %s differs from its specification %s" % (
            (int(r.t0), int(r.sampling_interval), r.time_unit), (s["t0"], s["dt"], s["u"])))
    return r


def columns(arr):
    """list of the columns arr[..., k] flattened"""
    arr = np.asarray(arr)
    return [[int(x) for x in np.asarray(arr[..., k]).ravel()] for k in range(arr.shape[-1])]


def cols_coq(cols):
    return llit([zlist(c) for c in cols])


def series_coq(s):
    data = np.array(s["data"], dtype=np.int64).reshape(s["shape"])
    return "(mk_series %s %s %s %s)" % (cols_coq(columns(data)), zlit(s["t0"]), zlit(s["dt"]), UCOQ[s["u"]])


EV_KEYS = ["a", "b", "c"]


def mk_events(ts, e):
    kw = {}
    for k in EV_KEYS:
        if k in e["data"]:
            kw[k] = np.array(e["data"][k]["v"], dtype=np.int64).reshape(e["data"][k]["shape"])
    return ts.Events(mk_time(ts, e["time"]), **kw)


def ev_records(e_data, n):
    """per-event records: for each position the concatenation (sorted keys) of v[k].ravel()"""
    recs = [[] for _ in range(n)]
    for k in sorted(e_data):
        v = np.asarray(e_data[k])
        for i in range(n):
            recs[i] += [int(x) for x in np.asarray(v[i]).ravel()]
    return recs


def events_coq(e):
    n = len(e["time"]["p"])
    d = {k: np.array(v["v"], dtype=np.int64).reshape(v["shape"]) for k, v in e["data"].items()}
    return "(mk_events %s %s)" % (tarr_coq(e["time"]), cols_coq(ev_records(d, n)))


# ------------------------------------------------------------------ derived objects / alternative argument forms
TIME_DV = [None, None, None, "copy", "copycopy", "view", "add0", "npcopy", "strided", "rewrap"]
AXIS_DV = [None, None, None, "copy", "copycopy", "view", "npcopy", "rewrap"]
SERIES_DV = [None, None, None, "copy", "fortran", "strided", "time_arg", "float_interval"]


def derive_time(ts, t, dv):
    """the same time array reached another way (copy, view, ufunc result, non-contiguous view, ...)"""
    import copy as _copy
    if dv is None or t.ndim == 0:
        return t
    if dv == "copy":
        return t.copy()
    if dv == "copycopy":
        return _copy.copy(t)
    if dv == "view":
        return t[:]
    if dv == "add0":
        return t + 0
    if dv == "npcopy":
        return np.copy(t, subok=True)
    if dv == "strided":
        big = np.empty(2 * len(t), dtype=np.int64)
        big[::2] = np.asarray(t)
        big[1::2] = -1
        r = ts.TimeArray(big, time_unit="ps", copy=False)[::2]
        r.convert_unit(t.time_unit)
        return r
    if dv == "rewrap":
        return ts.TimeArray(t)
    raise ValueError(dv)


def derive_axis(ts, u, dv):
    import copy as _copy
    if dv is None:
        return u
    if dv == "copy":
        return u.copy()
    if dv == "copycopy":
        return _copy.copy(u)
    if dv == "view":
        return u[:]
    if dv == "npcopy":
        return np.copy(u, subok=True)
    if dv == "rewrap":
        return ts.UniformTime(u)
    raise ValueError(dv)


# ------------------------------------------------------------------ running one action
def obs_times(r):
    a = np.asarray(r)
    if a.dtype != np.int64 or a.ndim > 1:
        return {"t": "other", "what": "time result dtype %s ndim %d" % (a.dtype, a.ndim)}
    return {"t": "times", "p": [int(x) for x in a.ravel()], "u": r.time_unit, "sc": a.ndim == 0, "cls": type(r).__name__}


def obs_idx(r):
    if isinstance(r, np.ndarray):
        if r.ndim != 1 or not issubclass(r.dtype.type, np.integer):
            return {"t": "other", "what": "index array dtype %s ndim %d" % (r.dtype, r.ndim)}
        return {"t": "idx", "l": [int(x) for x in r]}
    if isinstance(r, (int, np.integer)):
        return {"t": "idx", "k": int(r)}
    return {"t": "other", "what": "index of type %s" % type(r).__name__}


def obs_slice(r):
    if not isinstance(r, slice) or r.step is not None:
        return {"t": "other", "what": "not a plain slice: %r" % (r,)}
    return {"t": "slice", "lo": 0 if r.start is None else int(r.start), "hi": int(r.stop)}


def run_action(a):
    import nitime.timeseries as ts
    try:
        k = a["act"]
        if k in ("tindex", "tat", "tslice", "tduring", "tget"):
            s = derive_time(ts, mk_time(ts, a["self"]), a.get("dv"))
            if k == "tget":
                r = s[mk_int(a["k"], a.get("ty"))]
                if not isinstance(r, ts.TimeInterface):
                    return {"t": "other", "what": "integer selection returned a bare %s (no time unit)" % type(r).__name__}
                return obs_times(r)
            if k == "tindex":
                kw = {}
                if a.get("tol") is not None:
                    kw["tol"] = mk_arg(ts, a["tol"])
                if a.get("pos"):      # positional call
                    return obs_idx(s.index_at(mk_arg(ts, a["q"]), kw.get("tol"), a["mode"]))
                return obs_idx(s.index_at(mk_arg(ts, a["q"]), mode=a["mode"], **kw))
            if k == "tat":
                kw = {}
                if a.get("tol") is not None:
                    kw["tol"] = mk_arg(ts, a["tol"])
                if a.get("via") == "getitem":
                    return obs_times(s[mk_arg(ts, a["q"])])
                return obs_times(s.at(mk_arg(ts, a["q"]), **kw))
            e = mk_epochs(ts, a["e"])
            if k == "tslice":
                return obs_slice(s.slice_during(e))
            return obs_times(s[e] if a.get("via") == "getitem" else s.during(e))
        if k in ("uwf", "uindex", "uat", "uslice", "uduring", "uget"):
            u = derive_axis(ts, mk_axis(ts, a["build"]), a.get("dv"))
            stt = axis_state(u)
            if stt != a["axis"]:
                return {"t": "other", "what": "axis state changed since generation"}
            if k == "uwf":
                return {"t": "bool", "b": axis_wf(stt)}
            if k == "uget":
                r = u[mk_int(a["k"], a.get("ty"))]
                if not isinstance(r, ts.TimeInterface):
                    return {"t": "other", "what": "integer selection returned a bare %s (no time unit)" % type(r).__name__}
                return obs_times(r)
            if k == "uindex":
                r = u.index_at(mk_arg(ts, a["q"]), boolean=a["boolean"])
                if a["boolean"]:
                    return {"t": "mask", "m": [bool(x) for x in r]}
                if isinstance(r, np.ndarray):
                    return {"t": "uidx", "l": [int(x) for x in r]} if type(r) is np.ndarray else \
                        {"t": "other", "what": "index array of class %s" % type(r).__name__}
                return {"t": "uidx", "k": int(r)}
            if k == "uat":
                q = mk_arg(ts, a["q"])
                return obs_times(u[q] if a.get("via") == "getitem" else u.at(q))
            e = mk_epochs(ts, a["e"])
            if k == "uslice":
                return obs_slice(u.slice_during(e))
            return obs_times(u[e] if a.get("via") == "getitem" else u.during(e))
        if k in ("stime", "sat", "sint", "sduring", "sduring_idx"):
            s = mk_series(ts, a["series"])
            if k == "stime":
                return {"t": "axis", "axis": axis_state(s.time)}
            if k == "sat":
                q = mk_arg(ts, a["q"])
                r = s[q] if a.get("via") == "getitem" else s.at(q)
                lead = tuple(a["series"]["shape"][:-1])
                r = np.asarray(r)
                if r.shape == lead:
                    return {"t": "col", "c": [int(x) for x in r.ravel()]}
                if r.shape[:-1] == lead:
                    return {"t": "cols", "l": columns(r)}
                return {"t": "other", "what": "selected data of shape %s" % (r.shape,)}
            if k == "sint":
                r = np.asarray(s[mk_int(a["k"], a.get("ty"))])
                if r.shape != tuple(a["series"]["shape"][:-1]):
                    return {"t": "other", "what": "selected data of shape %s" % (r.shape,)}
                return {"t": "col", "c": [int(x) for x in r.ravel()]}
            e = mk_epochs_idx(ts, a["e"], a["key"], a.get("sub"), a.get("it")) if k == "sduring_idx" else mk_epochs(ts, a["e"])
            r = s[e] if a.get("via") == "getitem" else s.during(e)
            lead = tuple(a["series"]["shape"][:-1])
            d = np.asarray(r.data)
            out = {"t": "during", "t0": int(r.t0), "u": r.time_unit, "dt": int(r.sampling_interval),
                   "time": [int(x) for x in np.asarray(r.time)], "shape": list(d.shape)}
            if e.data.ndim == 0:
                if d.shape[:-1] != lead:
                    return {"t": "other", "what": "during data of shape %s" % (d.shape,)}
                out["one"] = columns(d)
            else:
                if d.shape[1:-1] != lead or d.shape[0] != len(e.data):
                    return {"t": "other", "what": "during data of shape %s" % (d.shape,)}
                out["rows"] = [columns(d[i]) for i in range(d.shape[0])]
            return out
        if k == "eget":
            ev = mk_events(ts, a["events"])
            key = a["key"]
            if key["kind"] == "int":
                kk = mk_int(key["k"], key.get("ty"))
            elif key["kind"] == "float":
                kk = float.fromhex(key["x"])
            else:
                kk = mk_epochs(ts, key["e"])
            r = ev[kk]
            tm = np.asarray(r.time)
            if tm.ndim != 1 or tm.dtype != np.int64:
                return {"t": "other", "what": "event times ndim %d dtype %s" % (tm.ndim, tm.dtype)}
            n = len(tm)
            shapes = {kx: list(np.asarray(v).shape) for kx, v in r.data.items()}
            if sorted(r.data) != sorted(a["events"]["data"]) or any(s_[0] != n for s_ in shapes.values()):
                return {"t": "other", "what": "event data keys/lengths %s for %d times" % (shapes, n)}
            return {"t": "events", "p": [int(x) for x in tm], "u": r.time_unit, "d": ev_records(r.data, n), "shapes": shapes}
        if k == "epochs":
            return obs_epochs(mk_epochs(ts, a["e"]))
        if k == "eidx":
            return obs_epochs(mk_epochs_idx(ts, a["e"], a["key"], a.get("sub"), a.get("it")))
        raise KeyError(k)
    except Exception as ex:  # noqa
        return {"t": "err", "e": XERR.get(type(ex).__name__, "XOther"), "cls": type(ex).__name__, "msg": str(ex)[:120]}


def outcome_coq(o):
    t = o["t"]
    if t == "idx":
        return "(OIdx (IScalar %s))" % nlit(o["k"]) if "k" in o else "(OIdx (IList %s))" % llit([nlit(x) for x in o["l"]])
    if t == "uidx":
        return "(OUIdx (UScalar %s))" % zlit(o["k"]) if "k" in o else "(OUIdx (UList %s))" % zlist(o["l"])
    if t == "mask":
        return "(OUIdx (UMask %s))" % llit([blit(b) for b in o["m"]])
    if t == "slice":
        return None  # caller decides N / Z
    if t == "times":
        return "(OTimes %s %s %s)" % (zlist(o["p"]), UCOQ[o["u"]], blit(o["sc"]))
    if t == "bool":
        return "(OBool %s)" % blit(o["b"])
    if t == "axis":
        return "(OAxis %s)" % axis_coq(o["axis"])
    if t == "col":
        return "(OCol %s)" % zlist(o["c"])
    if t == "cols":
        return "(OCols %s)" % cols_coq(o["l"])
    if t == "during":
        sel = "(DOne %s)" % cols_coq(o["one"]) if "one" in o else "(DRows %s)" % llit([cols_coq(r) for r in o["rows"]])
        return "(ODuring (mk_dout %s %s %s %s))" % (sel, zlit(o["t0"]), zlit(o["dt"]), UCOQ[o["u"]])
    if t == "events":
        return "(OEvents %s %s %s)" % (zlist(o["p"]), UCOQ[o["u"]], cols_coq(o["d"]))
    if t == "epochs":
        return "(OEpochs (mk_epochs %s %s %s %s %s))" % (zlist(o["start"]), zlist(o["stop"]), blit(o["sc"]),
                                                         tarr_coq(o["off"]), UCOQ[o["u"]])
    if t == "err":
        return "(OErr %s)" % o["e"]
    return '(OOther "%s")' % o["what"].replace('"', "'")[:80]


MODE = {"closest": "Closest", "before": "Before", "after": "After"}


def action_coq(a):
    k = a["act"]
    if k == "tindex":
        return "(ATIndex %s %s %s %s)" % (tarr_coq(a["self"]), arg_coq(a["q"]), oarg_coq(a.get("tol")), MODE.get(a["mode"], "BadMode"))
    if k == "tat":
        return "(ATAt %s %s %s)" % (tarr_coq(a["self"]), arg_coq(a["q"]), oarg_coq(a.get("tol")))
    if k == "tget":
        return "(ATGet %s %s)" % (tarr_coq(a["self"]), zlit(a["k"]))
    if k == "uget":
        return "(AUGet %s %s)" % (axis_coq(a["axis"]), zlit(a["k"]))
    if k == "tslice":
        return "(ATSlice %s %s)" % (tarr_coq(a["self"]), eargs_coq(a["e"]))
    if k == "tduring":
        return "(ATDuring %s %s)" % (tarr_coq(a["self"]), eargs_coq(a["e"]))
    if k == "uwf":
        return "(AUWf %s)" % axis_coq(a["axis"])
    if k == "uindex":
        return "(AUIndex %s %s %s)" % (axis_coq(a["axis"]), arg_coq(a["q"]), blit(a["boolean"]))
    if k == "uat":
        return "(AUAt %s %s)" % (axis_coq(a["axis"]), arg_coq(a["q"]))
    if k == "uslice":
        return "(AUSlice %s %s)" % (axis_coq(a["axis"]), eargs_coq(a["e"]))
    if k == "uduring":
        return "(AUDuring %s %s)" % (axis_coq(a["axis"]), eargs_coq(a["e"]))
    if k == "stime":
        return "(ASTime %s)" % series_coq(a["series"])
    if k == "sat":
        return "(ASAt %s %s)" % (series_coq(a["series"]), arg_coq(a["q"]))
    if k == "sint":
        return "(ASInt %s %s)" % (series_coq(a["series"]), zlit(a["k"]))
    if k == "sduring":
        return "(ASDuring %s %s)" % (series_coq(a["series"]), eargs_coq(a["e"]))
    if k == "eget":
        key = a["key"]
        kc = "(GInt %s)" % zlit(key["k"]) if key["kind"] == "int" else (
            "(GFloat %s)" % flit(float.fromhex(key["x"])) if key["kind"] == "float" else "(GEpochs %s)" % eargs_coq(key["e"]))
        return "(AEGet %s %s)" % (events_coq(a["events"]), kc)
    if k == "epochs":
        return "(AEpochs %s)" % eargs_coq(a["e"])
    if k == "eidx":
        return "(AEpochsGet %s %s)" % (eargs_coq(a["e"]), key_coq(a["key"]))
    if k == "sduring_idx":
        return "(ASDuringGet %s %s %s)" % (series_coq(a["series"]), eargs_coq(a["e"]), key_coq(a["key"]))
    raise KeyError(k)


def case_coq(a, o):
    oc = outcome_coq(o)
    if oc is None:  # a slice
        if a["act"] == "tslice":
            if o["lo"] < 0 or o["hi"] < 0:
                oc = '(OOther "negative slice end")'
            else:
                oc = "(OSliceN %s %s)" % (nlit(o["lo"]), nlit(o["hi"]))
        else:
            oc = "(OSliceZ %s %s)" % (zlit(o["lo"]), zlit(o["hi"]))
    return "(%s, %s)" % (action_coq(a), oc)


# ------------------------------------------------------------------ the specification (exact oracle)
def spec_epochs(ea):
    """documented construction: (starts, stops, scalar, offset ps, unit) or 'err'"""
    tu = ea.get("unit")
    if tu is not None and tu not in FACT:
        return "err"
    if ea.get("t0") is None and ea.get("start") is None:
        return "err"
    if (ea.get("stop") is None) == (ea.get("duration") is None):
        return "err"
    off = ea.get("offset") or {"kind": "int", "sc": True, "v": [0]}
    op, osc = arg_ps(off, tu)
    if not osc:
        return "err"
    if ea.get("start") is not None:
        sp, ssc = arg_ps(ea["start"], tu)
        su = arg_unit(ea["start"], tu)
    else:
        tp, ssc = arg_ps(ea["t0"], tu)
        sp = [x - op[0] for x in tp]
        su = arg_unit(ea["t0"], tu)
    if ea.get("stop") is not None:
        ep, esc = arg_ps(ea["stop"], tu)
    else:
        dp, dsc = arg_ps(ea["duration"], tu)
        if len(dp) == 1:
            ep, esc = [x + dp[0] for x in sp], ssc and dsc
        elif len(sp) == 1:
            ep, esc = [sp[0] + d for d in dp], False
        elif len(sp) == len(dp):
            ep, esc = [x + d for x, d in zip(sp, dp)], False
        else:
            return "err"
    if (ssc, len(sp)) != (esc, len(ep)):
        return "err"
    return {"start": sp, "stop": ep, "sc": ssc, "off": op[0], "u": su}


def expected_axis(b):
    """the state a UniformTime(length=n, sampling_interval=whole ps, t0=...) must have, worked out from
    the arguments alone (so that the oracle does not rest on the attributes of the object under test)"""
    kw = b["kw"]
    si, u = kw.get("sampling_interval"), kw.get("time_unit")
    if "length" not in kw or u is None or "duration" in kw:
        return None
    f = FACT[u]
    if isinstance(si, dict):
        dt = si["t"]["p"][0]
    elif isinstance(si, int):
        dt = si * f
    else:
        return None
    t0 = kw.get("t0", 0)
    if isinstance(t0, dict):
        t0 = t0["t"]["p"][0]
    elif isinstance(t0, int):
        t0 = t0 * f
    else:
        t0 = rne(Fraction(float(t0) * float(f)))
    n = kw["length"]
    return {"samples": [t0 + i * dt for i in range(n)], "t0": t0, "dt": dt, "dur": n * dt, "u": u}


def is_sorted(p):
    return all(p[i] <= p[i + 1] for i in range(len(p) - 1))


def fail(key, what, o, req):
    return Fail(key, what, o, req)


def expect_positions(key, o, p, want, what):
    """o is an obs of selected times: must be exactly p at positions `want`"""
    if o["t"] != "times":
        return fail(key, what + ": no time array returned (%s)" % (o.get("what") or o.get("cls")), o, [p[k] for k in want])
    if o["p"] != [p[k] for k in want]:
        return fail(key, what, o, {"positions": want, "times": [p[k] for k in want]})
    return None


def oracle(a, o):
    """None when the property's statement holds on this call, else Fail"""
    k = a["act"]
    if o["t"] == "other":
        return fail("C03/%s/result-kind" % k, "unexpected kind of result: %s" % o["what"], o, "see statement")
    if k in ("tget", "uget"):
        p = a["self"]["p"] if k == "tget" else a["axis"]["samples"]
        u = a["self"]["u"] if k == "tget" else a["axis"]["u"]
        n = len(p)
        key = "C03/%s.__getitem__/int/%s" % ("TimeArray" if k == "tget" else "UniformTime", a.get("ty") or "int")
        if not -n <= a["k"] < n:
            return None if o["t"] == "err" else fail(key, "position outside accepted", o, "IndexError")
        want = {"p": [p[a["k"] % n]], "u": u, "sc": True}
        if o["t"] != "times" or (o["p"], o["u"], o["sc"]) != (want["p"], want["u"], want["sc"]):
            return fail(key, "integer selection is not the time stored at that position (0-d, in the unit of the object)", o, want)
        return None
    if k in ("tindex", "tat"):
        s = a["self"]
        p = s["p"]
        q, qsc = arg_ps(a["q"], s["u"])
        if len(q) != 1:
            return None  # array queries are not in the statement (compared with the model only)
        t = q[0]
        mode = a.get("mode", "closest")
        key = "C03/TimeArray.index_at/%s" % mode
        if mode == "closest":
            if a.get("tol") is None:
                tol = [1]
            else:
                tol, _ = arg_ps(a["tol"], s["u"])
            if len(tol) != 1:
                return None
            want = [i for i, x in enumerate(p) if abs(x - t) <= tol[0]]
            if k == "tat":
                return expect_positions("C03/TimeArray.at", o, p, want, "times returned by at() are not the samples within the tolerance")
            if o["t"] != "idx" or o.get("l") != want:
                return fail(key, "positions returned differ from {k : |t_k - t| <= tol}", o, want)
            return None
        if mode not in ("before", "after"):
            return None if o["t"] == "err" else fail(key, "invalid mode accepted", o, "ValueError")
        if mode == "before":
            c = [i for i, x in enumerate(p) if x <= t]
            ext = max((p[i] for i in c), default=None)
        else:
            c = [i for i, x in enumerate(p) if x >= t]
            ext = min((p[i] for i in c), default=None)
        if not c:
            if o["t"] == "idx" and o.get("l") == []:
                return None
            return fail(key, "no sample satisfies the relation but a position was returned", o, [])
        ok = [i for i in c if p[i] == ext]
        if o["t"] != "idx" or "k" not in o or o["k"] not in ok:
            return fail(key, "position returned is not an extremal position of the relation", o, ok)
        return None
    if k in ("tslice", "tduring"):
        s = a["self"]
        p = s["p"]
        e = spec_epochs(a["e"])
        if e == "err":
            return None if o["t"] == "err" else fail("C03/Epochs/invalid", "invalid Epochs arguments accepted", o, "exception")
        if not e["sc"] or not is_sorted(p):
            return None
        st, sp = e["start"][0], e["stop"][0]
        want = [i for i, x in enumerate(p) if st <= x < sp]
        key = "C03/TimeArray.slice_during/%s" % ("duplicates" if len(set(p)) < len(p) else "sorted")
        if k == "tduring":
            return expect_positions(key, o, p, want, "during() does not return exactly the samples with start <= t < stop")
        if o["t"] != "slice" or list(range(len(p)))[o["lo"]:o["hi"]] != want:
            return fail(key, "slice does not select exactly the positions with start <= t_k < stop", o, want)
        return None
    if k in ("uindex", "uat", "uslice", "uduring"):
        ax = a["axis"]
        exp = expected_axis(a["build"])
        if exp is not None and exp != ax:
            return fail("C03/UniformTime/state", "samples / t0 / interval / duration of the axis (built%s) differ from its specification"
                        % (", then derived by %s" % a["dv"] if a.get("dv") else ""), {k_: ax[k_] for k_ in ("t0", "dt", "dur", "u")},
                        {k_: exp[k_] for k_ in ("t0", "dt", "dur", "u")})
        p, t0, dt, dur = ax["samples"], ax["t0"], ax["dt"], ax["dur"]
        n = len(p)
        wf = axis_wf(ax)
        cls = "well-formed" if wf else "ill-formed-axis(C02)"
        if dt <= 0:
            return None
        if k in ("uindex", "uat"):
            key = "C03/UniformTime.index_at/%s" % cls
            q, qsc = arg_ps(a["q"], ax["u"])
            inside = all(t0 <= t < t0 + dur for t in q)
            if not inside:
                return None if (o["t"] == "err" and o["e"] == "XValue") else \
                    fail(key + "/outside", "an instant outside [t0, t0+duration) was not refused with ValueError", o, "ValueError")
            want = [(t - t0) // dt for t in q]
            if wf and not all(p[i] <= t < p[i] + dt for i, t in zip(want, q)):
                return fail(key, "internal: bin arithmetic", want, None)
            if k == "uat":
                if any(i >= n for i in want):
                    return None
                return expect_positions("C03/UniformTime.at/%s" % cls, o, p, want, "at() does not return the samples of the bins containing t")
            if a["boolean"]:
                if any(i >= n for i in want):
                    return None
                m = [i in want for i in range(n)]
                return None if (o["t"] == "mask" and o["m"] == m) else fail(key, "boolean mask differs from the bins containing t", o, m)
            got = [o["k"]] if (o["t"] == "uidx" and "k" in o) else (o.get("l") if o["t"] == "uidx" else None)
            if got != want or ("k" in o) != qsc:
                return fail(key, "position differs from the bin [t_i, t_i + interval) containing t", o, want)
            return None
        e = spec_epochs(a["e"])
        if e == "err":
            return None if o["t"] == "err" else fail("C03/Epochs/invalid", "invalid Epochs arguments accepted", o, "exception")
        if not e["sc"]:
            return None
        st, sp = e["start"][0], e["stop"][0]
        key = "C03/UniformTime.slice_during/%s" % cls
        want = [i for i, x in enumerate(p) if st <= x < sp]
        inside = t0 <= st < t0 + dur and t0 <= sp < t0 + dur
        if o["t"] == "err":
            if not inside and o["e"] == "XValue":
                return None            # an epoch not inside the covered range is refused
            if not wf:
                return None            # positions beyond the samples: consequence of the C02 finding
            return fail(key, "an epoch inside the covered range was refused", o, want)
        if k == "uduring":
            return expect_positions(key, o, p, want, "during() does not return exactly the samples with start <= t < stop")
        if o["t"] != "slice" or list(range(n))[o["lo"]:o["hi"]] != want:
            return fail(key, "slice does not select exactly the positions with start <= t_k < stop", o, want)
        return None
    if k == "stime":
        s = a["series"]
        n = s["shape"][-1]
        want = {"samples": [s["t0"] + i * s["dt"] for i in range(n)], "t0": s["t0"], "dt": s["dt"], "dur": n * s["dt"], "u": s["u"]}
        if o["t"] != "axis" or o["axis"] != want:
            return fail("C03/TimeSeries.time", "the series' time axis is not t0 + k*interval for its n samples", o, want)
        return None
    if k in ("sat", "sint", "sduring", "sduring_idx"):
        s = a["series"]
        n = s["shape"][-1]
        data = np.array(s["data"], dtype=np.int64).reshape(s["shape"])
        cols = columns(data)
        p = [s["t0"] + i * s["dt"] for i in range(n)]
        if k == "sint":
            kk = a["k"]
            if -n <= kk < n:
                return None if (o["t"] == "col" and o["c"] == cols[kk % n]) else \
                    fail("C03/TimeSeries.__getitem__/int", "integer selection is not the data at that position", o, cols[kk % n])
            return None if o["t"] == "err" else fail("C03/TimeSeries.__getitem__/int", "position outside the series accepted", o, "IndexError")
        if k == "sat":
            key = "C03/TimeSeries.at"
            q, qsc = arg_ps(a["q"], s["u"])
            if not all(p[0] <= t < p[0] + n * s["dt"] for t in q):
                return None if (o["t"] == "err" and o["e"] == "XValue") else fail(key + "/outside", "instant outside the series not refused", o, "ValueError")
            want = [(t - p[0]) // s["dt"] for t in q]
            if qsc:
                return None if (o["t"] == "col" and o["c"] == cols[want[0]]) else fail(key, "data returned are not the data of the bin containing t", o, cols[want[0]])
            return None if (o["t"] == "cols" and o["l"] == [cols[i] for i in want]) else fail(key, "data returned are not the data of the bins containing t", o, [cols[i] for i in want])
        e = spec_epochs(a["e"])
        key = "C03/TimeSeries.during"
        if e == "err":
            return None if o["t"] == "err" else fail("C03/Epochs/invalid", "invalid Epochs arguments accepted", o, "exception")
        if k == "sduring_idx":
            key = "C03/TimeSeries.during/indexed-epochs"
            e = index_spec(e, a["key"])
            if e == "ierr" or not e["start"]:
                return None if o["t"] == "err" else fail(key, "an impossible / empty selection of epochs was accepted", o, "exception")
        lo, hi = p[0], p[0] + n * s["dt"]
        inside = all(lo <= x < hi for x in e["start"] + e["stop"])
        sel = [[i for i, x in enumerate(p) if st <= x < sp] for st, sp in zip(e["start"], e["stop"])]
        if o["t"] == "err":
            if not inside and o["e"] == "XValue":
                return None
            if not e["sc"] and (len(set(b - a_ for a_, b in zip(e["start"], e["stop"]))) > 1 or len(set(len(x) for x in sel)) > 1):
                return None     # unequal durations / unequal numbers of samples cannot be stacked
            return fail(key, "an epoch inside the series was refused", o, sel)
        if o["t"] != "during":
            return fail(key, "no series returned", o, sel)
        if e["sc"]:
            got, wantd = o.get("one"), [cols[i] for i in sel[0]]
        else:
            got, wantd = o.get("rows"), [[cols[i] for i in r] for r in sel]
        if got != wantd:
            return fail(key + "/data", "data returned are not the data at the positions with start <= t_k < stop", o, wantd)
        m = len(sel[0])
        if o["t0"] != e["off"] or o["u"] != s["u"]:
            return fail(key + "/t0", "t0 / unit of the result are not the epoch offset in the series' unit", o, {"t0": e["off"], "u": s["u"]})
        if o["dt"] != s["dt"]:
            return fail(key + "/interval", "sampling interval of the result differs from the series'", o, s["dt"])
        if o["time"] != [e["off"] + i * s["dt"] for i in range(m)]:
            return fail(key + "/time", "time axis of the result is not offset + k*interval over the selected samples", o,
                        [e["off"] + i * s["dt"] for i in range(m)])
        return None
    if k == "eget":
        ev = a["events"]
        p = ev["time"]["p"]
        n = len(p)
        d = {kx: np.array(v["v"], dtype=np.int64).reshape(v["shape"]) for kx, v in ev["data"].items()}
        recs = ev_records(d, n)
        key = a["key"]
        kk = "C03/Events.__getitem__/%s" % key["kind"]
        if key["kind"] == "int":
            if not -n <= key["k"] < n:
                return None if o["t"] == "err" else fail(kk, "position outside accepted", o, "IndexError")
            want = [key["k"] % n]
            if any(len(v["shape"]) > 1 for v in ev["data"].values()):
                kk += "/multidim"
        elif key["kind"] == "float":
            t = arg_ps({"kind": "float", "sc": True, "v": [key["x"]]}, ev["time"]["u"])[0][0]
            want = [i for i, x in enumerate(p) if abs(x - t) <= 1]
        else:
            e = spec_epochs(key["e"])
            if e == "err":
                return None if o["t"] == "err" else fail("C03/Epochs/invalid", "invalid Epochs arguments accepted", o, "exception")
            if not e["sc"] or not is_sorted(p):
                return None
            want = [i for i, x in enumerate(p) if e["start"][0] <= x < e["stop"][0]]
        if o["t"] != "events":
            return fail(kk, "selection raised / returned no Events", o, want)
        if o["p"] != [p[i] for i in want] or o["d"] != [recs[i] for i in want]:
            return fail(kk, "times / data returned are not those stored at the selected positions", o,
                        {"positions": want, "times": [p[i] for i in want], "data": [recs[i] for i in want]})
        for kx, v in ev["data"].items():
            if o["shapes"][kx] != [len(want)] + list(v["shape"][1:]):
                return fail(kk, "per-event data lose their shape", o, [len(want)] + list(v["shape"][1:]))
        return None
    if k == "epochs":
        e = spec_epochs(a["e"])
        if e == "err":
            return None if o["t"] == "err" else fail("C03/Epochs/invalid", "invalid Epochs arguments accepted", o, "exception")
        if o["t"] != "epochs" or (o["start"], o["stop"], o["sc"], o["off"]["p"][0], o["u"]) != (e["start"], e["stop"], e["sc"], e["off"], e["u"]):
            return fail("C03/Epochs/construction", "start / stop / offset differ from start = t0 - offset, stop = start + duration", o, e)
        return None
    if k == "eidx":
        e = spec_epochs(a["e"])
        if e == "err":
            return None if o["t"] == "err" else fail("C03/Epochs/invalid", "invalid Epochs arguments accepted", o, "exception")
        e = index_spec(e, a["key"])
        kk = "C03/Epochs.__getitem__/%s" % a["key"]["kind"]
        if e == "ierr":
            return None if o["t"] == "err" else fail(kk, "an index outside the epochs was accepted", o, "IndexError")
        if o["t"] != "epochs" or (o["start"], o["stop"], o["sc"], o["off"]["p"][0], o["u"]) != (e["start"], e["stop"], e["sc"], e["off"], e["u"]):
            return fail(kk, "the selected epochs do not keep the start / stop of the selected positions and the offset / unit of the object",
                        o, e)
        if "dur" in o and o["dur"] != [b - a_ for a_, b in zip(e["start"], e["stop"])]:
            return fail(kk + "/duration", "duration of the selected epochs is not stop - start", o, [b - a_ for a_, b in zip(e["start"], e["stop"])])
        return None
    return None


# ------------------------------------------------------------------ generators
def gen_unit(rng):
    return rng.choice(["ps", "ns", "us", "ms", "ms", "s", "s", "m", "h", "ms", "s", "D", "W"])


def other_unit(rng, u):
    return rng.choice([x for x in UNITS if x != u])


def gen_times(rng, u, kind=None, nbig=None):
    """a 1-d time array description: grid g (ps), positions; sorted / duplicates / unsorted"""
    f = FACT[u]
    g = rng.choice([f, f, f // 2 if f > 1 else 1, f // 4 if f > 3 else 1, 7, 1, 3 * f])
    if g >= 2 ** 52:             # days / weeks: keep 40 grid steps far inside the 2^62 ps range
        g = rng.choice([f // 24, f // 100, 2 ** 52 + 1])
    kind = kind or rng.choice(["strict", "strict", "dups", "dups", "unsorted"])
    n = rng.randint(1, 8)
    if nbig:
        n = nbig
    while 3 * (n + 12) * g >= 2 ** 60:
        g = g // 10 + 1
    base = rng.randint(-6, 6)
    ks = []
    cur = base
    for _ in range(n):
        ks.append(cur)
        cur += rng.choice([1, 1, 2, 3]) if kind == "strict" else rng.choice([0, 0, 1, 2])
    if kind == "unsorted":
        rng.shuffle(ks)
    shift = big_shift(rng) if rng.random() < 0.2 else 0
    p = [k * g + shift for k in ks]
    if max(abs(x) for x in p) + 4 * g >= 2 ** 62 - 2 ** 58:      # stay inside the property's range
        p = [k * g for k in ks]
    return {"p": p, "u": u, "sc": False}, g


def big_shift(rng):
    """a picosecond offset beyond the float64 integer range (2^53 ps ~ 2.5 h) but far inside int64:
    arithmetic done in floats instead of int64 shows up there"""
    if rng.random() < 0.25:
        return rng.choice([-1, 1]) * (2 ** 61 + 2 ** 60 - rng.randint(0, 2 ** 40))   # close to the 2^62 ps limit
    return rng.choice([-1, 1]) * (2 ** rng.randint(53, 60) + rng.randint(-5, 5))


def gen_instant(rng, p, g):
    """an instant (ps) on / between / before / after the samples of p"""
    lo, hi = min(p), max(p)
    r = rng.random()
    if r < 0.35:
        return rng.choice(p)
    if r < 0.6:
        x = rng.choice(p)
        return x + rng.choice([-1, 1]) * rng.choice([1, 1, 2, max(1, g // 2), max(1, g // 3), max(1, g - 1)])
    if r < 0.75:
        return lo - rng.choice([1, g, 2 * g + 1])
    if r < 0.9:
        return hi + rng.choice([1, g, 2 * g + 1])
    return rng.randint(lo - g, hi + g)


def gen_uinstant(rng, t0, dt, dur, inside=None):
    """an instant relative to a uniform axis: on a sample, inside a bin, at the last picosecond of a
    bin, at / beyond the end of the covered range, before t0"""
    nb = max(1, -(-dur // dt))
    r = rng.random()
    if inside is True or (inside is None and r < 0.75):
        i = rng.randint(0, nb - 1)
        t = t0 + i * dt + rng.choice([0, 0, 1, dt // 2, dt - 1, rng.randint(0, dt - 1)])
        return min(t, t0 + dur - 1)
    if r < 0.85:
        return t0 + dur + rng.choice([0, 0, 1, dt])
    return t0 - rng.choice([1, 1, dt, 2 * dt + 1])


def express(rng, t, u, scalar=True, allow_bare=True):
    """express the instant(s) t (list of ps) as an argument: a bare number in unit u when exactly
    representable, else a time object in some unit (usually not u)"""
    f = FACT[u]
    r = rng.random()
    if allow_bare and all(x % f == 0 for x in t) and r < 0.3:
        return {"kind": "int", "sc": scalar, "v": [x // f for x in t]}
    if allow_bare and r < 0.55:
        vals = [x / f for x in t]
        if all(rne(Fraction(v * float(f))) == x for v, x in zip(vals, t)):
            return {"kind": "float", "sc": scalar, "v": [float(v).hex() for v in vals]}
    return {"kind": "time", "t": {"p": list(t), "u": other_unit(rng, u) if rng.random() < 0.8 else u, "sc": scalar}}


def gen_tol(rng, u, g):
    r = rng.random()
    if r < 0.3:
        return None
    f = FACT[u]
    v = rng.choice([0, 0, 1, 2, g // 2, g, g + 1, 2 * g, -1, -g, 2 ** 55 + 1])
    return express(rng, [v], u)


def gen_eargs(rng, u, p, g, array=False, lo=None, hi=None, uni=None):
    """arguments of Epochs(...) around the samples p (ps); lo/hi restrict the ends (uniform axes);
    uni = (t0, dt, dur) draws the ends relative to a uniform axis"""
    def inst():
        if uni is not None:
            return gen_uinstant(rng, *uni, inside=True if lo is not None else None)
        for _ in range(20):
            x = gen_instant(rng, p, g)
            if lo is None or lo <= x < hi:
                return x
        return rng.choice(p)
    n = rng.randint(1, 3) if array else 1
    starts = [inst() for _ in range(n)]
    form = rng.choice(["start-stop", "t0-stop", "t0-duration", "t0-offset-duration", "start-duration", "start-stop"])
    tu = rng.choice([u, u, u, None])
    uu = tu or "s"
    sc = not array
    ea = {"unit": tu}

    def ex(t, scalar):
        return express(rng, t, uu, scalar=scalar, allow_bare=True)
    if array:
        d = rng.choice([g, 2 * g, 2 * g + 1, 3 * g, max(1, g // 2)])
        if lo is not None:      # keep the stops inside as well
            starts = [max(lo, min(x, hi - 1 - d)) for x in starts]
            if rng.random() < 0.5:   # same phase relative to the grid: equal numbers of samples
                starts = [lo + ((x - lo) // g) * g + (starts[0] - lo) % g for x in starts]
                starts = [max(lo, min(x, hi - 1 - d)) for x in starts]
        stops = [s + d for s in starts]
        if rng.random() < 0.12:
            stops[-1] += rng.choice([1, g])         # unequal durations
    else:
        stops = [inst() if rng.random() < 0.75 else starts[0] + rng.choice([0, 1, g, -g])]
        if lo is not None and not (lo <= stops[0] < hi) and rng.random() < 0.7:
            stops = [inst()]
    if form in ("start-stop", "t0-stop"):
        ea["start" if form == "start-stop" else "t0"] = ex(starts, sc)
        ea["stop"] = ex(stops, sc)
    elif form == "t0-duration":
        ea["t0"] = ex(starts, sc)
        durs = [b - a_ for a_, b in zip(starts, stops)]
        ea["duration"] = ex([durs[0]], True) if len(set(durs)) == 1 and rng.random() < 0.7 else ex(durs, sc)
    elif form == "t0-offset-duration":
        off = rng.choice([-2 * g, -g, -1, 1, g, 3 * g])
        ea["offset"] = ex([off], True)
        ea["t0"] = ex([s + off for s in starts], sc)
        durs = [b - a_ for a_, b in zip(starts, stops)]
        ea["duration"] = ex([durs[0]], True) if len(set(durs)) == 1 else ex(durs, sc)
    else:
        ea["start"] = ex(starts, sc)
        durs = [b - a_ for a_, b in zip(starts, stops)]
        ea["duration"] = ex([durs[0]], True) if len(set(durs)) == 1 and rng.random() < 0.7 else ex(durs, sc)
        if rng.random() < 0.3:
            ea["offset"] = ex([rng.choice([-g, g, 1])], True)
    return ea


def gen_bad_eargs(rng, u):
    one = {"kind": "int", "sc": True, "v": [1]}
    two = {"kind": "int", "sc": False, "v": [1, 2]}
    three = {"kind": "int", "sc": False, "v": [1, 2, 3]}
    return rng.choice([
        {"unit": u}, {"unit": u, "t0": one}, {"unit": u, "t0": one, "stop": one, "duration": one},
        {"unit": u, "t0": one, "stop": one, "offset": two}, {"unit": u, "t0": one, "stop": two},
        {"unit": u, "start": two, "stop": three}, {"unit": u, "t0": one, "duration": two},
        {"unit": u, "start": two, "duration": three}, {"unit": "x", "t0": one, "stop": one},
        {"unit": u, "start": two, "duration": two}, {"unit": u, "start": two, "stop": two, "t0": three}])


def gen_axis_build(rng, nbig=None):
    """a constructor call of UniformTime; most are well-formed (integer-picosecond interval)"""
    u = gen_unit(rng)
    f = FACT[u]
    n = rng.randint(1, 9) if rng.random() < 0.9 else rng.randint(10, 40)
    r = rng.random()
    t0 = rng.choice([0, 0, -3, 2, 5, -7])
    t0arg = rng.choice([t0, float(t0) + rng.choice([0.0, 0.5, 0.25])]) if rng.random() < 0.7 else \
        {"kind": "time", "t": {"p": [t0 * f + rng.randint(-5, 5)], "u": other_unit(rng, u), "sc": True}}
    if rng.random() < 0.2:      # far from 0: beyond 2^53 ps
        t0arg = {"kind": "time", "t": {"p": [big_shift(rng)], "u": other_unit(rng, u), "sc": True}}
        r = 0.4 + 0.3 * rng.random()        # interval given as a whole number of picoseconds
    if nbig:
        n = nbig
    if rng.random() < 0.06:     # an interval beyond 2^53 ps, few samples
        n = rng.randint(1, 4)
        dtps = 2 ** rng.randint(53, 58) + rng.choice([0, 1, 3])
        return {"kw": {"length": n, "sampling_interval": {"kind": "time", "t": {"p": [dtps], "u": rng.choice(UNITS), "sc": True}},
                       "t0": rng.choice([0, -3, {"kind": "time", "t": {"p": [-2 ** 59 - 5], "u": "ps", "sc": True}}]), "time_unit": u}}
    if r < 0.4:
        dt = rng.choice([1, 2, 3, 5, 10])
        kw = {"length": n, "sampling_interval": dt, "t0": t0arg, "time_unit": u}
    elif r < 0.7:
        dtps = rng.choice([7, 13, f // 4 if f > 3 else 3, f // 2 if f > 1 else 1, 3 * f, 813270000001, rng.randint(1, 10 ** 6)])
        kw = {"length": n, "sampling_interval": {"kind": "time", "t": {"p": [dtps], "u": rng.choice(UNITS), "sc": True}},
              "t0": t0arg, "time_unit": u}
    elif r < 0.82:
        dt = rng.choice([1, 2, 3])
        kw = {"duration": dt * n, "sampling_interval": dt, "t0": t0arg, "time_unit": u}
    elif r < 0.9:
        kw = {"length": n, "sampling_interval": rng.choice([0.5, 0.25, 1.5, 0.125]), "t0": t0arg, "time_unit": u}
    else:
        # constructions C02 knows to be ill-formed (more samples than `length`, duration not n*interval)
        kw = rng.choice([{"length": 100, "sampling_interval": 2.2, "time_unit": "m"},
                         {"duration": 10, "length": 3},
                         {"duration": 7, "sampling_interval": 2, "t0": t0arg, "time_unit": u},
                         {"length": 7, "duration": 1, "time_unit": u}])
    return {"kw": kw}


def gen_series(rng, nbig=None):
    u = gen_unit(rng)
    f = FACT[u]
    n = rng.randint(1, 9) if rng.random() < 0.9 else rng.randint(10, 40)
    lead = rng.choice([[], [], [2], [3], [2, 2], [1], [2, 3]])
    if nbig:
        n, lead = nbig, rng.choice([[], [2]])
    shape = lead + [n]
    tot = int(np.prod(shape))
    dt = rng.choice([f, 2 * f, f // 4 if f > 3 else 3, 7, 813270000001, 3 * f, rng.randint(1, 10 ** 6)])
    t0 = rng.choice([0, 0, -3 * dt, 5 * dt + rng.randint(0, 3), -f - 1, 2 * f])
    if rng.random() < 0.2:
        t0 = big_shift(rng)
    if rng.random() < 0.05:
        dt = 2 ** rng.randint(53, 56) + rng.choice([0, 1, 3])
        t0 = rng.choice([0, -dt, 5])
    while (n + 2) * dt >= 2 ** 60:
        dt = dt // 10 + 1
    if abs(t0) + (n + 2) * dt >= 2 ** 62 - 2 ** 58:
        t0 = 0
    dv = rng.choice(SERIES_DV)
    if dv == "float_interval":
        ff = float(f)
        if not (rne(Fraction((dt / ff) * ff)) == dt and rne(Fraction((t0 / ff) * ff)) == t0 and
                rne(Fraction((n * (dt / ff)) * ff)) == n * dt and dt < 2 ** 52 and abs(t0) < 2 ** 52):
            dv = None
    if dv:
        return {"data": [rng.randint(-99, 99) for _ in range(tot)], "shape": shape, "dt": dt, "t0": t0, "u": u, "dv": dv}
    return {"data": [rng.randint(-99, 99) for _ in range(tot)], "shape": shape, "dt": dt, "t0": t0, "u": u}


def gen_events(rng):
    u = gen_unit(rng)
    tm, g = gen_times(rng, u, kind=rng.choice(["strict", "dups", "dups", "unsorted"]))
    n = len(tm["p"])
    data = {}
    for k, tail in (("a", []), ("b", rng.choice([[2], [1], [3]])), ("c", rng.choice([[2, 2], [1, 2]]))):
        if rng.random() < 0.6:
            shape = [n] + tail
            data[k] = {"v": [rng.randint(-99, 99) for _ in range(int(np.prod(shape)))], "shape": shape}
    return {"time": tm, "data": data}, g


def gen_action(rng, ts, nbig=None):
    """nbig: a sample count beyond the usual 1..40 (1025, 2049, 4097, ...) for the object indexed"""
    a = gen_action0(rng, ts, nbig)
    k = a["act"]
    if k in ("tindex", "tat", "tslice", "tduring", "tget"):
        dv = rng.choice(TIME_DV)
        if dv:
            a["dv"] = dv
        if k == "tindex" and rng.random() < 0.3:
            a["pos"] = True
    e = a.get("e") or (a.get("key") or {}).get("e")
    if e is not None and rng.random() < 0.3:
        e["pos"] = True
    return a


def gen_action0(rng, ts, nbig=None):
    r = rng.random()
    if nbig:
        r = rng.choice([0.1, 0.45, 0.7])
    via = "getitem" if rng.random() < 0.25 else "method"
    if r < 0.30:
        u = gen_unit(rng)
        s, g = gen_times(rng, u, kind=rng.choice(["strict", "dups"]) if nbig else None, nbig=nbig)
        r2 = rng.random()
        if r2 < 0.6:
            if rng.random() < 0.1:
                m = rng.choice([len(s["p"]), len(s["p"]) + 1, 2])
                q = express(rng, [gen_instant(rng, s["p"], g) for _ in range(m)], u, scalar=False)
            else:
                q = express(rng, [gen_instant(rng, s["p"], g)], u, scalar=rng.random() < 0.85)
            mode = rng.choice(["closest", "closest", "before", "after", "before", "after", "nearest"])
            a = {"act": "tindex", "self": s, "q": q, "mode": mode, "tol": gen_tol(rng, u, g) if mode == "closest" else None}
            if rng.random() < 0.3 and mode == "closest":
                a = {"act": "tat", "self": s, "q": q, "tol": a["tol"]}
                if a["tol"] is None and q["kind"] == "float" and q["sc"] and rng.random() < 0.5:
                    a["via"] = "getitem"
            return a
        if rng.random() < 0.15:
            kk = rng.randint(-len(s["p"]) - 1, len(s["p"]))
            return {"act": "tget", "self": s, "k": kk, "ty": gen_int_type(rng, kk)}
        e = gen_bad_eargs(rng, u) if rng.random() < 0.05 else gen_eargs(rng, u, s["p"], g, array=rng.random() < 0.08)
        return {"act": rng.choice(["tslice", "tduring"]), "self": s, "e": e, "via": via}
    if r < 0.6:
        while True:
            b = gen_axis_build(rng, nbig)
            dv = rng.choice(AXIS_DV)
            try:
                ax = axis_state(derive_axis(ts, mk_axis(ts, b), dv))
            except Exception:  # noqa  (sub-picosecond interval: C02's business)
                continue
            exp = expected_axis(b)
            if exp is not None and abs(exp["t0"]) + abs(exp["dur"]) >= 2 ** 62 - 2 ** 58:
                continue            # beyond the int64 picosecond range of the property
            if ax["dt"] > 0 and 1 <= len(ax["samples"]) <= 5000 and max(abs(ax["t0"]), abs(ax["t0"] + ax["dur"])) < 2 ** 62 - 2 ** 58:
                break
        p, g = ax["samples"], ax["dt"]
        r2 = rng.random()
        if r2 < 0.05:
            return {"act": "uwf", "build": b, "axis": ax, "dv": dv}
        if r2 < 0.11:
            kk = rng.randint(-len(p) - 1, len(p))
            return {"act": "uget", "build": b, "axis": ax, "dv": dv, "k": kk, "ty": gen_int_type(rng, kk)}
        span = p + [ax["t0"] + ax["dur"] - 1, ax["t0"] + ax["dur"]]
        uni = (ax["t0"], ax["dt"], ax["dur"])
        if r2 < 0.6:
            m = 1 if rng.random() < 0.8 else rng.randint(2, 4)
            allin = True if (m > 1 and rng.random() < 0.7) else None
            q = express(rng, [gen_uinstant(rng, *uni, inside=allin) for _ in range(m)], ax["u"],
                        scalar=(m == 1 and rng.random() < 0.9))
            if rng.random() < 0.3:
                ok_key = q["kind"] == "time" or (q["kind"] == "float" and q["sc"])   # keys __getitem__ reads as times
                return {"act": "uat", "build": b, "axis": ax, "q": q, "via": via if ok_key else "method", "dv": dv}
            return {"act": "uindex", "build": b, "axis": ax, "q": q, "boolean": rng.random() < 0.15, "dv": dv}
        inside = rng.random() < 0.75
        e = gen_eargs(rng, ax["u"], span, g, array=rng.random() < 0.05, uni=uni,
                      lo=ax["t0"] if inside else None, hi=ax["t0"] + ax["dur"] if inside else None)
        return {"act": rng.choice(["uslice", "uduring"]), "build": b, "axis": ax, "e": e, "via": via, "dv": dv}
    if r < 0.85:
        s = gen_series(rng, nbig)
        n = s["shape"][-1]
        p = [s["t0"] + i * s["dt"] for i in range(n)]
        span = p + [p[-1] + s["dt"] - 1, p[-1] + s["dt"]]
        r2 = rng.random()
        if r2 < 0.06:
            return {"act": "stime", "series": s}
        if r2 < 0.3:
            m = 1 if rng.random() < 0.8 else rng.randint(2, 3)
            allin = True if (m > 1 and rng.random() < 0.7) else None
            q = express(rng, [gen_uinstant(rng, p[0], s["dt"], n * s["dt"], inside=allin) for _ in range(m)], s["u"],
                        scalar=(m == 1 and rng.random() < 0.9))
            return {"act": "sat", "series": s, "q": q, "via": via if q["kind"] == "time" else "method"}
        if r2 < 0.4:
            kk = rng.randint(-n - 1, n)
            return {"act": "sint", "series": s, "k": kk, "ty": gen_int_type(rng, kk)}
        inside = rng.random() < 0.8
        e = gen_eargs(rng, s["u"], span, s["dt"], array=rng.random() < 0.4, uni=(p[0], s["dt"], n * s["dt"]),
                      lo=p[0] if inside else None, hi=p[0] + n * s["dt"] if inside else None)
        if rng.random() < 0.03:
            e = gen_bad_eargs(rng, s["u"])
        if rng.random() < 0.3:       # the epochs are indexed / sliced / iterated first; built with an explicit offset
            e = gen_offset_eargs(rng, s["u"], span, s["dt"], array=rng.random() < 0.85, uni=(p[0], s["dt"], n * s["dt"]),
                                 lo=p[0] if inside else None, hi=p[0] + n * s["dt"] if inside else None)
            return {"act": "sduring_idx", "series": s, "e": e, "key": gen_ekey(rng, e), "via": via,
                    "sub": rng.random() < 0.2, "it": rng.random() < 0.2}
        return {"act": "sduring", "series": s, "e": e, "via": via}
    if r < 0.95:
        ev, g = gen_events(rng)
        p = ev["time"]["p"]
        n = len(p)
        r2 = rng.random()
        if r2 < 0.4:
            kk = rng.randint(-n - 1, n)
            key = {"kind": "int", "k": kk, "ty": gen_int_type(rng, kk)}
        elif r2 < 0.65:
            t = gen_instant(rng, p, g)
            key = {"kind": "float", "x": float(t / FACT[ev["time"]["u"]]).hex()}
        else:
            key = {"kind": "epochs", "e": gen_eargs(rng, ev["time"]["u"], p, g, array=rng.random() < 0.05)}
        return {"act": "eget", "events": ev, "key": key}
    u = gen_unit(rng)
    s, g = gen_times(rng, u)
    if rng.random() < 0.5:
        e = gen_offset_eargs(rng, u, s["p"], g, array=rng.random() < 0.85)
        return {"act": "eidx", "e": e, "key": gen_ekey(rng, e), "sub": rng.random() < 0.2, "it": rng.random() < 0.2}
    e = gen_bad_eargs(rng, u) if rng.random() < 0.4 else gen_eargs(rng, u, s["p"], g, array=rng.random() < 0.5)
    return {"act": "epochs", "e": e}


def gen_offset_eargs(rng, u, p, g, array=True, **kw):
    """Epochs arguments with an explicit (almost always non-zero, either sign) offset"""
    for _ in range(60):
        e = gen_eargs(rng, u, p, g, array=array, **kw)
        if "offset" in e:
            return e
    return e


def gen_ekey(rng, ea):
    """an index into the epochs described by ea: integer (also negative / outside), slice, list, boolean mask"""
    sp = spec_epochs(ea)
    n = len(sp["start"]) if isinstance(sp, dict) else 2
    r = rng.random()
    if r < 0.4:
        kk = rng.randint(-n, n - 1) if rng.random() < 0.85 else rng.choice([n, -n - 1])
        return {"kind": "int", "k": kk, "ty": gen_int_type(rng, kk)}
    if r < 0.65:
        return {"kind": "slice", "lo": rng.choice([None, 0, 1, -1, -n, n]), "hi": rng.choice([None, None, 1, n, -1, n + 2])}
    if r < 0.85:
        return {"kind": "list", "l": [rng.randint(-n, n - 1) if rng.random() < 0.93 else n for _ in range(rng.randint(1, 3))]}
    return {"kind": "mask", "m": [rng.random() < 0.6 for _ in range(n if rng.random() < 0.9 else n + 1)]}


# ------------------------------------------------------------------ long objects (oracle only: too long for K)
BIG_N = [1025, 2049, 4097, 8191, 65537, 100003, 2 ** 17 + 1, 10 ** 6]


def big_times(a):
    """the sample times of a long object, from its description (numpy int64, exact)"""
    k = np.arange(a["n"], dtype=np.int64)
    if a.get("dup"):
        k = k // 2
    return np.int64(a["t0"]) + np.int64(a["dt"]) * k


def gen_big(rng, sizes):
    n = rng.choice(sizes)
    fam = rng.choice(["u", "u", "s", "s", "t", "t", "e"])
    u = gen_unit(rng)
    f = FACT[u]
    dt = rng.choice([1, 7, 1000, max(1, f // 4), f, 813270000001, 2 ** 33 + 1])
    while n * dt >= 2 ** 60:
        dt = max(1, dt // 1000)
    t0 = rng.choice([0, -3 * dt, 5 * dt + 2, big_shift(rng), -f - 1])
    if abs(t0) + (n + 2) * dt >= 2 ** 62 - 2 ** 58:
        t0 = -3 * dt
    a = {"act": "big", "fam": fam, "n": n, "t0": t0, "dt": dt, "u": u, "qu": rng.choice(UNITS),
         "dup": fam in ("t", "e") and rng.random() < 0.6}
    nk = (n + 1) // 2 if a["dup"] else n       # number of distinct times

    def inst(inside=None):
        # around positions near block boundaries / powers of two / the ends
        i = rng.choice([0, 1, nk - 1, nk - 2, nk // 2, 511, 512, 1023, 1024, 1025, 2047, 2048, 4096, 65535, 65536, rng.randint(0, nk - 1)])
        i = max(0, min(nk - 1, i))
        t = t0 + i * dt + min(dt - 1, rng.choice([0, 0, 1, dt // 2, dt - 1, dt - 1]))
        r = rng.random()
        if inside is None and r < 0.12:
            t = t0 + nk * dt + rng.choice([0, 1])
        elif inside is None and r < 0.2:
            t = t0 - rng.choice([1, dt])
        return t
    if fam == "u":
        a["op"] = rng.choice(["index", "index", "at", "slice", "during", "index_list", "mask"])
    elif fam == "s":
        a["op"] = rng.choice(["at", "int", "during", "during", "during_arr"])
        a["lead"] = rng.choice([0, 0, 2])
    elif fam == "t":
        a["op"] = rng.choice(["closest", "before", "after", "slice", "during"])
    else:
        a["op"] = rng.choice(["epoch", "int"])
    op = a["op"]
    if op in ("index", "at", "before", "after", "closest"):
        a["q"] = inst()
        a["tol"] = rng.choice([None, 0, 1, dt, 3 * dt + 1]) if op == "closest" else None
    elif op in ("index_list", "mask"):
        a["q"] = [inst(True) for _ in range(3)]
    elif op == "int":
        a["q"] = rng.choice([0, -1, n - 1, -n, n, 1024, 1025, n // 2])
    elif op == "during_arr":
        d = rng.choice([1, 3, 1024, 1025]) * dt + rng.choice([0, 1])
        st = [max(t0, min(inst(True), t0 + n * dt - 1 - d)) for _ in range(2)]
        st = [t0 + ((x - t0) // dt) * dt for x in st]      # same phase: equal numbers of samples
        a["q"] = [[x, x + d] for x in st]
        a["off"] = rng.choice([0, -dt, 7])
    else:
        inside = True if (fam in ("u", "s") and rng.random() < 0.8) else None
        st = inst(inside)
        sp = inst(inside) if rng.random() < 0.6 else st + rng.choice([0, 1, dt, 1025 * dt, 4097 * dt + 1])
        if inside and not (t0 <= sp < t0 + n * dt):
            sp = t0 + n * dt - 1
        a["q"] = [st, sp]
        a["off"] = rng.choice([0, 0, -dt, 7])
    return a


def big_arg(ts, a, t, scalar=True):
    f = FACT[a["u"]]
    ts_ = [t] if scalar else list(t)
    if all(x % f == 0 for x in ts_) and a["n"] % 2:
        v = [x // f for x in ts_]
        return v[0] if scalar else v
    r = ts.TimeArray(np.int64(ts_[0]) if scalar else np.array(ts_, dtype=np.int64), time_unit="ps")
    r.convert_unit(a["qu"])
    return r


def sha(arr):
    import hashlib
    arr = np.ascontiguousarray(np.asarray(arr).astype(np.int64))
    return {"shape": list(arr.shape), "sha1": hashlib.sha1(arr.tobytes()).hexdigest(),
            "head": [int(x) for x in arr.ravel()[:3]], "tail": [int(x) for x in arr.ravel()[-3:]]}


def run_big(a):
    """run the call on the implementation and work out, independently (numpy int64 on the description,
    straight from the statement's definitions), what it has to return; -> (observed, required)"""
    import nitime.timeseries as ts
    p = big_times(a)
    n, t0, dt, fam, op, q = a["n"], a["t0"], a["dt"], a["fam"], a["op"], a["q"]
    pos = np.arange(n)
    lo, hi = t0, t0 + n * dt

    def ep(st, sp, off=0):
        kw = {}
        if off:
            kw["offset"] = ts.TimeArray(np.int64(off), time_unit="ps")
            return ts.Epochs(t0=big_arg(ts, a, st + off), stop=big_arg(ts, a, sp), time_unit=a["u"], **kw)
        return ts.Epochs(start=big_arg(ts, a, st), stop=big_arg(ts, a, sp), time_unit=a["u"])
    req = None
    try:
        if fam == "u":
            obj = ts.UniformTime(length=n, sampling_interval=ts.TimeArray(np.int64(dt), time_unit="ps"),
                                 t0=ts.TimeArray(np.int64(t0), time_unit="ps"), time_unit=a["u"])
            if not np.array_equal(np.asarray(obj), p):
                return {"t": "other", "what": "axis samples differ from t0 + k*interval"}, "t0 + k*interval"
            if op in ("index", "at"):
                req = "ValueError" if not lo <= q < hi else (int((q - t0) // dt) if op == "index" else int(p[(q - t0) // dt]))
                r = obj.index_at(big_arg(ts, a, q)) if op == "index" else obj.at(big_arg(ts, a, q))
                obs = int(r)
            elif op in ("index_list", "mask"):
                want = [(x - t0) // dt for x in q]
                m = np.zeros(n, dtype=bool)
                if all(lo <= x < hi for x in q):
                    m[want] = True
                    req = sha(m) if op == "mask" else [int(x) for x in want]
                else:
                    req = "ValueError"
                r = obj.index_at(big_arg(ts, a, q, scalar=False), boolean=(op == "mask"))
                obs = sha(np.asarray(r)) if op == "mask" else [int(x) for x in r]
            else:
                sel = pos[(p >= q[0]) & (p < q[1])]
                inside = lo <= q[0] < hi and lo <= q[1] < hi
                if op == "slice":
                    req = "ValueError" if not inside else ([int(sel[0]), int(sel[-1]) + 1] if len(sel) else "empty")
                    sl = obj.slice_during(ep(*q))
                    got = pos[sl]
                    obs = [int(got[0]), int(got[-1]) + 1] if len(got) else "empty"
                else:
                    req = "ValueError" if not inside else sha(p[sel])
                    obs = sha(np.asarray(obj.during(ep(*q))))
        elif fam == "s":
            lead = a.get("lead", 0)
            data = np.arange((lead or 1) * n, dtype=np.int64).reshape(((lead,) if lead else ()) + (n,))
            obj = ts.TimeSeries(data, sampling_interval=ts.TimeArray(np.int64(dt), time_unit="ps"),
                                t0=ts.TimeArray(np.int64(t0), time_unit="ps"), time_unit=a["u"])
            if op == "at":
                req = "ValueError" if not lo <= q < hi else sha(data[..., (q - t0) // dt])
                obs = sha(obj.at(big_arg(ts, a, q)))
            elif op == "int":
                req = "IndexError" if not -n <= q < n else sha(data[..., q % n])
                obs = sha(obj[q])
            elif op == "during":
                sel = pos[(p >= q[0]) & (p < q[1])]
                inside = lo <= q[0] < hi and lo <= q[1] < hi
                req = "ValueError" if not inside else {"data": sha(data[..., sel]), "t0": a["off"], "dt": dt,
                                                        "time": sha(a["off"] + dt * np.arange(len(sel), dtype=np.int64))}
                r = obj.during(ep(q[0], q[1], a["off"]))
                obs = {"data": sha(r.data), "t0": int(r.t0), "dt": int(r.sampling_interval), "time": sha(np.asarray(r.time))}
            else:
                sels = [pos[(p >= x[0]) & (p < x[1])] for x in q]
                e = ts.Epochs(t0=ts.TimeArray(np.array([x[0] + a["off"] for x in q], dtype=np.int64), time_unit="ps"),
                              offset=ts.TimeArray(np.int64(a["off"]), time_unit="ps"),
                              duration=ts.TimeArray(np.int64(q[0][1] - q[0][0]), time_unit="ps"))
                inside = all(lo <= y < hi for x in q for y in x)
                if not inside:
                    req = "ValueError"
                elif len(set(len(x) for x in sels)) > 1:
                    req = "ValueError"
                else:
                    req = {"data": sha(np.array([data[..., x] for x in sels])), "t0": a["off"], "dt": dt}
                r = obj.during(e)
                obs = {"data": sha(r.data), "t0": int(r.t0), "dt": int(r.sampling_interval)}
        else:
            tm = ts.TimeArray(p, time_unit="ps")
            tm.convert_unit(a["u"])
            if fam == "t":
                if op == "closest":
                    tol = 1 if a["tol"] is None else a["tol"]
                    req = [int(x) for x in pos[np.abs(p - q) <= tol]]
                    kw = {} if a["tol"] is None else {"tol": ts.TimeArray(np.int64(a["tol"]), time_unit="ps")}
                    obs = [int(x) for x in tm.index_at(big_arg(ts, a, q), **kw)]
                elif op in ("before", "after"):
                    c = pos[p <= q] if op == "before" else pos[p >= q]
                    if len(c):
                        ext = p[c].max() if op == "before" else p[c].min()
                        req = int(c[p[c] == ext][0])
                    else:
                        req = []
                    r = tm.index_at(big_arg(ts, a, q), mode=op)
                    obs = int(r) if np.ndim(r) == 0 else [int(x) for x in r]
                else:
                    sel = pos[(p >= q[0]) & (p < q[1])]
                    if op == "slice":
                        req = [int(sel[0]), int(sel[-1]) + 1] if len(sel) else "empty"
                        got = pos[tm.slice_during(ep(*q))]
                        obs = [int(got[0]), int(got[-1]) + 1] if len(got) else "empty"
                    else:
                        req, obs = sha(p[sel]), sha(np.asarray(tm.during(ep(*q))))
            else:
                d1 = np.arange(n, dtype=np.int64)
                d2 = np.arange(2 * n, dtype=np.int64).reshape(n, 2)
                ev = ts.Events(tm, a=d1, b=d2)
                if op == "int":
                    if not -n <= q < n:
                        req = "IndexError"
                    else:
                        req = {"time": sha(p[[q % n]]), "a": sha(d1[[q % n]]), "b": sha(d2[[q % n]])}
                    r = ev[q]
                else:
                    sel = pos[(p >= q[0]) & (p < q[1])]
                    req = {"time": sha(p[sel]), "a": sha(d1[sel]), "b": sha(d2[sel])}
                    r = ev[ep(*q)]
                obs = {"time": sha(np.asarray(r.time)), "a": sha(r.data["a"]), "b": sha(r.data["b"])}
    except Exception as ex:  # noqa
        obs = type(ex).__name__
        if req is None:
            obs = {"t": "other", "what": "exception before the expected result was known: %s %s" % (type(ex).__name__, str(ex)[:100])}
    return obs, req


def big_case(a):
    obs, req = run_big(a)
    f = None
    if obs != req:
        f = Fail("C03/long/%s/%s" % (a["fam"], a["op"]), "on an object of %d samples the result differs from the statement's definition"
                 % a["n"], obs, req)
    c = Case("", {"action": a, "observed": obs}, "long/%s/%s/n=%d" % (a["fam"], a["op"], a["n"]), nontrivial=not isinstance(obs, str))
    c.in_k = False
    return c, f


def klass(a, o):
    k = a["act"]
    tag = k
    if k == "tindex":
        tag += "/" + a["mode"]
    if k in ("tindex", "tat", "tslice", "tduring"):
        p = a["self"]["p"]
        tag += "/" + ("unsorted" if not is_sorted(p) else ("dups" if len(set(p)) < len(p) else "strict"))
    if k.startswith("u") and k != "uwf":
        tag += "/" + ("wf" if axis_wf(a["axis"]) else "illformed")
    if k == "eget":
        tag += "/" + a["key"]["kind"]
    ty = a.get("ty") or (a.get("key") or {}).get("ty")
    if ty:
        tag += "/key-" + ty
    if "q" in a:
        tag += "/q-" + a["q"]["kind"]
    if o["t"] == "err":
        tag += "/" + o["cls"]
    return tag


def make_case(a):
    o = run_action(a)
    return Case(case_coq(a, o), {"action": a, "observed": o}, klass(a, o), nontrivial=(o["t"] != "err"))


HEADER = ("From Coq Require Import ZArith List Bool String PrimFloat.\n"
          "From NT Require Import F2Z Lists TimeArray Index C03K.\nImport ListNotations.\nOpen Scope Z_scope.\n")


def corpus_actions():
    p = core.VERIF / "harness" / "corpus" / "C03"
    out = []
    if p.exists():
        for f in sorted(p.glob("*.json")):
            out.append(json.loads(f.read_text())["action"])
    return out


def retry_crashed(ctx, cases, shard, kbad):
    """A shard whose coqc died without any Coq diagnostic (killed by the OS under memory pressure,
    timeout) says nothing about the model: compile it once more, alone.  A shard with a real Coq
    error (`Unable to unify "true" with "false"`) is never retried."""
    import re
    for b in list(ctx.broken):
        m = re.match(r"K_(\d+)\.v:corr$", b["lemma"])
        if b["kind"] != "K" or not m or "Error" in b["detail"]:
            continue
        si = int(m.group(1))
        sh = cases[si * shard:(si + 1) * shard]
        body = HEADER + "\nDefinition cases : list (action * outcome) := [\n%s\n].\n" % ";\n".join(c.coq for c in sh)
        r = ctx.coqc("K_%d_retry" % si, body + "Lemma corr : forallb check cases = true.\nProof. vm_compute. reflexivity. Qed.\n",
                     timeout=1800)
        idx = None
        if r.ok:
            idx = []
        elif "Error" in r.out:
            r2 = ctx.coqc("K_%d_retry_loc" % si, body + "From NT Require Import Lists.\nEval vm_compute in (failing check cases).\n",
                          timeout=1800)
            m2 = re.search(r"=\s*\[(.*?)\]", r2.out, flags=re.S)
            if r2.ok and m2:
                idx = [int(x) for x in re.findall(r"\d+", re.sub(r"%nat", "", m2.group(1)))]
        if idx is None:
            continue                      # still no verdict: stays reported as a broken lemma
        kbad = {i for i in kbad if not si * shard <= i < (si + 1) * shard} | {si * shard + j for j in idx}
        if r.ok:
            ctx.broken.remove(b)
            ctx.obligations = [(k, n, True if (k == "K" and n == b["lemma"]) else ok) for k, n, ok in ctx.obligations]
            ctx.notes.append("%s: first compilation died without a Coq diagnostic; recompiled alone and checked" % b["lemma"])
        else:
            b["detail"] = r.out[-1500:]
    return kbad


def run(ctx):
    core.import_nitime()
    import nitime.timeseries as ts
    ctx.check_props()
    # G: the default tolerance of index_at, read from the imported module, is the model's clock_tick
    ct = ts.clock_tick
    try:
        tick = {"p": [int(x) for x in np.asarray(ct).ravel()], "u": ct.time_unit, "sc": np.asarray(ct).ndim == 0}
        gsrc = HEADER + ("Lemma clock_tick_ok : tarr_eqb %s clock_tick = true.\nProof. vm_compute. reflexivity. Qed.\n" % tarr_coq(tick))
    except Exception as ex:  # noqa
        tick, gsrc = {"error": str(ex)}, HEADER + "Lemma clock_tick_ok : false = true.\nProof. reflexivity. Qed.\n"
    g = ctx.check_gen("G_clock_tick", gsrc, ["clock_tick_ok"])
    if not g.ok:
        ctx.report_fail(Fail("C03/clock_tick", "the default tolerance of index_at is not one picosecond (0-d)", tick,
                             {"p": [1], "u": "ps", "sc": True}, {"entry_point": "nitime.timeseries.clock_tick"}))
    n = ctx.scale(3000, 40000)
    actions = corpus_actions() + [gen_action(ctx.rng, ts) for _ in range(n)]
    # a few objects of 1025 .. 4097 samples in K as well (just above powers of two, a prime)
    actions += [gen_action(ctx.rng, ts, nbig=ctx.rng.choice([1009, 1025, 2049, 4097])) for _ in range(ctx.scale(10, 60))]
    cases = [make_case(a) for a in actions]
    # long objects (up to 10^6 samples): implementation against the statement's definitions, oracle only
    for _ in range(ctx.scale(600, 4000)):
        c, f = big_case(gen_big(ctx.rng, BIG_N))
        ctx.count_case(c)
        if f is not None:
            f.replay = {"entry_point": "nitime.timeseries (long object)"}
            ctx.report_fail(f, c)
    shard = ctx.scale(250, 1000)
    kbad = ctx.check_cases("K", HEADER, cases, "check", shard=shard, case_type="(action * outcome)")
    kbad = retry_crashed(ctx, cases, shard, kbad)
    # search: first the cases on which model and implementation disagree, then all the others
    order = sorted(kbad) + [i for i in range(len(cases)) if i not in kbad]
    for i in order:
        c = cases[i]
        f = oracle(c.replay["action"], c.replay["observed"])
        if f is not None:
            f.replay = {"entry_point": "nitime.timeseries (%s)" % c.replay["action"]["act"], "model_disagrees": i in kbad}
            ctx.report_fail(f, c)
    ctx.extra["model_impl_disagreements"] = len(kbad)
    ctx.extra["rule"] = ("seeded generator: time arrays (strictly increasing / with duplicates / unsorted, any sign, 9 units, grids "
                         "of 1 ps .. 3 units) x instants on / between / before / after the samples expressed as int, float or time "
                         "object in another unit x tolerances (None, 0, +-grid, other unit) x modes; uniform axes built through the "
                         "UniformTime constructor paths (well-formed: integer-ps interval; ill-formed: C02's float interval*length, "
                         "duration/length) x scalar / list queries, boolean masks, scalar and array epochs inside / partly outside; "
                         "series with 0-2 leading dimensions x at / integer / during (scalar, equal- and unequal-duration arrays, "
                         "offsets); Events with 1-3-d per-event data x int / float / epoch keys; Epochs argument patterns incl. invalid. "
                         "non-trivial = the call returned a value (not an exception)")
    return ctx.finish(
        explanation=("Theorems of Props/C03.v (all axes, arrays, queries, epochs, data types) are re-checked by coqc; the model they "
                     "are about (Model/Index.v) is evaluated by the Coq kernel on every generated call and compared exactly with "
                     "what nitime returned (K); the statement's set definitions are evaluated independently on the same results "
                     "(oracle) to name a failing input when anything disagrees."),
        trusted=["numpy: np.where(mask)[0] lists positions in ascending order, argmax/argmin return the first extremal position, "
                 "int64 arithmetic is two's complement, // is floor division, fancy/slice indexing follows Python's rules "
                 "(modelled in Model/Index.v)",
                 "C01's model of the TimeArray constructor (Model/TimeArray.v) converts every time argument"],
        assumptions=["array-valued queries/tolerances, unsorted arrays and array epochs passed to slice_during are compared with "
                     "the model (K) but are outside the statement and not judged by the oracle",
                     "on a uniform axis an epoch with an end outside [t0, t0+duration) is refused with ValueError (the oracle "
                     "accepts the refusal or the exact selection)",
                     "objects longer than 4097 samples are checked by the oracle only (not in K); |ps| is kept below 2^62 - 2^58",
                     "ill-formed uniform axes (C02 finding: float interval*length, duration/length) are judged against their own "
                     "attributes (t0, interval, duration); positions beyond the samples are attributed to C02"])


def replay(ctx, path):
    core.import_nitime()
    d = json.loads(open(path).read())
    a = (d.get("case") or d)["action"]
    if a["act"] == "big":
        obs, req = run_big(a)
        print(json.dumps({"action": a, "observed": obs, "required": req, "fails": obs != req}, indent=1, default=str))
        return 1 if obs != req else 0
    o = run_action(a)
    f = oracle(a, o)
    print(json.dumps({"action": a, "observed": o, "fails": None if f is None else f.what,
                      "required": None if f is None else f.required}, indent=1, default=str))
    return 1 if f else 0
