"""C15 — analyzers and file readers are faithful, unit-aware front ends (partial by design).

P: coq/Props/C15.v   (theorems over Model/FrontEnd.v: output-axis descriptors of every analyzer,
                      unit handling of the rate in exact arithmetic, reader selection / ROI / file
                      order, concatenation)
K: every analyzer x inputs in s/ms/us with non-zero t0 x 1-d/2-d/3-d data: descriptors of input and
   outputs (picoseconds, unit, counts, sampling_rate bit for bit) and the Fs values handed to the
   algorithm layer, compared with the model inside Coq; generated NIfTI files (scratch directory
   made with tempfile.mkdtemp(), removed afterwards): axis and exact voxel data per ROI.
differential (NOT proof, implementation vs implementation, labelled so in the evidence): every
   analyzer result against the direct algorithm call on series.data with Fs = float(series.sampling_rate).
oracle: what the property statement demands of the observed descriptors / data (no model involved).
"""
import contextlib
import json
import shutil
import tempfile
import warnings

import numpy as np

from vt import core
from vt.core import Case, Fail, zlit, flit, blit, llit

UNITS = {"ps": "Ups", "ns": "Uns", "us": "Uus", "ms": "Ums", "s": "Us", "m": "Um", "h": "Uh", "D": "UD", "W": "UW"}
FACT = {"ps": 1, "ns": 10 ** 3, "us": 10 ** 6, "ms": 10 ** 9, "s": 10 ** 12, "m": 60 * 10 ** 12,
        "h": 3600 * 10 ** 12, "D": 86400 * 10 ** 12, "W": 7 * 86400 * 10 ** 12}
BIG = 2 ** 49           # ps; from here on the float rate hand-over is not exact (known finding)
KEY_BIG = "C15/rate-handover/interval>=2^49ps"
RTOL = 1e-9


# ----------------------------------------------------------------------------- observation
def obs_of(T):
    tm = T.time
    n = int(T.data.shape[-1])
    return {"t0": int(T.t0), "dt": int(T.sampling_interval), "u": str(T.time_unit), "n": n,
            "fs": float(T.sampling_rate).hex(), "first": int(tm[0]) if len(tm) else 0,
            "last": int(tm[-1]) if len(tm) else 0, "tlen": int(len(tm)), "shape": list(T.data.shape)}


def obs_coq(o):
    return "(mk_obs %s %s %s %s %s %s %s %s)" % (
        zlit(o["t0"]), zlit(o["dt"]), UNITS.get(o["u"], "UW"), zlit(o["n"]), flit(float.fromhex(o["fs"])),
        zlit(o["first"]), zlit(o["last"]), zlit(o["tlen"]))


class FsRec(contextlib.AbstractContextManager):
    """records the Fs every algorithm-layer entry point is called with"""

    def __init__(self):
        self.seen = []

    def __enter__(self):
        import nitime.algorithms as tsa
        import nitime.utils as tsu
        import matplotlib.mlab as mlab
        rec = self
        self._undo = []

        def patch(mod, name, getfs):
            orig = getattr(mod, name)

            def wrapper(*a, **k):
                try:
                    fs = getfs(a, k)
                    if fs is not None:
                        rec.seen.append((name, float(fs).hex()))
                except Exception:  # noqa
                    pass
                return orig(*a, **k)
            wrapper.__wrapped__ = orig
            setattr(mod, name, wrapper)
            self._undo.append((mod, name, orig))

        patch(tsa, "get_spectra", lambda a, k: (k.get("method") or (a[1] if len(a) > 1 else {}) or {}).get("Fs"))
        patch(tsa, "periodogram", lambda a, k: k.get("Fs", a[1] if len(a) > 1 else None))
        patch(tsa, "multi_taper_psd", lambda a, k: k.get("Fs", a[1] if len(a) > 1 else None))
        patch(tsa, "cache_fft", lambda a, k: (k.get("method") or {}).get("Fs"))
        patch(tsa, "wmorlet", lambda a, k: k.get("sampling_rate", a[2] if len(a) > 2 else None))
        patch(tsa, "wlogmorlet", lambda a, k: k.get("sampling_rate", a[2] if len(a) > 2 else None))
        patch(tsu, "get_freqs", lambda a, k: a[0] if a else k.get("Fs"))
        patch(mlab, "psd", lambda a, k: k.get("Fs"))
        return self

    def __exit__(self, *exc):
        for mod, name, orig in reversed(self._undo):
            setattr(mod, name, orig)
        return False


def close(a, b, rtol=RTOL, atol=1e-10):
    a, b = np.asarray(a), np.asarray(b)
    if a.shape != b.shape:
        return False
    with np.errstate(all="ignore"):
        fin = np.isfinite(a) & np.isfinite(b)
        if not np.array_equal(np.isnan(a), np.isnan(b)):
            return False
        # relative to the scale of the reference itself (no absolute floor: data may be 2^-60 small)
        scale = float(np.max(np.abs(b[fin]))) if fin.any() else 0.0
        return bool(np.all(np.abs(a[fin] - b[fin]) <= atol * scale + rtol * np.abs(b[fin])))


# ----------------------------------------------------------------------------- one input, all analyzers
def build_series(spec):
    import nitime.timeseries as ts
    rs = np.random.RandomState(spec["seed"])
    # magnitudes across scales (a power of two keeps every linear result exactly scalable), non-zero offset
    data = (rs.randn(*spec["shape"]) + spec.get("offset", 0.0)) * 2.0 ** spec.get("scale_pow", 0)
    if spec.get("ints"):            # integer samples stored as int16 / int32 / int64 (or the same samples as float64)
        data = (rs.randint(-400, 400, size=tuple(spec["shape"])) + int(spec.get("offset", 0.0))).astype(spec["ints"])
    lay = spec.get("layout", "C")
    if lay == "F":
        data = np.asfortranarray(data)
    elif lay == "strided":          # a non-contiguous view: every second sample of a twice as long array
        big = np.empty(tuple(spec["shape"][:-1]) + (2 * spec["shape"][-1],), dtype=data.dtype)
        big[..., ::2] = data
        big[..., 1::2] = 1e30 if data.dtype.kind == "f" else 12345
        data = big[..., ::2]
    elif lay == "list":
        data = data.tolist()
    x, t0 = float.fromhex(spec["x"]), float.fromhex(spec["t0"])
    if spec["mode"] == "interval":
        T = ts.TimeSeries(data, sampling_interval=x, t0=t0, time_unit=spec["u"])
    else:
        T = ts.TimeSeries(data, sampling_rate=x, t0=t0, time_unit=spec["u"])
    der = spec.get("derive")
    if der == "copy":               # TimeSeries.copy(): rebuilt through the time=<UniformTime> constructor path
        T = T.copy()
    elif der == "time":             # built from the UniformTime axis of the first one
        T = ts.TimeSeries(np.asarray(data), time=T.time, time_unit=spec["u"])
    elif der == "positional":
        T = ts.TimeSeries(data, t0, x, None, None, None, spec["u"]) if spec["mode"] == "interval" else T
    return T, np.asarray(T.data)


def run_axis(spec):
    """run every analyzer that accepts this input; returns a JSON-able record"""
    import nitime.timeseries as ts
    import nitime.analysis as nta
    import nitime.algorithms as tsa
    import nitime.utils as tsu
    from nitime.analysis import snr as snr_mod
    import scipy.signal as sig
    import matplotlib.mlab as mlab
    rec = {"spec": spec, "outs": [], "diff": [], "errors": [], "fs_used": [], "_vals": {}}
    try:
        T, data = build_series(spec)
    except Exception as e:  # noqa
        rec["errors"].append(("input", "%s: %s" % (type(e).__name__, str(e)[:100])))
        return rec
    rec["iobs"] = obs_of(T)
    fs = float(T.sampling_rate)
    n = data.shape[-1]
    nd = data.ndim
    heavy = spec.get("heavy", False)

    def out(name, sel, f):
        try:
            S = f()
            rec["outs"].append({"name": name, "sel": sel, "obs": obs_of(S)})
            rec["_vals"]["out:" + name] = np.array(S.data)
            return S
        except Exception as e:  # noqa
            rec["errors"].append((name, "%s: %s" % (type(e).__name__, str(e)[:100])))
            return None

    def diff(name, f):
        """f returns (analyzer value, direct algorithm value)"""
        try:
            a, b = f()
            rec["_vals"][name] = np.array(a)
            rec["diff"].append({"name": name, "ok": close(a, b, rtol=RTOL + 2.0 / max(rec["iobs"]["dt"], 1)),
                                "err": float(np.max(np.abs(np.asarray(a) - np.asarray(b)))) if np.shape(a) == np.shape(b) and np.size(a) else None})
        except Exception as e:  # noqa
            rec["errors"].append((name, "%s: %s" % (type(e).__name__, str(e)[:100])))

    with FsRec() as fr, warnings.catch_warnings():
        warnings.simplefilter("ignore")
        # ---- normalisation
        alt = spec.get("alt", False)
        if alt:
            # re-use: built on ANOTHER series (other rate, unit, length, t0), results read, then set_input(T)
            rs0 = np.random.RandomState(spec["seed"] + 7)
            A0 = ts.TimeSeries(rs0.randn(*(tuple(data.shape[:-1]) + (n + 17,))), sampling_interval=3.7, t0=11.0,
                               time_unit={"s": "ms", "ms": "us", "us": "s"}[spec["u"]])

            def reuse(cls, reads=()):
                k0 = len(fr.seen)
                an = cls(A0)
                if spec.get("alt_read_first", True):
                    for r_ in reads:
                        getattr(an, r_)
                del fr.seen[k0:]          # what was handed over while analysing A0 is not about T
                an.set_input(T)
                return an
            N = reuse(nta.NormalizationAnalyzer, ("z_score",))
        else:
            N = nta.NormalizationAnalyzer(T)
        z = out("NormalizationAnalyzer.z_score", "ONorm", lambda: N.z_score)
        p = out("NormalizationAnalyzer.percent_change", "ONorm", lambda: N.percent_change)
        if z is not None:
            diff("NormalizationAnalyzer.z_score", lambda: (
                z.data, (data - data.mean(-1)[..., None]) / data.std(-1)[..., None]))      # the definition, not nitime.utils
        if p is not None:
            diff("NormalizationAnalyzer.percent_change", lambda: (
                p.data, (data / data.mean(-1)[..., None] - 1) * 100))
        # ---- Hilbert
        H = reuse(nta.HilbertAnalyzer, ("amplitude",)) if alt else nta.HilbertAnalyzer(T)
        ha = out("HilbertAnalyzer.analytic", "OAnalytic", lambda: H.analytic)
        for nm in ("amplitude", "phase", "real", "imag"):
            out("HilbertAnalyzer." + nm, "ODerived", lambda nm=nm: getattr(H, nm))
        if ha is not None:
            hd = sig.hilbert(data)
            diff("HilbertAnalyzer.analytic", lambda: (ha.data, hd))
            diff("HilbertAnalyzer.amplitude", lambda: (H.amplitude.data, np.abs(hd)))
            diff("HilbertAnalyzer.phase", lambda: (H.phase.data, np.angle(hd)))
            diff("HilbertAnalyzer.real", lambda: (H.real.data, hd.real))
            diff("HilbertAnalyzer.imag", lambda: (H.imag.data, hd.imag))
        # ---- wavelet (1-d only: np.convolve)
        if nd == 1:
            fq = [fs / 8.0, fs / 5.0] if spec.get("wav_array", True) else fs / 8.0
            W = nta.MorletWaveletAnalyzer(T, freqs=fq, log_morlet=spec.get("log_morlet", False))
            wa = out("MorletWaveletAnalyzer.analytic", "OAnalytic", lambda: W.analytic)
            for nm in ("amplitude", "phase", "real", "imag"):
                out("MorletWaveletAnalyzer." + nm, "ODerived", lambda nm=nm: getattr(W, nm))
            if wa is not None:
                wfun = getattr(tsa.wlogmorlet if spec.get("log_morlet", False) else tsa.wmorlet, "__wrapped__")

                def direct():
                    fl = np.atleast_1d(np.array(fq))
                    res = []
                    for f0 in fl:
                        w = wfun(f0, f0 * 0.2, sampling_rate=fs, ns=5, normed="area")
                        res.append(np.convolve(data, np.real(w), mode="same") + 1j * np.convolve(data, np.imag(w), mode="same"))
                    res = np.array(res)
                    return wa.data, (res if np.ndim(fq) else res[0])
                diff("MorletWaveletAnalyzer.analytic", direct)
        # ---- filters (axis only; the filtered values belong to C18)
        fo = spec.get("filt", {"lb": 0.0, "ub_frac": 0.25})
        lb = fo["lb"] * fs
        ub = None if fo["ub_frac"] is None else fo["ub_frac"] * fs
        F = nta.FilterAnalyzer(T, lb=lb, ub=ub, filt_order=8)
        if 3 * 9 < n:
            passes = (1 if (ub is not None and ub / (fs / 2.) < 1) else 0) + (1 if lb / (fs / 2.) > 0 else 0)
            out("FilterAnalyzer.fir", "(OFir %d)" % passes, lambda: F.fir)
            if not (lb == 0 and ub is None):
                out("FilterAnalyzer.iir", "OFilt", lambda: F.iir)
        # the public keyword in_ts of filtfilt replaces the input: the result must carry the axis of the series
        # that was FILTERED (T), not of the analyzer's own series (other unit, t0, rate, length, 1-d vs 2-d)
        if n > 20 and nd <= 2:
            rsf = np.random.RandomState(spec["seed"] + 3)
            other = ts.TimeSeries(rsf.randn(*((2, n + 17) if nd == 1 else (n + 17,))), sampling_interval=3.7, t0=11.0,
                                  time_unit={"s": "ms", "ms": "us", "us": "s"}[spec["u"]])
            bco, aco = sig.firwin(5, 0.4), [1.0]
            F0 = nta.FilterAnalyzer(other, lb=0, ub=None)
            ff = out("FilterAnalyzer.filtfilt(in_ts=)", "OFilt", lambda: F0.filtfilt(bco, aco, in_ts=T))
            fo_ = out("FilterAnalyzer.filtfilt()", "OFilt", lambda: F.filtfilt(bco, aco))

            def ff_ref():
                r_ = sig.filtfilt(bco, aco, data)
                return r_ - r_.mean(-1)[..., None] + data.mean(-1)[..., None]      # zero phase filter, DC of the filtered series kept
            if ff is not None:
                diff("FilterAnalyzer.filtfilt(in_ts=)", lambda: (ff.data, ff_ref()))
            if fo_ is not None:
                diff("FilterAnalyzer.filtfilt()", lambda: (fo_.data, ff_ref()))
        out("FilterAnalyzer.filtered_fourier", "OFilt", lambda: nta.FilterAnalyzer(T, lb=lb, ub=ub).filtered_fourier)
        if nd <= 2:     # algorithms.boxcar_filter takes 1-d / 2-d arrays only
            out("FilterAnalyzer.filtered_boxcar", "OFilt", lambda: nta.FilterAnalyzer(T, lb=lb, ub=ub).filtered_boxcar)
        # ---- spectral
        # alt: a method dict without 'Fs' (the analyzer has to take the rate from the series)
        if alt and spec.get("alt_spectral", 0) == 0:
            S = reuse(nta.SpectralAnalyzer, ("psd", "periodogram") if nd <= 2 else ("psd",))
        elif alt:
            S = nta.SpectralAnalyzer(input=T, method={"this_method": "welch", "NFFT": 64})
        else:
            S = nta.SpectralAnalyzer(T)
        if n >= 64:
            def d_psd():
                f, pxx = S.psd
                flat = data.reshape(-1, n)
                ref = np.array([mlab.psd.__wrapped__(r, NFFT=64, Fs=fs, detrend=mlab.detrend_none,
                                                     window=mlab.window_hanning, noverlap=32)[0].squeeze() for r in flat])
                fref = mlab.psd.__wrapped__(flat[0], NFFT=64, Fs=fs, detrend=mlab.detrend_none,
                                            window=mlab.window_hanning, noverlap=32)[1]
                return np.concatenate([np.ravel(f), np.ravel(pxx)]), np.concatenate([np.ravel(fref), np.ravel(ref.reshape(data.shape[:-1] + (33,)).squeeze())])
            diff("SpectralAnalyzer.psd", d_psd)
        if nd <= 2:
            def d_per():
                f, pxx = S.periodogram
                fr_, pr = tsa.periodogram.__wrapped__(data, Fs=fs)
                return np.concatenate([np.ravel(f), np.ravel(pxx)]), np.concatenate([np.ravel(fr_), np.ravel(pr)])
            diff("SpectralAnalyzer.periodogram", d_per)

            def d_sf():
                f, sp = S.spectrum_fourier
                import scipy.fftpack as fp
                fref = np.linspace(0, fs / 2, n // 2 + 1)
                return np.concatenate([np.ravel(f), np.ravel(sp)]), np.concatenate([fref, np.ravel(np.fft.fft(data)[..., :fref.shape[0]])])
            diff("SpectralAnalyzer.spectrum_fourier", d_sf)
        if nd == 2 and n >= 64:
            def d_cpsd():
                f, c = S.cpsd
                fr_, cr = tsa.get_spectra.__wrapped__(data, method={"this_method": "welch", "Fs": fs})
                return np.concatenate([np.ravel(f), np.ravel(c)]), np.concatenate([np.ravel(fr_), np.ravel(cr)])
            diff("SpectralAnalyzer.cpsd", d_cpsd)
        if heavy and nd <= 2:
            def d_mt():
                f, sp = S.spectrum_multi_taper
                rows_ = data.reshape(-1, n)
                ref = [tsa.multi_taper_psd.__wrapped__(r, Fs=fs, BW=None, adaptive=False, low_bias=False) for r in rows_]
                return np.concatenate([np.ravel(f), np.ravel(sp)]), np.concatenate([np.ravel(ref[0][0])] + [np.ravel(r[1]) for r in ref])
            diff("SpectralAnalyzer.spectrum_multi_taper", d_mt)
        if nd == 2:
            c = data.shape[0]
            # ---- correlation
            if alt:
                C = reuse(nta.CorrelationAnalyzer, ("xcorr",))
            else:
                C = nta.CorrelationAnalyzer(T)
            xc = out("CorrelationAnalyzer.xcorr", "OXcorr", lambda: C.xcorr)
            # pairwise analyzers (xcorr_norm via corrcoef, the coherence family) need at least two channels:
            # np.corrcoef / get_spectra return a scalar / 1-d spectrum for a single row and they raise IndexError
            xn = out("CorrelationAnalyzer.xcorr_norm", "OXcorr", lambda: C.xcorr_norm) if c >= 2 else None
            diff("CorrelationAnalyzer.corrcoef", lambda: (C.corrcoef, np.corrcoef(data)))
            if xc is not None:
                diff("CorrelationAnalyzer.xcorr[i<=j]", lambda: (
                    np.array([xc.data[i, j] for i in range(c) for j in range(i, c)]),
                    np.array([np.correlate(data[i].astype(float), data[j].astype(float), "full") for i in range(c) for j in range(i, c)])))
                rec["xcorr_zero"] = {"peak_auto": [int(np.argmax(xc.data[i, i])) for i in range(c)]}
            if xn is not None:
                cc = np.corrcoef(data)
                rec["norm_idx"] = [int(np.where(xn.data[i, i] == cc[i, i])[0][0]) if np.any(xn.data[i, i] == cc[i, i]) else -1
                                   for i in range(c)]
                # the zero-lag sample (index n-1 of np.correlate 'full') carries the correlation coefficient
                diff("CorrelationAnalyzer.xcorr_norm[zero lag]", lambda: (
                    np.array([xn.data[i, j, n - 1] for i in range(c) for j in range(i, c)]),
                    np.array([np.corrcoef(data)[i, j] for i in range(c) for j in range(i, c)])))
            # ---- SNR
            sn = out("snr.signal_noise[signal]", "OSnr", lambda: snr_mod.signal_noise(T)[0])
            out("snr.signal_noise[noise]", "OSnr", lambda: snr_mod.signal_noise(T)[1])
            if sn is not None:
                diff("snr.signal_noise", lambda: (np.concatenate([np.ravel(sn.data), np.ravel(snr_mod.signal_noise(T)[1].data)]),
                                                  np.concatenate([np.mean(data, 0), np.ravel(data - np.mean(data, 0))])))
            if heavy:
                SN = nta.SNRAnalyzer(T)
                diff("SNRAnalyzer.mt_signal_psd", lambda: (SN.mt_signal_psd, tsa.multi_taper_psd.__wrapped__(np.mean(data, 0), Fs=fs, BW=None, adaptive=False, low_bias=False)[1]))
                diff("SNRAnalyzer.mt_noise_psd", lambda: (SN.mt_noise_psd, np.mean([tsa.multi_taper_psd.__wrapped__(r, Fs=fs, BW=None, adaptive=False, low_bias=False)[1] for r in (data - np.mean(data, 0))], 0)))
                diff("SNRAnalyzer.mt_frequencies", lambda: (SN.mt_frequencies, np.fft.rfftfreq(n) * fs))
            # ---- coherence family
            if n >= 96 and c >= 2:
                CO = nta.CoherenceAnalyzer(input=T, method={"this_method": "welch", "NFFT": 64, "n_overlap": 32}) if alt else nta.CoherenceAnalyzer(T)

                def d_coh():
                    fr_, cr = tsa.get_spectra.__wrapped__(data, method={"this_method": "welch", "Fs": fs, "NFFT": 64, "n_overlap": 32})
                    ref = np.array([[tsa.coherency_spec(cr[min(i, j)][max(i, j)], cr[i][i], cr[j][j]) for j in range(c)] for i in range(c)])
                    got = np.array(CO.coherency)
                    iu = np.triu_indices(c)
                    return np.concatenate([np.ravel(CO.frequencies), np.ravel(got[iu])]), np.concatenate([np.ravel(fr_), np.ravel(ref[iu])])
                diff("CoherenceAnalyzer.coherency", d_coh)
                ij = [(0, c - 1), (0, 0)]
                SP = nta.SparseCoherenceAnalyzer(time_series=T, ij=ij, method={"this_method": "welch", "NFFT": 64}) if alt else nta.SparseCoherenceAnalyzer(T, ij=ij)

                def d_sparse():
                    got = SP.coherency
                    fr_, cache = tsa.cache_fft.__wrapped__(data, ij, method={"this_method": "welch", "Fs": fs})
                    ref = tsa.cache_to_coherency(cache, ij)
                    return (np.concatenate([np.ravel(SP.frequencies)] + [np.ravel(got[k]) for k in ij]),
                            np.concatenate([np.ravel(fr_)] + [np.ravel(ref[k]) for k in ij]))
                diff("SparseCoherenceAnalyzer.coherency", d_sparse)
                SE = nta.SeedCoherenceAnalyzer(ts.TimeSeries(data[0], sampling_rate=T.sampling_rate),
                                               T, method={"this_method": "welch"})
                diff("SeedCoherenceAnalyzer.frequencies", lambda: (SE.frequencies, np.linspace(0, fs / 2, 33)))
                if heavy:
                    MT = nta.MTCoherenceAnalyzer(T)
                    diff("MTCoherenceAnalyzer.frequencies", lambda: (MT.frequencies, np.fft.rfftfreq(n) * fs))
                    _ = MT.coherence
            # ---- Granger
            if heavy and n >= 96 and c >= 2:
                G = nta.GrangerAnalyzer(T, order=2, n_freqs=32)
                diff("GrangerAnalyzer.frequencies", lambda: (G.frequencies, np.linspace(0, fs / 2, 17)))

                def d_g():
                    from nitime.analysis.granger import fit_model
                    i, j = G.ij[0]
                    o_, R_, cf, ec = fit_model(data[i], data[j], order=2)
                    w, fxy, fyx, fsim, Sw = tsa.granger_causality_xy(cf, ec, n_freqs=32)
                    return G.causality_xy[i, j], fxy
                diff("GrangerAnalyzer.causality_xy", d_g)
        # ---- event related (1-d and 2-d)
        ev = spec.get("ev")
        if ev and nd <= 2:
            rs = np.random.RandomState(spec["seed"] + 1)
            L, off = ev["len_et"], ev["offset"]
            e = np.zeros(n)
            idx = np.sort(rs.choice(np.arange(2, n - L - 2), size=3, replace=False))
            e[idx] = 1
            if ev.get("two_types"):
                e[idx[-1]] = 2
            E_ts = ts.TimeSeries(e, sampling_interval=T.sampling_interval, t0=T.t0, time_unit=T.time_unit)
            if off >= 0:
                EA = nta.EventRelatedAnalyzer(T, E_ts, L, offset=off)
                eta = out("EventRelatedAnalyzer.eta", "(OEvInterval %s %s)" % (zlit(off), zlit(L)), lambda: EA.eta)
                out("EventRelatedAnalyzer.ets", "(OEvInterval %s %s)" % (zlit(off), zlit(L)), lambda: EA.ets)
                out("EventRelatedAnalyzer.FIR", "(OEvRate %s %s)" % (zlit(off), zlit(L)), lambda: EA.FIR)
                out("EventRelatedAnalyzer.et_data", "(OEvInterval %s %s)" % (zlit(off), zlit(L)), lambda: EA.et_data[0][0])
                if off == 0:
                    out("EventRelatedAnalyzer.xcorr_eta", "(OEvRate %s %s)" % (zlit(0), zlit(L // 2)),
                        lambda: nta.EventRelatedAnalyzer(T, E_ts, L).xcorr_eta)
                if eta is not None and not ev.get("two_types"):
                    def d_eta():
                        d2 = data.reshape(-1, n)
                        pad = np.hstack([np.zeros((d2.shape[0], off)), d2, np.zeros((d2.shape[0], L))])
                        ref = np.array([np.mean([pad[r, i + off + off:i + off + off + L] for i in idx], 0) for r in range(d2.shape[0])])
                        return np.real(eta.data).reshape(ref.shape), ref
                    diff("EventRelatedAnalyzer.eta", d_eta)
            if nd == 1 and off <= 0:
                EV = ts.Events([float(i * int(T.sampling_interval)) / FACT[spec["u"]] for i in idx], time_unit=spec["u"])
                out("EventRelatedAnalyzer(Events).eta", "(OEvInterval %s %s)" % (zlit(off), zlit(L)),
                    lambda: nta.EventRelatedAnalyzer(T, EV, L, offset=off).eta)
        rec["fs_used"] = list(fr.seen)
    return rec


def axis_case(rec):
    spec = rec["spec"]
    ctor = "InInterval" if spec["mode"] == "interval" else "InRate"
    i = "(%s %s %s %s %s)" % (ctor, flit(float.fromhex(spec["x"])), flit(float.fromhex(spec["t0"])), UNITS[spec["u"]],
                              zlit(spec["shape"][-1]))
    outs = llit(["(%s, %s)" % (o["sel"], obs_coq(o["obs"])) for o in rec["outs"]])
    fsu = llit([flit(float.fromhex(h)) for _, h in rec["fs_used"]])
    coq = "(CAxis %s %s %s %s)" % (i, obs_coq(rec["iobs"]), fsu, outs)
    kl = "axis/%s/%s/%dd" % (spec["mode"], spec["u"], len(spec["shape"]))
    cs = [Case(coq, {"kind": "axis", "spec": spec}, kl, nontrivial=len(rec["outs"]) > 0)]
    if "norm_idx" in rec:
        cs.append(Case("(CZeroLag %s %s)" % (zlit(spec["shape"][-1]), llit([zlit(k) for k in rec["norm_idx"]])),
                       {"kind": "axis", "spec": spec}, "xcorr_norm/normalisation-index"))
    return cs


def oracle_axis(rec):
    """what the property demands of the observed descriptors; yields Fail objects"""
    spec = rec["spec"]
    for name, msg in rec["errors"]:
        yield Fail("C15/%s/exception" % name, "%s raised %s" % (name, msg), msg, "a result")
    if "iobs" not in rec:
        return
    I = rec["iobs"]
    big = I["dt"] >= BIG
    fsI = float.fromhex(I["fs"])
    # the series' rate is 10^12 / interval-in-ps Hz whatever the unit (up to the rounding of dt to whole ps)
    want = 1e12 / I["dt"] if I["dt"] else float("inf")
    if not abs(fsI - want) <= want * (1.0 / max(I["dt"], 1) + 1e-12):
        yield Fail("C15/input/sampling_rate", "series sampling_rate %r Hz, interval %d ps means %r Hz" % (fsI, I["dt"], want), fsI, want)
    for tag, h in rec["fs_used"]:
        if not abs(float.fromhex(h) - fsI) <= (1e-12 + 1.0 / max(I["dt"], 1)) * abs(fsI):
            yield Fail("C15/%s/Fs" % tag, "%s was handed Fs=%r, the series' rate is %r Hz" % (tag, float.fromhex(h), fsI), float.fromhex(h), fsI)
    n = I["n"]
    for o in rec["outs"]:
        O, sel, name = o["obs"], o["sel"], o["name"]
        if sel == "OXcorr":
            wn, wt0 = 2 * n - 1, -(n - 1) * I["dt"]
        elif sel.startswith("(OEv"):
            off, L = _parse_ev(sel)
            wn, wt0 = L, off * I["dt"]
        else:
            wn, wt0 = n, I["t0"]
        rate_kind = not (sel == "OXcorr" or sel.startswith("(OEvInterval"))
        if O["dt"] != I["dt"]:
            if rate_kind and big:
                yield Fail(KEY_BIG, "%s: sampling interval %d ps, input %d ps" % (name, O["dt"], I["dt"]), O["dt"], I["dt"])
            else:
                yield Fail("C15/%s/sampling_interval" % name, "%s: sampling interval %d ps, input %d ps" % (name, O["dt"], I["dt"]), O["dt"], I["dt"])
        if O["n"] == wn and O["tlen"] != wn and big:
            yield Fail(KEY_BIG, "%s: %d samples but %d time points" % (name, O["n"], O["tlen"]), O["tlen"], wn)
        elif O["n"] != wn or O["tlen"] != wn:
            yield Fail("C15/%s/length" % name, "%s: %d samples / %d time points, required %d" % (name, O["n"], O["tlen"], wn), O["n"], wn)
        fsO = float.fromhex(O["fs"])
        if not abs(fsO - fsI) <= abs(fsI) * (1.0 / max(I["dt"], 1) + 1e-12) and not big:
            yield Fail("C15/%s/sampling_rate" % name, "%s: sampling_rate %r Hz, input %r Hz" % (name, fsO, fsI), fsO, fsI)
        if O["u"] != I["u"]:
            yield Fail("C15/%s/time_unit" % name, "%s: time unit %s, input %s" % (name, O["u"], I["u"]), O["u"], I["u"])
        # t0: offsets are multiples of the OUTPUT interval in the implementation; demand the statement's value
        if O["t0"] != wt0 or O["first"] != wt0:
            yield Fail("C15/%s/t0" % name, "%s: starts at %d ps (time[0]=%d), required %d" % (name, O["t0"], O["first"], wt0), O["t0"], wt0)
        elif O["tlen"] and O["last"] != O["t0"] + (O["tlen"] - 1) * O["dt"] and not big:
            yield Fail("C15/%s/time" % name, "%s: last time %d, not t0+(n-1)dt" % (name, O["last"]), O["last"], O["t0"] + (O["tlen"] - 1) * O["dt"])
    for d in rec["diff"]:
        if not d["ok"]:
            yield Fail("C15/%s/differential" % d["name"], "%s differs from the direct algorithm call on series.data with Fs=series.sampling_rate (max abs err %s)" % (d["name"], d["err"]), d["err"], "equal within rtol 1e-9")


def _parse_ev(sel):
    t = sel.replace("(", " ").replace(")", " ").split()
    return int(t[1]), int(t[2])


# ----------------------------------------------------------------------------- concatenation
def run_concat(spec):
    import nitime.timeseries as ts
    runs = []
    for r in spec["runs"]:
        data = np.array(r["data"], dtype=float)
        if r.get("layout") == "F":
            data = np.asfortranarray(data)
        elif r.get("layout") == "strided":
            big = np.full(data.shape[:-1] + (2 * data.shape[-1],), 1e30)
            big[..., ::2] = data
            data = big[..., ::2]
        runs.append(ts.TimeSeries(data, sampling_interval=float.fromhex(r["x"]), t0=float.fromhex(r["t0"]), time_unit=r["u"]))
    rec = {"spec": spec, "errors": []}
    try:
        out = ts.concatenate_time_series(runs)
        rec["robs"] = [obs_of(t) for t in runs]
        rec["out"] = obs_of(out)
        rec["data"] = np.atleast_2d(out.data).tolist()
        rec["ndim"] = out.data.ndim
    except Exception as e:  # noqa
        rec["errors"].append(("concatenate_time_series", "%s: %s" % (type(e).__name__, str(e)[:100])))
    return rec


def zrows(rows_, sp=0):
    def z(v):
        w = float(v) / 2.0 ** sp
        return zlit(int(round(w))) if w == round(w) else zlit(int(round(w)) + 7777777)
    return llit([llit([z(v) for v in r]) for r in rows_])


def concat_case(rec):
    spec = rec["spec"]
    runs = ["(%s, %s)" % (obs_coq(o), zrows(np.atleast_2d(np.array(r["data"])).tolist())) for o, r in zip(rec["robs"], spec["runs"])]
    coq = "(CConcat %s %s %s %s)" % (runs[0], llit(runs[1:]), obs_coq(rec["out"]), zrows(rec["data"]))
    return Case(coq, {"kind": "concat", "spec": spec}, "concat/%d-runs/%dd" % (len(runs), rec["ndim"]), nontrivial=len(runs) > 1)


def oracle_concat(rec):
    for name, msg in rec["errors"]:
        yield Fail("C15/%s/exception" % name, "%s raised %s" % (name, msg), msg, "a result")
    if "out" not in rec:
        return
    spec = rec["spec"]
    want = np.concatenate([np.atleast_2d(np.array(r["data"], dtype=float)) for r in spec["runs"]], -1)
    got = np.array(rec["data"], dtype=float)
    if got.shape != want.shape or not np.array_equal(got, want):
        yield Fail("C15/concatenate_time_series/data", "concatenated data differ from the runs' data appended in time", got.tolist(), want.tolist())
    O = rec["out"]
    if O["n"] != want.shape[-1] or O["tlen"] != O["n"]:
        yield Fail("C15/concatenate_time_series/length", "length %d, required %d" % (O["n"], want.shape[-1]), O["n"], want.shape[-1])
    if O["dt"] != rec["robs"][-1]["dt"]:
        yield Fail("C15/concatenate_time_series/sampling_interval", "interval %d ps, runs have %d" % (O["dt"], rec["robs"][-1]["dt"]), O["dt"], rec["robs"][-1]["dt"])
    if O["tlen"] and O["last"] - O["first"] != (O["tlen"] - 1) * O["dt"]:
        yield Fail("C15/concatenate_time_series/time", "time axis not uniform over the whole length", O["last"], None)


# ----------------------------------------------------------------------------- file reader
def write_nifti(path, vol, dtype="int16", layout="C"):
    import nibabel as nib
    arr = np.asarray(vol, dtype={"int16": np.int16, "float32": np.float32, "float64": np.float64}[dtype])
    if layout == "F":
        arr = np.asfortranarray(arr)
    elif layout == "strided":
        big = np.zeros(arr.shape[:-1] + (2 * arr.shape[-1],), dtype=arr.dtype)
        big[..., ::2] = arr
        arr = big[..., ::2]
    img = nib.Nifti1Image(arr, np.eye(4))
    nib.save(img, path)


def run_read(spec, tmp):
    """spec: dims, lens (per file), seed, single, coords (None | [3 x m] | list of those), tr, normalize, average, filter"""
    import nitime.timeseries as ts
    from nitime.fmri import io as fio
    rs = np.random.RandomState(spec["seed"])
    X, Y, Zd = spec["dims"]
    vols = [rs.randint(50, 2000, size=(X, Y, Zd, T)) for T in spec["lens"]]
    sp = spec.get("scale_pow", 0)
    files = []
    for k, v in enumerate(vols):
        p = "%s/c15_%d_%d.nii%s" % (tmp, spec["seed"], k, ".gz" if spec.get("gz") else "")
        # integer values times a power of two: exact in float32 / float64 on disk and after get_fdata()
        dt_ = spec.get("dtype", "int16")
        write_nifti(p, v * 2.0 ** sp if sp else v, "float64" if (sp and dt_ == "int16") else dt_, spec.get("vol_layout", "C"))
        files.append(p)
    tr = spec["tr"]
    if tr is None:
        TR = None
    elif tr["kind"] == "float":
        TR = float.fromhex(tr["x"])
        if spec.get("tr_int") and TR == int(TR):
            TR = int(TR)
    else:
        TR = ts.TimeArray(float.fromhex(tr["x"]), time_unit=tr["u"])
    coords = spec["coords"]
    if coords is None:
        cz = None
    elif spec["rois"]:
        cz = [np.array(c) for c in coords]
        if spec.get("coords_tuple"):
            cz = tuple(cz)
    else:
        cz = np.array(coords)
        if spec.get("coords_float"):
            cz = cz.astype(float) + 0.25      # .astype(int) truncates toward the voxel index
    rec = {"spec": spec, "errors": [], "vols": [v.tolist() for v in vols]}
    try:
        with warnings.catch_warnings():
            warnings.simplefilter("ignore")
            out = fio.time_series_from_file(files[0] if spec["single"] else (tuple(files) if spec.get("files_tuple") else files),
                                            coords=cz, TR=TR, normalize=spec["normalize"], average=spec["average"],
                                            filter=spec["filter"])
        outs = out if isinstance(out, list) else [out]
        rec["obs"] = [obs_of(o) for o in outs]
        rec["data"] = [np.asarray(o.data).tolist() for o in outs]
        rec["is_list"] = isinstance(out, list)
        if TR is not None and tr["kind"] == "time":
            rec["tr_ps"] = int(TR)
    except Exception as e:  # noqa
        rec["errors"].append(("time_series_from_file", "%s: %s" % (type(e).__name__, str(e)[:120])))
    return rec


def vol_coq(v):
    return llit([llit([llit([llit([zlit(t) for t in z]) for z in y]) for y in x]) for x in v])


def coords_list(c):
    """[3 x m] -> list of (x, y, z)"""
    return [(int(c[0][i]), int(c[1][i]), int(c[2][i])) for i in range(len(c[0]))]


def read_cases(rec):
    spec = rec["spec"]
    if "obs" not in rec:
        return []
    cases = []
    tr = spec["tr"]
    if tr is None:
        trc = "TRnone"
    elif tr["kind"] == "float":
        trc = "(TRfloat %s)" % flit(float.fromhex(tr["x"]))
    else:
        trc = "(TRtime %s %s)" % (zlit(rec["tr_ps"]), UNITS[tr["u"]])
    f = spec["filter"]
    if f is None:
        fc = "FNone"
    elif f["method"] == "fir":
        fc = "(FFir %d)" % spec["fir_passes"]
    else:
        fc = "FOther"
    nm = "NNone" if spec["normalize"] is None else "NSome"
    lens = llit([zlit(t) for t in spec["lens"]])
    kl = "read/%s/%s/%s%s%s/%s" % ("single" if spec["single"] else "%d-files" % len(spec["lens"]),
                                   "volume" if spec["coords"] is None else ("roi-list" if spec["rois"] else "roi"),
                                   "tr-" + ("none" if tr is None else tr["kind"] + ("-" + tr["u"] if tr["kind"] == "time" else "")),
                                   "/" + spec["normalize"] if spec["normalize"] else "", "/avg" if spec["average"] else "",
                                   "filter-" + (f["method"] if f else "none"))
    for o in rec["obs"]:
        cases.append(Case("(CRead %s %s %s %s %s %s)" % (blit(spec["single"]), trc, fc, nm, lens, obs_coq(o)),
                          {"kind": "read", "spec": spec}, kl))
    if spec["coords"] is not None and f is None and spec["normalize"] is None:
        rois = spec["coords"] if spec["rois"] else [spec["coords"]]
        vols = rec["vols"]
        vs = vols if not spec["single"] else vols[:1]
        if not spec["average"]:
            cl = llit([llit(["(%d, %d, %d)" % c for c in coords_list(r)]) for r in rois])
            dat = llit([zrows(d, spec.get("scale_pow", 0)) for d in rec["data"]])
            cases.append(Case("(CReadData %s %s %s %s)" % (vol_coq(vs[0]), llit([vol_coq(v) for v in vs[1:]]), cl, dat),
                              {"kind": "read", "spec": spec}, kl + "/data"))
        else:
            for r, d in zip(rois, rec["data"]):
                cl = llit(["(%d, %d, %d)" % c for c in coords_list(r)])
                cases.append(Case("(CReadAvg %s %s %s %s)" % (vol_coq(vs[0]), llit([vol_coq(v) for v in vs[1:]]), cl,
                                                             llit([flit(v / 2.0 ** spec.get("scale_pow", 0)) for v in d])),
                                  {"kind": "read", "spec": spec}, kl + "/avg-data"))
    return cases


def oracle_read(rec):
    import nitime.utils as tsu
    import nitime.timeseries as ts
    import nitime.analysis as nta
    spec = rec["spec"]
    for name, msg in rec["errors"]:
        yield Fail("C15/%s/exception" % name, "%s raised %s" % (name, msg), msg, "a result")
    if "obs" not in rec:
        return
    vols = [np.array(v, dtype=float) * 2.0 ** spec.get("scale_pow", 0) for v in rec["vols"]]
    if spec["single"]:
        vols = vols[:1]
    tr = spec["tr"]
    if tr is None:
        want_dt = 10 ** 12
    else:
        x = float.fromhex(tr["x"])
        u = tr["u"] if tr["kind"] == "time" else "s"
        want_dt = int(np.round(x * FACT[u]))
    total = sum(v.shape[-1] for v in vols)
    rois = [None] if spec["coords"] is None else (spec["coords"] if spec["rois"] else [spec["coords"]])
    if len(rois) != len(rec["obs"]):
        yield Fail("C15/time_series_from_file/roi-count", "%d ROIs requested, %d series returned" % (len(rois), len(rec["obs"])), len(rec["obs"]), len(rois))
        return
    for k, (roi, O, dat) in enumerate(zip(rois, rec["obs"], rec["data"])):
        if O["dt"] != want_dt:
            key = KEY_BIG if (want_dt >= BIG and (spec["filter"] or spec["normalize"])) else "C15/time_series_from_file/TR"
            yield Fail(key, "sampling interval %d ps, TR is %d ps" % (O["dt"], want_dt), O["dt"], want_dt)
        if O["n"] != total or O["tlen"] != total:
            yield Fail("C15/time_series_from_file/length", "%d samples, the files hold %d volumes" % (O["n"], total), O["n"], total)
        if O["tlen"] and (O["first"] != 0 or O["last"] != (O["tlen"] - 1) * O["dt"]):
            yield Fail("C15/time_series_from_file/time", "time axis is not 0, TR, 2 TR, …", [O["first"], O["last"]], [0, (O["tlen"] - 1) * O["dt"]])
        # data: the voxels requested, per file, (filtered,) normalised per file, averaged, appended in time
        per_file = []
        for v in vols:
            if roi is None:
                d = v
            else:
                c = np.array(roi).astype(int)
                d = np.array([v[c[0][i], c[1][i], c[2][i]] for i in range(c.shape[1])])
            if spec["filter"] is not None:
                # implementation-vs-implementation: the documented pipeline applied by hand
                T0 = ts.TimeSeries(d, sampling_interval=(1.0 if tr is None else (float.fromhex(tr["x"]) if tr["kind"] == "float" else ts.TimeArray(float.fromhex(tr["x"]), time_unit=tr["u"]))))
                fl = spec["filter"]
                FA = nta.FilterAnalyzer(T0, lb=fl.get("lb", 0), ub=fl.get("ub"), filt_order=fl.get("filt_order", 64))
                d = {"boxcar": lambda: FA.filtered_boxcar, "fourier": lambda: FA.filtered_fourier,
                     "fir": lambda: FA.fir, "iir": lambda: FA.iir}[fl["method"]]().data
            if spec["normalize"] == "percent":        # the definitions, not nitime.utils
                d = (d / d.mean(-1)[..., None] - 1) * 100
            elif spec["normalize"] == "zscore":
                d = (d - d.mean(-1)[..., None]) / d.std(-1)[..., None]
            if spec["average"]:
                d = np.mean(d.reshape(-1, d.shape[-1]), 0)
            per_file.append(d)
        want = np.concatenate(per_file, -1)
        got = np.array(dat, dtype=float)
        exact = spec["filter"] is None and spec["normalize"] is None and not spec["average"]
        ok = (got.shape == want.shape) and (np.array_equal(got, want) if exact else close(got, want))
        if not ok:
            yield Fail("C15/time_series_from_file/data" + ("" if exact else "/differential"),
                       "ROI %d: data returned differ from the voxel data at the requested coordinates%s" % (
                           k, "" if exact else " passed through the documented filter/normalise/average steps"),
                       {"shape": list(got.shape), "head": np.ravel(got)[:6].tolist()},
                       {"shape": list(want.shape), "head": np.ravel(want)[:6].tolist()})


# ----------------------------------------------------------------------------- generators
def gen_interval(rng, big=False):
    """(x as float in unit u, u): a sampling interval"""
    u = rng.choice(["s", "ms", "us"])
    f = FACT[u]
    r = rng.random()
    if big:
        ps = rng.randint(BIG, 2 ** 53)
        x = ps / f
    elif r < 0.45:
        k = rng.randint(1, 10 ** rng.randint(1, 6))
        x = k / 10 ** rng.randint(0, 5)
        if u == "us" and x < 1e-3:
            x = float(k)
    elif r < 0.6:
        x = rng.choice([0.81327, 0.001, 2.0, 1.5, 0.002, 1 / 3.0, 0.1]) * (1e12 / f)
    elif r < 0.8:
        x = rng.uniform(1e-4, 10) * (1e12 / f)
    else:
        x = 10 ** rng.uniform(-5.5, 2.5) * (1e12 / f)
    x = float(x)
    ps = x * f
    if not big and (ps < 10 ** 4 or ps >= 2 ** 46):
        x = 1.0
    return x, u


def gen_axis_spec(rng, quick, k):
    big = (k % 17 == 5) and (k % 11 != 3)     # never together with a long series: n * interval must stay inside int64
    x, u = gen_interval(rng, big)
    f = FACT[u]
    mode = "interval" if (big or rng.random() < 0.7) else "rate"
    if mode == "rate":
        r = rng.random()
        x = float(rng.choice([np.pi, 1000.0, 2.0, 0.5, 1 / 0.81327, 250.0, 44100.0]) if r < 0.5 else rng.uniform(0.05, 5000))
    # non-zero t0, a whole number of picoseconds well inside int64
    t0 = float(rng.choice([1, -1]) * rng.randint(1, 10 ** 4) / rng.choice([1, 2, 4, 8, 10])) * (1e12 / f if rng.random() < 0.5 else 1.0)
    if k % 23 == 7:
        t0 = 0.0
    nd = [2, 2, 1, 3, 2, 1][k % 6]
    n = rng.choice([64, 65, 96, 97, 100, 128] if quick else [64, 65, 96, 97, 100, 127, 128, 200, 255])
    large = (k % 11 == 3)
    if large:   # beyond any block size / fast-path threshold: just above powers of two, odd, prime, even
        n = rng.choice([1009, 1023, 1025, 2048, 2049, 4097] if quick else [1009, 1025, 2049, 4097, 8191, 8193, 16385])
    if nd == 1:
        shape = [n]
    elif nd == 2:
        shape = [rng.randint(2, 4), n]
    else:
        shape = [2, rng.randint(1, 3), n]
    spec = {"mode": mode, "x": x.hex(), "t0": float(t0).hex(), "u": u, "shape": shape, "seed": rng.randint(0, 2 ** 31 - 1),
            "heavy": (k % 5 == 0) and (n <= 1100 or k % 3 == 0) and n <= 4100,
            "wav_array": rng.random() < 0.6, "log_morlet": rng.random() < 0.3,
            "scale_pow": rng.choice([0, 0, 0, -60, -40, -20, -7, 5, 17, 30, 40]), "offset": rng.choice([0.0, 0.0, 3.0, -7.5, 100.0]),
            "layout": rng.choice(["C", "C", "F", "strided", "list"]), "derive": rng.choice([None, None, "copy", "time", "positional"]),
            "alt": rng.random() < 0.35, "alt_read_first": rng.random() < 0.6, "alt_spectral": rng.choice([0, 0, 1]),
            "filt": rng.choice([{"lb": 0.0, "ub_frac": 0.25}, {"lb": 0.05, "ub_frac": 0.3}, {"lb": 0.1, "ub_frac": None},
                                {"lb": 0.0, "ub_frac": None}, {"lb": 0.0, "ub_frac": 0.4}])}
    if k % 7 == 2 and not large:
        # integer-dtype samples: 1-d, (1, n) and (k, n)
        shape = [[n], [1, n], [rng.randint(2, 4), n]][(k // 7) % 3]
        nd = len(shape)
        spec.update(shape=shape, ints=["int16", "int32", "int64"][(k // 21) % 3 if k >= 21 else rng.randint(0, 2)],
                    offset=float(rng.choice([0, 3, -7, 100])), scale_pow=0, layout=rng.choice(["C", "F", "strided"]),
                    heavy=(k % 2 == 0))
    if nd <= 2:
        spec["ev"] = {"len_et": rng.randint(4, 11), "offset": rng.choice([0, 0, 1, 2, 3]), "two_types": rng.random() < 0.3}
        if nd == 1 and rng.random() < 0.4:
            spec["ev"]["offset"] = rng.choice([0, -1, -2])
            if spec["ev"]["offset"] < 0:
                spec["ev"]["events_only"] = True
    return spec


def gen_concat_spec(rng, k=0):
    x, u = gen_interval(rng)
    nruns = rng.choice([1, 2, 2, 3, 4, 5])
    nd = rng.choice([1, 2, 2])
    c = rng.randint(1, 3)
    many = (k % 10 == 4)        # many runs
    long_ = (k % 10 == 7)       # long runs (beyond any block size), odd / just above a power of two
    if many:
        nruns = rng.randint(9, 16)
    runs = []
    for _ in range(nruns):
        n = rng.choice([1023, 1025, 2049, 1009]) if long_ else rng.randint(1, 7)
        shape = (n,) if nd == 1 else (c, n)
        data = [[rng.randint(-99, 99) for _ in range(n)] for _ in range(c)] if nd == 2 else [rng.randint(-99, 99) for _ in range(n)]
        uu = u if rng.random() < 0.8 else rng.choice(["s", "ms", "us"])
        xx = float(x * FACT[u] / FACT[uu])
        if rng.random() < 0.1:          # a run with another interval (the last one's is kept)
            xx, uu = gen_interval(rng)
        runs.append({"x": xx.hex(), "u": uu,
                     "t0": float(rng.randint(-50, 50)).hex(), "data": data, "layout": rng.choice(["C", "C", "F", "strided"])})
    return {"runs": runs}


def gen_read_spec(rng, k):
    dims = [rng.randint(2, 4), rng.randint(2, 4), rng.randint(1, 3)]
    single = (k % 3 == 0)
    flt = None
    r = k % 8
    if r == 1:
        flt = {"method": rng.choice(["boxcar", "fourier", "iir"]), "lb": 0, "ub": None}
    elif r == 5:
        flt = {"method": "fir", "lb": 0, "ub": None, "filt_order": 8}
    many = (k % 9 == 4)
    long_ = (k % 9 == 7)
    lens = [rng.randint(3, 9) for _ in range(1 if single else (rng.randint(7, 12) if many else rng.randint(1, 4)))]
    if long_:
        lens = [rng.choice([257, 513, 1025]) for _ in lens[:2]]
        dims = [2, 2, rng.randint(1, 2)]
    if flt is not None:
        lens = [rng.randint(40, 56) for _ in lens]
    trk = rng.choice(["none", "float", "float", "time", "time"])
    if trk == "none":
        tr = None
        trsec = 1.0
    elif trk == "float":
        x = float(rng.choice([2.0, 1.5, 0.72, 2.2, 3.0, rng.uniform(0.3, 4)]))
        tr = {"kind": "float", "x": x.hex()}
        trsec = x
    else:
        u = rng.choice(["s", "ms", "us"])
        x = float(rng.choice([2.0, 1.5, 0.72, 2.2])) * (1e12 / FACT[u])
        tr = {"kind": "time", "x": x.hex(), "u": u}
        trsec = x * FACT[u] / 1e12
    fir_passes = 0
    if flt is not None:
        fs = 1.0 / trsec
        ubf = rng.choice([None, 0.2, 0.3])
        lbf = rng.choice([0, 0, 0.05])
        if flt["method"] == "iir" and ubf is None:
            ubf = 0.25
        if flt["method"] == "iir":
            lbf = 0
        flt["ub"] = None if ubf is None else ubf * fs
        flt["lb"] = lbf * fs
        fir_passes = (1 if (ubf is not None and ubf / 0.5 < 1) else 0) + (1 if lbf > 0 else 0)
    mode = rng.choice(["roi", "roi", "rois", "rois", "volume"])
    if mode == "volume" and flt is not None and flt["method"] == "boxcar":
        flt["method"] = "fourier"   # algorithms.boxcar_filter accepts 1-d / 2-d arrays only (it raises on a 4-d volume)
    m = rng.randint(1, 5)

    def roi():
        mm = rng.randint(1, 5)
        return [[rng.randint(0, dims[a] - 1) for _ in range(mm)] for a in range(3)]
    spec = {"dims": dims, "lens": lens, "seed": rng.randint(0, 2 ** 31 - 1), "single": single,
            "coords": None if mode == "volume" else (roi() if mode == "roi" else [roi() for _ in range(rng.randint(5, 9) if many else rng.randint(1, 3))]),
            "scale_pow": rng.choice([0, 0, 0, -60, -20, 10, 40]), "dtype": rng.choice(["int16", "float32", "float64"]),
            "gz": rng.random() < 0.25, "vol_layout": rng.choice(["C", "F", "strided"]), "tr_int": rng.random() < 0.5,
            "rois": mode == "rois", "coords_tuple": rng.random() < 0.5, "coords_float": (mode == "roi" and single and rng.random() < 0.3),
            "files_tuple": rng.random() < 0.3,
            "tr": tr, "normalize": rng.choice([None, None, "percent", "zscore"]), "average": rng.random() < 0.35,
            "filter": flt, "fir_passes": fir_passes}
    if mode == "roi" and not single and spec["coords_float"]:
        spec["coords_float"] = False
    return spec


# ----------------------------------------------------------------------------- re-use histories
KEY_SETINPUT = "C15/set_input/%s/init-derived-state"
KEY_SHARED = "C15/method-dict/shared-between-analyzers"
ATTR = {"RPsd": "psd", "RCpsd": "cpsd", "RPeriodogram": "periodogram", "RFourier": "spectrum_fourier",
        "RMultiTaper": "spectrum_multi_taper", "RSpectrum": "spectrum", "RFrequencies": "frequencies",
        "RCache": "cache", "RSparseFrequencies": "frequencies"}
CLS_ATTRS = {"ASpectral": ["RPsd", "RCpsd", "RPeriodogram", "RFourier"], "ACoherence": ["RSpectrum", "RFrequencies"],
             "ASparse": ["RCache", "RSparseFrequencies"]}
CLS_NAME = {"ASpectral": "SpectralAnalyzer", "ACoherence": "CoherenceAnalyzer", "ASparse": "SparseCoherenceAnalyzer"}


def run_seq(spec):
    """spec: series (list of build specs), ops (list of dicts).  Runs the history on real objects and records,
    per read, the Fs the algorithm layer was called with and a comparison with the direct call on the CURRENT input."""
    import nitime.analysis as nta
    import nitime.algorithms as tsa
    import matplotlib.mlab as mlab
    rec = {"spec": spec, "errors": [], "seen": [], "reads": []}
    try:
        built = [build_series(sp) for sp in spec["series"]]
    except Exception as e:  # noqa
        rec["errors"].append(("input", "%s: %s" % (type(e).__name__, str(e)[:100])))
        return rec
    rec["sobs"] = [obs_of(T) for T, _ in built]
    dicts, ans, cur, cls_of, dict_of = [], [], [], [], []
    with warnings.catch_warnings():
        warnings.simplefilter("ignore")
        for i, o in enumerate(spec["ops"]):
            try:
                if o["op"] == "newdict":
                    dicts.append({"this_method": "welch", "NFFT": 64})
                    rec["seen"].append(None)
                elif o["op"] == "init":
                    T = built[o["s"]][0]
                    m = None if o["d"] is None else dicts[o["d"]]
                    if o["c"] == "ASpectral":
                        an = nta.SpectralAnalyzer(T, method=m)
                    elif o["c"] == "ACoherence":
                        an = nta.CoherenceAnalyzer(T, method=m)
                    else:
                        an = nta.SparseCoherenceAnalyzer(T, ij=[(0, 1)], method=m)
                    ans.append(an); cur.append(o["s"]); cls_of.append(o["c"]); dict_of.append(o["d"])
                    rec["seen"].append(None)
                elif o["op"] == "set_input":
                    ans[o["a"]].set_input(built[o["s"]][0])
                    cur[o["a"]] = o["s"]
                    rec["seen"].append(None)
                else:
                    an, (T, data) = ans[o["a"]], built[cur[o["a"]]]
                    fs = float(T.sampling_rate)
                    with FsRec() as fr:
                        val = getattr(an, ATTR[o["r"]])
                    seen = [float.fromhex(h) for _, h in fr.seen]
                    rec["seen"].append(seen[0].hex() if seen else None)
                    rd = {"i": i, "a": o["a"], "cls": cls_of[o["a"]], "r": o["r"], "cur": fs.hex(), "dt": int(T.sampling_interval),
                          "seen": [v.hex() for v in seen[:4]], "shared": dict_of[o["a"]] is not None and
                          sum(1 for d in dict_of if d == dict_of[o["a"]]) > 1, "diff_ok": None}
                    n = data.shape[-1]
                    ref = None
                    if o["r"] == "RPsd":
                        rows_ = [mlab.psd(r_, NFFT=64, Fs=fs, detrend=mlab.detrend_none, window=mlab.window_hanning, noverlap=32) for r_ in data]
                        ref = np.concatenate([np.ravel(rows_[0][1])] + [np.ravel(p_[0]) for p_ in rows_])
                    elif o["r"] == "RCpsd":
                        f_, c_ = tsa.get_spectra(data, method={"this_method": "welch", "Fs": fs, "NFFT": 64})
                        ref = np.concatenate([np.ravel(f_), np.ravel(c_)])
                    elif o["r"] == "RPeriodogram":
                        f_, p_ = tsa.periodogram(data, Fs=fs)
                        ref = np.concatenate([np.ravel(f_), np.ravel(p_)])
                    elif o["r"] == "RFourier":
                        f_ = np.linspace(0, fs / 2, n // 2 + 1)
                        ref = np.concatenate([f_, np.ravel(np.fft.fft(data)[..., :f_.shape[0]])])
                    if ref is not None:
                        got = np.concatenate([np.ravel(val[0]), np.ravel(val[1])])
                        rd["diff_ok"] = close(got, ref, rtol=RTOL + 2.0 / max(rd["dt"], 1))
                    rec["reads"].append(rd)
            except Exception as e:  # noqa
                rec["errors"].append(("%s[op %d]" % (o.get("c") or o.get("r") or o["op"], i), "%s: %s" % (type(e).__name__, str(e)[:100])))
                rec["seen"].append(None)
    return rec


def series_coq(o):
    return "(mk_series (mk_axis %s %s %s %s) %s)" % (zlit(o["t0"]), zlit(o["dt"]), UNITS.get(o["u"], "UW"), zlit(o["n"]),
                                                     flit(float.fromhex(o["fs"])))


def seq_case(rec):
    spec, so = rec["spec"], rec["sobs"]
    ops = []
    for o in spec["ops"]:
        if o["op"] == "newdict":
            ops.append("(OpNewDict None)")
        elif o["op"] == "init":
            ops.append("(OpInit %s %s %s)" % (o["c"], "None" if o["d"] is None else "(Some %d%%nat)" % o["d"], series_coq(so[o["s"]])))
        elif o["op"] == "set_input":
            ops.append("(OpSetInput %d%%nat %s)" % (o["a"], series_coq(so[o["s"]])))
        else:
            ops.append("(OpRead %d%%nat %s)" % (o["a"], o["r"]))
    seen = llit(["None" if h is None else "(Some %s)" % flit(float.fromhex(h)) for h in rec["seen"]])
    kinds = sorted({o["c"] for o in spec["ops"] if o["op"] == "init"})
    kl = "seq/%s/%s%s" % ("+".join(k[1:] for k in kinds), "set_input" if any(o["op"] == "set_input" for o in spec["ops"]) else "no-set_input",
                           "/shared-dict" if any(o["op"] == "newdict" for o in spec["ops"]) else "")
    return Case("(%s, %s)" % (llit(ops), seen), {"kind": "seq", "spec": spec}, kl)


def oracle_seq(rec):
    for name, msg in rec["errors"]:
        yield Fail("C15/seq/%s/exception" % name, "%s raised %s" % (name, msg), msg, "a result")
    for rd in rec["reads"]:
        cur = float.fromhex(rd["cur"])
        name = "%s.%s" % (CLS_NAME[rd["cls"]], ATTR[rd["r"]])
        tol = (1e-12 + 1.0 / max(rd["dt"], 1)) * abs(cur)
        stale = [float.fromhex(h) for h in rd["seen"] if not abs(float.fromhex(h) - cur) <= tol]
        if not rd["seen"]:
            yield Fail("C15/seq/%s/no-Fs" % name, "%s (operation %d) called no algorithm entry point with an Fs" % (name, rd["i"]), None, cur)
        if stale or rd["diff_ok"] is False:
            what = ("%s (operation %d of the history) handed Fs=%r to the algorithm layer, the series being analysed has %r Hz"
                    % (name, rd["i"], stale[0], cur)) if stale else (
                "%s (operation %d) differs (values or frequency axis) from the direct algorithm call on the current series' data and rate" % (name, rd["i"]))
            if rd["cls"] == "ASpectral":
                key = "C15/seq/%s/%s" % (name, "Fs" if stale else "differential")
            elif rd["shared"]:
                key = KEY_SHARED
            else:
                key = KEY_SETINPUT % CLS_NAME[rd["cls"]]
            yield Fail(key, what, stale[0] if stale else None, cur)


def gen_seq_spec(rng, k):
    us = ["s", "ms", "us"]
    rng.shuffle(us)
    series = []
    for j in range(3):
        x, _ = gen_interval(rng)
        u = us[j]
        ps = max(10 ** 6, min(float(x) * FACT[_], 2.0 ** 44)) * rng.choice([1, 3, 7])   # clearly different rates
        series.append({"mode": "interval", "x": float(ps / FACT[u]).hex(), "t0": float(rng.randint(1, 50)).hex(), "u": u,
                       "shape": [rng.randint(2, 3), rng.choice([96, 100, 128, 131])], "seed": rng.randint(0, 2 ** 31 - 1)})
    ops = []
    t = k % 5
    if t == 0:      # construct on A, maybe read, set_input(B), read
        r = rng.choice(CLS_ATTRS["ASpectral"])
        ops = [{"op": "init", "c": "ASpectral", "d": None, "s": 0}]
        if rng.random() < 0.5:
            ops.append({"op": "read", "a": 0, "r": rng.choice(CLS_ATTRS["ASpectral"])})
        ops += [{"op": "set_input", "a": 0, "s": 1}, {"op": "read", "a": 0, "r": "RPsd"}, {"op": "read", "a": 0, "r": r}]
        if rng.random() < 0.5:
            ops += [{"op": "set_input", "a": 0, "s": 2}, {"op": "read", "a": 0, "r": rng.choice(CLS_ATTRS["ASpectral"])}]
    elif t == 1:    # one method dict without 'Fs' shared by two or three analyzers, reads in shuffled order
        na = rng.randint(2, 3)
        ops = [{"op": "newdict"}] + [{"op": "init", "c": "ASpectral", "d": 0, "s": j} for j in range(na)]
        reads = [{"op": "read", "a": a, "r": r} for a in range(na) for r in rng.sample(CLS_ATTRS["ASpectral"], 2)]
        rng.shuffle(reads)
        ops += [{"op": "read", "a": 0, "r": "RCpsd"}] + [r for r in reads if not (r["a"] == 0 and r["r"] == "RCpsd")]
    else:           # random histories over all three classes
        nd_ = rng.randint(0, 2)
        ops = [{"op": "newdict"} for _ in range(nd_)]
        na = rng.randint(1, 3)
        for a in range(na):
            ops.append({"op": "init", "c": rng.choice(["ASpectral", "ASpectral", "ASpectral", "ACoherence", "ASparse"]),
                        "d": rng.choice([None] + list(range(nd_))), "s": rng.randint(0, 2)})
        cls_ = [o["c"] for o in ops if o["op"] == "init"]
        done = [set() for _ in range(na)]
        for _ in range(rng.randint(4, 9)):
            a = rng.randint(0, na - 1)
            if rng.random() < 0.3:
                ops.append({"op": "set_input", "a": a, "s": rng.randint(0, 2)})
                done[a] = set()
            else:
                left = [r for r in CLS_ATTRS[cls_[a]] if r not in done[a]]
                if left:
                    r = rng.choice(left)
                    done[a].add(r)
                    ops.append({"op": "read", "a": a, "r": r})
    # a property is computed once: drop repeated reads of the same attribute between two set_inputs
    seen_, out = {}, []
    for o in ops:
        if o["op"] == "set_input":
            seen_[o["a"]] = set()
        if o["op"] == "read":
            if o["r"] in seen_.setdefault(o["a"], set()):
                continue
            seen_[o["a"]].add(o["r"])
        out.append(o)
    return {"series": series, "ops": out}


# ----------------------------------------------------------------------------- Events object: locked sample
EV_RATES = [("rate", 100.0, "s"), ("rate", 250.0, "s"), ("rate", 1000.0, "s"), ("interval", 1.35, "s"), ("interval", 0.72, "s"),
            ("interval", 1.0 / 3.0, "s"), ("interval", 10.0, "ms"), ("interval", 4.0, "ms"), ("interval", 1350.0, "ms"),
            ("interval", 720.0, "ms"), ("interval", 10000.0, "us"), ("interval", 1000.0, "us"), ("interval", 4000.0, "us"),
            ("rate", 100.0, "ms"), ("rate", 250.0, "us"), ("interval", 0.01, "s"), ("interval", 0.004, "s"), ("interval", 2.2, "s"),
            ("rate", 2.0, "s"), ("rate", 44100.0, "s")]


def gen_events_spec(rng, k):
    mode, x, u = EV_RATES[k % len(EV_RATES)]
    N = rng.choice([1500, 2100, 3000, 4200])
    L, off = rng.randint(3, 8), rng.choice([0, 0, -1, -2])
    fixed = [29, 57, 58, 113, 114, 115, 116, 201, 1001, 1003, 1025, 2049]
    pos = sorted({p_ for p_ in fixed if 2 < p_ < N - L - 2} | {rng.randint(3, N - L - 3) for _ in range(45)})
    return {"mode": mode, "x": float(x).hex(), "u": u, "N": N, "len_et": L, "offset": off, "pos": pos,
            "ev_unit": rng.choice([u, u, "s", "ms", "us"]), "seed": rng.randint(0, 2 ** 31 - 1)}


def run_events(spec):
    """on-grid events handed over as an Events object: which sample is each event locked to?"""
    import nitime.timeseries as ts
    import nitime.analysis as nta
    rec = {"spec": spec, "errors": [], "locked": []}
    N, L, off = spec["N"], spec["len_et"], spec["offset"]
    x = float.fromhex(spec["x"])
    kw = {"sampling_interval": x} if spec["mode"] == "interval" else {"sampling_rate": x}
    try:
        with warnings.catch_warnings():
            warnings.simplefilter("ignore")
            ramp = ts.TimeSeries(np.arange(N, dtype=float), time_unit=spec["u"], **kw)
            dt = int(ramp.sampling_interval)
            rec["dt"] = dt

            def events(ps_list):
                t = ts.TimeArray(np.array(ps_list, dtype=np.int64), time_unit="ps")
                t.convert_unit(spec["ev_unit"])
                return ts.Events(t)
            for p_ in spec["pos"]:
                # one event exactly on sample p_: on the ramp, eta[0] is the index of the first sample of the segment
                e1 = nta.EventRelatedAnalyzer(ramp, events([p_ * dt]), L, offset=off).eta
                rec["locked"].append([p_ * dt, int(round(float(np.real(np.ravel(e1.data)[0])))) - off])
            rs = np.random.RandomState(spec["seed"])
            noise = ts.TimeSeries(rs.randn(N), time_unit=spec["u"], **kw)
            EA = nta.EventRelatedAnalyzer(noise, events([p_ * dt for p_ in spec["pos"]]), L, offset=off)
            rec["eta"], rec["ets"] = np.real(EA.eta.data).tolist(), np.real(EA.ets.data).tolist()
            rec["eta_obs"] = obs_of(EA.eta)
            rec["noise"] = noise.data
            if off >= 0:
                code = np.zeros(N)
                code[spec["pos"]] = 1
                rec["eta_coded"] = np.real(nta.EventRelatedAnalyzer(noise, ts.TimeSeries(code, time_unit=spec["u"], **kw), L, offset=off).eta.data).tolist()
    except Exception as e:  # noqa
        rec["errors"].append(("EventRelatedAnalyzer(Events)", "%s: %s" % (type(e).__name__, str(e)[:120])))
    return rec


def events_case(rec):
    spec = rec["spec"]
    coq = "(%s, %s)" % (zlit(rec["dt"]), llit(["(%s, %s)" % (zlit(a), zlit(b)) for a, b in rec["locked"]]))
    return Case(coq, {"kind": "events", "spec": spec}, "events-object/%s=%s %s/events in %s" % (
        spec["mode"], float.fromhex(spec["x"]), spec["u"], spec["ev_unit"]))


def oracle_events(rec):
    spec = rec["spec"]
    for name, msg in rec["errors"]:
        yield Fail("C15/%s/exception" % name, "%s raised %s" % (name, msg), msg, "a result")
    if "dt" not in rec:
        return
    dt, L, off = rec["dt"], spec["len_et"], spec["offset"]
    for ev_ps, got in rec["locked"]:
        want = ev_ps // dt            # exact integer picosecond arithmetic
        if got != want:
            yield Fail("C15/EventRelatedAnalyzer(Events).eta/locked-sample",
                       "an event at %d ps (sample %d of a series sampled every %d ps) is locked to sample %d: the segment labelled "
                       "t = offset*dt starts at data[%d], not data[%d]" % (ev_ps, want, dt, got, got + off, want + off), got, want)
    if "eta" in rec:
        d = rec["noise"]
        seg = np.array([d[p_ + off:p_ + off + L] for p_ in spec["pos"]])
        for nm, ref in (("eta", seg.mean(0)), ("ets", seg.std(0, ddof=1) / np.sqrt(seg.shape[0]))):
            if not close(np.array(rec[nm]), ref):
                yield Fail("C15/EventRelatedAnalyzer(Events).%s/differential" % nm,
                           "%s over %d on-grid events differs from the statistic of data[idx+offset : idx+offset+len_et], idx = event_ps // interval_ps"
                           % (nm, len(spec["pos"])), rec[nm][:4], ref[:4].tolist())
        if "eta_coded" in rec and not close(np.array(rec["eta"]), np.array(rec["eta_coded"])):
            yield Fail("C15/EventRelatedAnalyzer(Events).eta/vs-coded-series", "eta from the Events object differs from eta from the event-coded series",
                       rec["eta"][:4], rec["eta_coded"][:4])
        O = rec["eta_obs"]
        if O["t0"] != off * dt or O["dt"] != dt or O["n"] != L or O["u"] != spec["u"]:
            yield Fail("C15/EventRelatedAnalyzer(Events).eta/axis", "axis (t0 %d, dt %d, n %d, %s), required (%d, %d, %d, %s)" % (
                O["t0"], O["dt"], O["n"], O["u"], off * dt, dt, L, spec["u"]), None, None)


# ----------------------------------------------------------------------------- 2-d coded events, per-channel code sets
def gen_evcodes_spec(rng, k):
    x, u = gen_interval(rng)
    c = rng.randint(2, 4)
    ncodes = rng.randint(1, 3)
    n = rng.choice([120, 150, 201])
    L, off = rng.randint(3, 7), rng.choice([0, 0, 1, 2])
    pool = [1, 2, 3, 4, 5, 7, 9]
    chans = []
    for ch in range(c):
        # every channel has its OWN set of ncodes event codes (same count: the analyzer stacks the channels),
        # sometimes equal to the first channel's, mostly different
        codes = sorted(rng.sample(pool, ncodes)) if (ch > 0 and k % 4 != 0) or ch == 0 else list(chans[0]["codes"])
        ev = {}
        free = list(range(3, n - L - 4))
        rng.shuffle(free)
        for cd in codes:
            cnt = rng.randint(1, 4)
            ev[str(cd)] = sorted(free[:cnt])
            free = free[cnt:]
        chans.append({"codes": codes, "pos": ev})
    return {"mode": "interval", "x": float(x).hex(), "t0": float(rng.randint(1, 40)).hex(), "u": u, "shape": [c, n],
            "seed": rng.randint(0, 2 ** 31 - 1), "len_et": L, "offset": off, "chans": chans}


def run_evcodes(spec):
    import nitime.timeseries as ts
    import nitime.analysis as nta
    rec = {"spec": spec, "outs": [], "diff": [], "errors": [], "fs_used": [], "_vals": {}}
    c, n = spec["shape"]
    L, off = spec["len_et"], spec["offset"]
    try:
        with warnings.catch_warnings():
            warnings.simplefilter("ignore")
            T, data = build_series(spec)
            rec["iobs"] = obs_of(T)
            e = np.zeros((c, n))
            for ch, cd in enumerate(spec["chans"]):
                for code, pos in cd["pos"].items():
                    e[ch, pos] = int(code)
            E = ts.TimeSeries(e, sampling_interval=T.sampling_interval, t0=T.t0, time_unit=T.time_unit)
            EA = nta.EventRelatedAnalyzer(T, E, L, offset=off)
            for nm in ("eta", "ets"):
                S = getattr(EA, nm)
                rec["outs"].append({"name": "EventRelatedAnalyzer.%s[per-channel codes]" % nm, "sel": "(OEvInterval %s %s)" % (zlit(off), zlit(L)),
                                    "obs": obs_of(S)})
                rec[nm] = np.array(S.data)
            rec["data"] = data
    except Exception as e_:  # noqa
        rec["errors"].append(("EventRelatedAnalyzer[per-channel codes]", "%s: %s" % (type(e_).__name__, str(e_)[:120])))
    return rec


def oracle_evcodes(rec):
    spec = rec["spec"]
    yield from oracle_axis(rec)
    if "eta" not in rec or "ets" not in rec:
        return
    c, n = spec["shape"]
    L, off = spec["len_et"], spec["offset"]
    k = len(spec["chans"][0]["codes"])
    want_shape = (c, k, L) if k > 1 else (c, L)
    name = "EventRelatedAnalyzer.eta[per-channel codes]"
    if rec["eta"].shape != want_shape or rec["eta"].shape != rec["ets"].shape:
        yield Fail("C15/%s/shape" % name, "eta has shape %s, ets %s; every channel has %d event codes of its own: required %s" % (
            rec["eta"].shape, rec["ets"].shape, k, want_shape), list(rec["eta"].shape), list(want_shape))
        return
    pad = np.hstack([np.zeros((c, off)), rec["data"], np.zeros((c, L))])
    ref = np.array([[np.mean([pad[ch, p_ + 2 * off:p_ + 2 * off + L] for p_ in cd["pos"][str(code)]], 0) for code in sorted(cd["codes"])]
                    for ch, cd in enumerate(spec["chans"])]).reshape(want_shape)
    if not close(np.real(rec["eta"]), ref) or np.isnan(rec["eta"]).any():
        yield Fail("C15/%s/differential" % name, "eta rows are not the means of each channel's own event-locked segments, in the order of "
                   "that channel's sorted codes %s" % [cd["codes"] for cd in spec["chans"]], np.real(rec["eta"]).ravel()[:4].tolist(), ref.ravel()[:4].tolist())


# ----------------------------------------------------------------------------- G: keyword table
def gen_handover():
    """which keywords every analyzer output passes to TimeSeries(...): read off the running code by
    wrapping TimeSeries.__init__ while each output is evaluated on a fresh analyzer"""
    import nitime.timeseries as ts
    import nitime.analysis as nta
    from nitime.analysis import snr as snr_mod
    rs = np.random.RandomState(7)
    T2 = ts.TimeSeries(rs.randn(3, 64), sampling_interval=2.0, t0=5000.0, time_unit="ms")
    T1 = ts.TimeSeries(rs.randn(64), sampling_interval=2.0, t0=5000.0, time_unit="ms")
    e = np.zeros(64)
    e[[5, 20, 40]] = 1
    E1 = ts.TimeSeries(e, sampling_interval=2.0, t0=5000.0, time_unit="ms")
    fsv = float(T2.sampling_rate)
    rows_, errors = [], []
    orig = ts.TimeSeries.__init__
    calls = []

    def wrapper(self, *a, **k):
        calls.append((k.get("sampling_rate") is not None, k.get("sampling_interval") is not None,
                      "t0" in k and k["t0"] is not None, "time_unit" in k and k["time_unit"] is not None))
        return orig(self, *a, **k)

    outputs = []
    for nm in ("z_score", "percent_change"):
        outputs.append(("NormalizationAnalyzer." + nm, "ONorm", lambda nm=nm: getattr(nta.NormalizationAnalyzer(T2), nm)))
    for cls, T, kw in ((nta.HilbertAnalyzer, T2, {}), (nta.MorletWaveletAnalyzer, T1, {"freqs": [fsv / 8]})):
        outputs.append((cls.__name__ + ".analytic", "OAnalytic", lambda cls=cls, T=T, kw=kw: cls(T, **kw).analytic))
        for nm in ("amplitude", "phase", "real", "imag"):
            outputs.append((cls.__name__ + "." + nm, "ODerived", lambda cls=cls, T=T, kw=kw, nm=nm: getattr(cls(T, **kw), nm)))
    for nm in ("iir", "filtered_fourier", "filtered_boxcar"):
        outputs.append(("FilterAnalyzer." + nm, "OFilt", lambda nm=nm: getattr(nta.FilterAnalyzer(T2, ub=fsv / 4, filt_order=8), nm)))
    outputs.append(("FilterAnalyzer.filtfilt(in_ts=)", "OFilt", lambda: nta.FilterAnalyzer(T1).filtfilt([0.25, 0.5, 0.25], [1.0], in_ts=T2)))
    outputs.append(("FilterAnalyzer.filtfilt()", "OFilt", lambda: nta.FilterAnalyzer(T2).filtfilt([0.25, 0.5, 0.25], [1.0])))
    outputs.append(("FilterAnalyzer.fir", "(OFir 2)", lambda: nta.FilterAnalyzer(T2, lb=fsv / 20, ub=fsv / 4, filt_order=8).fir))
    outputs.append(("FilterAnalyzer.fir[no pass]", "(OFir 0)", lambda: nta.FilterAnalyzer(T2, filt_order=8).fir))
    for nm in ("xcorr", "xcorr_norm"):
        outputs.append(("CorrelationAnalyzer." + nm, "OXcorr", lambda nm=nm: getattr(nta.CorrelationAnalyzer(T2), nm)))
    outputs.append(("snr.signal_noise", "OSnr", lambda: snr_mod.signal_noise(T2)))
    outputs.append(("EventRelatedAnalyzer.FIR", "(OEvRate 1 6)", lambda: nta.EventRelatedAnalyzer(T1, E1, 6, offset=1).FIR))
    outputs.append(("EventRelatedAnalyzer.xcorr_eta", "(OEvRate 0 3)", lambda: nta.EventRelatedAnalyzer(T1, E1, 6).xcorr_eta))
    for nm in ("eta", "ets", "et_data"):
        outputs.append(("EventRelatedAnalyzer." + nm, "(OEvInterval 1 6)", lambda nm=nm: getattr(nta.EventRelatedAnalyzer(T1, E1, 6, offset=1), nm)))
    table = {}
    ts.TimeSeries.__init__ = wrapper
    try:
        with warnings.catch_warnings():
            warnings.simplefilter("ignore")
            for name, sel, f in outputs:
                del calls[:]
                try:
                    f()
                except Exception as ex:  # noqa
                    errors.append((name, "%s: %s" % (type(ex).__name__, str(ex)[:80])))
                for cpat in calls:
                    rows_.append("(%s, mk_ho %s %s %s %s)" % ((sel,) + tuple(blit(b) for b in cpat)))
                table[name] = [list(cpat) for cpat in calls]
    finally:
        ts.TimeSeries.__init__ = orig
    src = HEADER + "Definition gen_handover : list (outsel * handover) := %s.\n" % llit(rows_)
    src += ("Lemma handover_table_ok : handover_table_matches gen_handover = true.\nProof. vm_compute. reflexivity. Qed.\n"
            "Lemma handover_table_all_kinds : handover_table_complete gen_handover = true.\nProof. vm_compute. reflexivity. Qed.\n")
    return src, table, errors


# ----------------------------------------------------------------------------- corpus / run
def corpus():
    p = core.VERIF / "harness" / "corpus" / "C15"
    out = []
    if p.exists():
        for f in sorted(p.glob("*.json")):
            out.append(json.loads(f.read_text()))
    return out


HEADER = ("From Coq Require Import ZArith List Bool QArith PrimFloat.\n"
          "From NT Require Import F2Z Lists Close TimeArray FrontEnd C15K.\nImport ListNotations.\nOpen Scope Z_scope.\n")


def val_powers(name):
    """how an analyzer value scales when the data are multiplied by c: the set of admissible exponents
    (values that carry a frequency axis in front admit 0 for those entries)"""
    base = name[4:] if name.startswith("out:") else name
    if base.endswith(".phase") or "z_score" in base or "percent_change" in base or "xcorr_norm" in base \
            or "corrcoef" in base or "oheren" in base or "Granger" in base or base.endswith("frequencies"):
        return (0,)
    if "xcorr" in base and "xcorr_eta" not in base:
        return (2,)
    if base in ("SpectralAnalyzer.psd", "SpectralAnalyzer.periodogram", "SpectralAnalyzer.cpsd", "SpectralAnalyzer.spectrum_multi_taper"):
        return (0, 2)
    if base.startswith("SNRAnalyzer.mt_") :
        return (2,)
    if base == "SpectralAnalyzer.spectrum_fourier":
        return (0, 1)
    return (1,)


def compare_runs(rec, rec2, cpow, what, key_suffix):
    """rec2 is the same case on data * 2^cpow (cpow = None: the same samples in another dtype); yields Fails"""
    I, I2 = rec.get("iobs"), rec2.get("iobs")
    if I is None or I2 is None:
        return
    ax = lambda r: [(o["name"], {k: v for k, v in o["obs"].items()}) for o in r["outs"]]
    if {k: v for k, v in I.items()} != {k: v for k, v in I2.items()} or ax(rec) != ax(rec2):
        yield Fail("C15/time-axis/%s" % key_suffix, "descriptors of input / outputs change when the data are %s" % what, None, None)
    for name, v in rec["_vals"].items():
        if name not in rec2["_vals"]:
            yield Fail("C15/%s/%s" % (name, key_suffix), "%s: no result for the data %s (%s)" % (name, what, [e for e in rec2["errors"]][:2]), None, None)
            continue
        w = rec2["_vals"][name]
        if v.shape != w.shape:
            yield Fail("C15/%s/%s" % (name, key_suffix), "%s: shape %s for the data %s, %s otherwise" % (name, w.shape, what, v.shape), list(w.shape), list(v.shape))
            continue
        v_, w_ = np.ravel(v).astype(complex), np.ravel(w).astype(complex)
        fin = np.isfinite(v_) & np.isfinite(w_)
        if not np.array_equal(np.isfinite(v_), np.isfinite(w_)):
            yield Fail("C15/%s/%s" % (name, key_suffix), "%s: non-finite entries differ for the data %s" % (name, what), None, None)
            continue
        rt = 1e-6 if "Granger" in name else 1e-8
        ok = np.zeros(v_.shape, bool) | ~fin
        for p_ in ((0,) if cpow is None else val_powers(name)):
            tgt = v_ * (2.0 ** (cpow * p_) if cpow is not None else 1.0)
            sc = float(np.max(np.abs(tgt[fin]))) if fin.any() else 0.0
            ok |= np.abs(w_ - tgt) <= rt * np.abs(tgt) + 1e-10 * sc
        if not ok.all():
            i = int(np.argmin(ok))
            yield Fail("C15/%s/%s" % (name, key_suffix),
                       "%s: value %r for the data %s, %r otherwise (entry %d of %d; admissible scaling exponents %s)" % (
                           name, complex(w_[i]), what, complex(v_[i]), i, v_.size, list(val_powers(name)) if cpow is not None else "-"),
                       repr(complex(w_[i])), repr(complex(v_[i])))


def run_one(item, tmp):
    """item: {'kind': axis|concat|read, 'spec': …} -> (record, cases, fails)"""
    k = item["kind"]
    if k == "axis":
        spec = item["spec"]
        rec = run_axis(spec)
        cases = axis_case(rec) if "iobs" in rec else []
        fails = list(oracle_axis(rec))
        rec["companions"] = 0
        if spec.get("ints"):
            # the same samples as float64: an analyzer must not depend on the storage type of the data
            rec2 = run_axis(dict(spec, ints="float64"))
            fails += list(compare_runs(rec2, rec, None, "stored as %s instead of float64" % spec["ints"], "integer-data"))
            rec["companions"] += 1
        elif not item.get("no_rescale"):
            # the same case on data multiplied by exact powers of two far from its scale
            for cp in ((-45, 35) if spec["shape"][-1] <= 1100 else (35,)):
                rec2 = run_axis(dict(spec, scale_pow=spec.get("scale_pow", 0) + cp))
                fails += list(compare_runs(rec, rec2, cp, "multiplied by 2^%d" % cp, "rescaled"))
                rec["companions"] += 1
    elif k == "concat":
        rec = run_concat(item["spec"])
        cases = [concat_case(rec)] if "out" in rec else []
        fails = list(oracle_concat(rec))
    elif k == "evcodes":
        rec = run_evcodes(item["spec"])
        cases = axis_case(rec) if "iobs" in rec else []
        fails = list(oracle_evcodes(rec))
        for key_ in ("data", "eta", "ets"):
            rec.pop(key_, None)
    elif k == "events":
        rec = run_events(item["spec"])
        cases = []
        rec["_ev_case"] = events_case(rec) if "dt" in rec and rec["locked"] else None
        fails = list(oracle_events(rec))
        rec.pop("noise", None)
    elif k == "seq":
        rec = run_seq(item["spec"])
        cases = []
        rec["_seq_case"] = seq_case(rec) if "sobs" in rec and len(rec["seen"]) == len(item["spec"]["ops"]) else None
        fails = list(oracle_seq(rec))
    else:
        rec = run_read(item["spec"], tmp)
        cases = read_cases(rec)
        fails = list(oracle_read(rec))
    return rec, cases, fails


def check_cases_retry(ctx, *a, **k):
    """ctx.check_cases, repeated once when a shard's coqc died without output (machine overload:
    the localisation pass then reports no disagreeing case) — not a verdict on the property"""
    snap = (list(ctx.obligations), list(ctx.broken), ctx.cases_total, dict(ctx.dist), set(ctx.nontrivial), list(ctx.samples))
    bad = ctx.check_cases(*a, **k)
    transient = [b for b in ctx.broken[len(snap[1]):] if b["kind"] == "K" and not b["detail"].strip()]
    if transient and not bad:
        ctx.obligations, ctx.broken, ctx.cases_total = list(snap[0]), list(snap[1]), snap[2]
        ctx.dist, ctx.nontrivial, ctx.samples = dict(snap[3]), set(snap[4]), list(snap[5])
        ctx.notes.append("K shards %s: coqc died without output, recompiled" % [b["lemma"] for b in transient])
        bad = ctx.check_cases(*a, **k)
    return bad


def run(ctx):
    core.import_nitime()
    ctx.check_props()
    src, table, gerr = gen_handover()
    g = ctx.check_gen("G_handover", src, ["handover_table_ok", "handover_table_all_kinds"])
    ctx.extra["keyword_table"] = table
    for name, msg in gerr:
        ctx.report_fail(Fail("C15/%s/exception" % name, "%s raised %s" % (name, msg), msg, "a result",
                             {"entry_point": name, "item": {"kind": "handover"}}), None)
    if not g.ok:
        # which call does not pass the rate/interval, t0 and unit on (the property's demand on the axis)
        for name, pats in table.items():
            for pat in pats:
                if not ((pat[0] or pat[1]) and pat[2] and pat[3]):
                    ctx.report_fail(Fail("C15/%s/keywords" % name,
                                         "%s builds its output without handing over %s" % (
                                             name, ", ".join(w for w, b in zip(("", "", "t0", "time_unit"), pat) if w and not b) or "the sampling"),
                                         pat, [True, False, True, True],
                                         {"entry_point": name, "item": {"kind": "handover"}}), None)
    rng = ctx.rng
    items = list(corpus())
    n_axis = ctx.scale(90, 900)
    items += [{"kind": "axis", "spec": gen_axis_spec(rng, ctx.quick, k)} for k in range(n_axis)]
    items += [{"kind": "concat", "spec": gen_concat_spec(rng, k)} for k in range(ctx.scale(60, 600))]
    items += [{"kind": "read", "spec": gen_read_spec(rng, k)} for k in range(ctx.scale(64, 480))]
    items += [{"kind": "seq", "spec": gen_seq_spec(rng, k)} for k in range(ctx.scale(40, 300))]
    items += [{"kind": "evcodes", "spec": gen_evcodes_spec(rng, k)} for k in range(ctx.scale(24, 200))]
    items += [{"kind": "events", "spec": gen_events_spec(rng, k)} for k in range(ctx.scale(len(EV_RATES), 6 * len(EV_RATES)))]
    tmp = tempfile.mkdtemp(prefix="c15_nifti_")
    all_cases, all_fails = [], []
    seq_cases, ev_cases = [], []
    ndiff = nfs = nouts = ncomp = 0
    try:
        for it in items:
            rec, cases, fails = run_one(it, tmp)
            if rec.get("_ev_case") is not None:
                rec["_ev_case"].item = it
                ev_cases.append(rec["_ev_case"])
            if rec.get("_seq_case") is not None:
                rec["_seq_case"].item = it
                seq_cases.append(rec["_seq_case"])
            for c in cases:
                c.item = it
            all_cases += cases
            all_fails += [(f, it) for f in fails]
            ndiff += len(rec.get("diff", []))
            nfs += len(rec.get("fs_used", []))
            nouts += len(rec.get("outs", [])) + len(rec.get("obs", []))
            ncomp += rec.get("companions", 0)
    finally:
        shutil.rmtree(tmp, ignore_errors=True)
    bad = check_cases_retry(ctx, "K", HEADER, all_cases, "check", shard=ctx.scale(40, 120), case_type="case")
    sbad = check_cases_retry(ctx, "KS", HEADER, seq_cases, "(fun c => check_seq (fst c) (snd c))", shard=ctx.scale(40, 100),
                             case_type="(list op * list (option float))")
    ebad = check_cases_retry(ctx, "KE", HEADER, ev_cases, "check_evidx", shard=ctx.scale(40, 60), case_type="(Z * list (Z * Z))")
    bad_items = {id(all_cases[i].item) for i in bad} | {id(seq_cases[i].item) for i in sbad} | {id(ev_cases[i].item) for i in ebad}
    reported = set()
    for f, it in all_fails:
        f.replay = {"entry_point": f.key, "item": it, "model_disagrees": id(it) in bad_items}
        if ctx.report_fail(f, None):
            reported.add(id(it))
    ctx.extra["model_impl_disagreements"] = len(bad) + len(sbad) + len(ebad)
    ctx.extra["differential_validation"] = {
        "note": "implementation-vs-implementation (analyzer result vs direct algorithm call on series.data with "
                "Fs=float(series.sampling_rate); reader output vs the documented pipeline applied by hand): "
                "a search oracle, NOT part of the proof",
        "comparisons": ndiff, "rescaled_or_retyped_reruns": ncomp, "Fs_hand_overs_recorded": nfs, "output_descriptors_compared": nouts}
    ctx.extra["rule"] = ("seeded generator: inputs built with sampling_interval= / sampling_rate= in s, ms, us, non-zero t0, "
                         "1-d/2-d/3-d data, intervals from 10 ns to 2^46 ps (every 17th at or above 2^49 ps), all analyzers that accept "
                         "the input; every analyzer case re-run on its data * 2^-45 and * 2^35 (values must scale by c^0 / c^1 / c^2, descriptors unchanged), every 7th case on "
                         "int16 / int32 / int64 samples (1-d, (1,n), (k,n)) against the same samples as float64; series lengths 64-128 and (every 11th) 1009-4097 (thorough: to 16385), data scaled by 2^-60..2^40 with offsets, "
                         "C / Fortran / strided / list data, inputs re-derived through copy() / time= / positional arguments, analyzers entered "
                         "through set_input / input= / explicit method dicts; concatenations of 1-16 runs of 1-2049 samples; generated NIfTI files "
                         "(int16 / float32 / float64, .nii / .nii.gz, C / Fortran / strided arrays, values scaled by powers of two; single / up to 12 "
                         "files of up to 1025 volumes, ROI / up to 9 ROIs / whole volume, TR none / int / float / time object, normalise, average, filter); non-trivial = at least one "
                         "output descriptor (axis), more than one run (concat), every reader case")
    return ctx.finish(
        level="proof",
        trusted=["PrimFloat primitives (mul, div, of_uint63, Prim2SF) as the IEEE binary64 semantics of the Python float steps",
                 "numpy integer-array indexing, np.concatenate and nibabel round trip of int16 data (modelled by select / hcat)",
                 "the Fs recorder wraps get_spectra, periodogram, multi_taper_psd, cache_fft, wmorlet, wlogmorlet, get_freqs, mlab.psd"],
        assumptions=["PARTIAL by design: 'analyzer output = algorithm output on series.data' is differential validation "
                     "(implementation vs implementation), not a theorem",
                     "exactness of the binary64 rate hand-over (interval -> rate -> interval) is the hypothesis rate_ok of the axis "
                     "theorems; checked per input in K, refuted from 2^49 ps on (known finding)",
                     "FilterAnalyzer output values are C18's; only their axis is checked here"],
        explanation="axis descriptors, Fs plumbing, reader selection/ROI/file order and concatenation are proved over the model and "
                    "tied to the code by K; numerical fidelity of the analyzers is differential validation")


def replay(ctx, path):
    core.import_nitime()
    d = json.loads(open(path).read())
    it = d.get("item") or d
    if it.get("kind") == "handover":
        src, table, gerr = gen_handover()
        badrows = {k: v for k, v in table.items() if any(not ((p[0] or p[1]) and p[2] and p[3]) for p in v)}
        print(json.dumps({"keyword_table": table, "incomplete": badrows, "errors": gerr}, indent=1))
        return 1 if (badrows or gerr) else 0
    tmp = tempfile.mkdtemp(prefix="c15_nifti_")
    try:
        rec, cases, fails = run_one(it, tmp)
    finally:
        shutil.rmtree(tmp, ignore_errors=True)
    known = {f["key"] for f in ctx.findings.get("known", [])}
    fails_new = [f for f in fails if f.key not in known]
    print(json.dumps({"still_fails": bool(fails_new),
                      "fails": [{"key": f.key, "what": f.what, "known": f.key in known} for f in fails][:12],
                      "item": it,
                      "observed": {k: rec.get(k) for k in ("iobs", "outs", "out", "obs", "errors", "fs_used")}},
                     indent=1, default=str)[:6000])
    return 1 if fails_new else 0
