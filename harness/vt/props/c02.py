"""C02 — every valid sampling specification yields one well-formed uniform time axis.

P: coq/Props/C02.v (theorems over Model/Uniform.v)
G: argument-pattern validity tables of UniformTime.__new__ (2^4 patterns x {no data, data}) and
   TimeSeries.__init__ (2^3), obtained by probing the constructors, proved equal to the model's
K: seeded constructor calls (UniformTime / TimeSeries / TimeSeries.time); the Coq kernel evaluates the
   bit-exact PrimFloat model and compares n, first/last sample, t0, interval, duration (ps), rate, unit,
   exception class
oracle: the statement's arithmetic with Fractions on the implementation's results
"""
import itertools
import json
import math
from fractions import Fraction

import numpy as np

from vt import core
from vt.props.ckretry import check_cases_retry
from vt.core import Case, Fail, zlit, flit, blit, llit

UNITS = ["ps", "ns", "us", "ms", "s", "m", "h", "D", "W"]
UCOQ = dict(zip(UNITS, ["Ups", "Uns", "Uus", "Ums", "Us", "Um", "Uh", "UD", "UW"]))
FACT = {"ps": 1, "ns": 10 ** 3, "us": 10 ** 6, "ms": 10 ** 9, "s": 10 ** 12, "m": 60 * 10 ** 12,
        "h": 3600 * 10 ** 12, "D": 86400 * 10 ** 12, "W": 7 * 86400 * 10 ** 12}
LIM = 2 ** 62
E12 = 10 ** 12


def err_name(e):
    for cls, name in ((ValueError, "ValueError"), (TypeError, "TypeError"), (AttributeError, "AttributeErr"),
                      (NotImplementedError, "NotImplementedErr")):
        if isinstance(e, cls):
            return name
    return "OtherError"


# ------------------------------------------------------------------ values
def vint(v):
    return {"t": "int", "v": int(v)}


def vflt(x):
    return {"t": "float", "v": float(x).hex()}


def vtime(ps, u):
    return {"t": "time", "ps": int(ps), "u": u}


def vfreq(x):
    return {"t": "freq", "v": float(x).hex()}


def mk_val(ts, d):
    if d is None:
        return None
    t = d["t"]
    if t == "int":
        return int(d["v"])
    if t == "float":
        return float.fromhex(d["v"])
    if t == "time":
        a = ts.TimeArray(np.int64(d["ps"]), time_unit="ps")
        a.convert_unit(d["u"])
        return a
    if t == "freq":
        return ts.Frequency(float.fromhex(d["v"]))
    raise KeyError(t)


def val_coq(d):
    t = d["t"]
    if t == "int":
        return "(VInt %s)" % zlit(d["v"])
    if t == "float":
        return "(VFlt %s)" % flit(float.fromhex(d["v"]))
    if t == "time":
        return "(VTime %s %s)" % (zlit(d["ps"]), UCOQ[d["u"]])
    if t == "freq":
        return "(VFreq %s)" % flit(float.fromhex(d["v"]))
    raise KeyError(t)


def oval(d):
    return "None" if d is None else "(Some %s)" % val_coq(d)


def ozl(v):
    return "None" if v is None else "(Some %s)" % zlit(v)


def uarg_coq(u):
    if u is None:
        return "UArgNone"
    return "(UArg %s)" % UCOQ[u] if u in UCOQ else "UArgBad"


def val_exact_ps(d, unit):
    """the exact (rational) number of picoseconds a time-like argument stands for, read in `unit`"""
    t = d["t"]
    if t == "int":
        return Fraction(d["v"]) * FACT[unit]
    if t == "float":
        return Fraction(float.fromhex(d["v"])) * FACT[unit]
    if t == "time":
        return Fraction(d["ps"])
    raise KeyError(t)


def rate_exact_hz(d):
    if d["t"] == "int":
        return Fraction(d["v"])
    return Fraction(float.fromhex(d["v"]))


# ------------------------------------------------------------------ axes given as data / time
DERIVE = ["ctor", "plus0", "copycopy", "npcopy", "view", "fullslice", "series_time", "positional", "slice1", "step2",
          "copy_of_copy", "plus0_of_view"]          # second-generation objects too
SLICED = ("slice1", "step2")


def derive_axis(ts, u, how):
    """the same axis reached through another path (ufunc result, copies, views, slices)"""
    import copy
    if how in (None, "ctor", "series_time", "positional"):
        return u
    if how == "plus0":
        return u + 0
    if how == "copycopy":
        return copy.copy(u)
    if how == "npcopy":
        return np.copy(u, subok=True)
    if how == "view":
        return u.view()
    if how == "fullslice":
        return u[:]
    if how == "copy_of_copy":
        return copy.copy(u.copy())
    if how == "plus0_of_view":
        return u.view() + 0
    if how == "slice1":
        return u[1:]
    if how == "step2":
        return u[::2]
    raise KeyError(how)


def mk_axis(ts, ad):
    how = ad.get("derive")
    if how == "series_time":
        u = ts.TimeSeries(np.zeros(ad["n"]), sampling_interval=ad["dt"], t0=ad["t0"], time_unit=ad["unit"]).time
    elif how == "positional":
        u = ts.UniformTime(None, ad["n"], None, None, ad["dt"], ad["t0"], ad["unit"])
    else:
        u = ts.UniformTime(length=ad["n"], sampling_interval=ad["dt"], t0=ad["t0"], time_unit=ad["unit"])
    return derive_axis(ts, u, how)


def expected_axis(ad):
    """what the given axis is by its description (independent of the constructor under test); None for slices,
       whose attributes are the subject of the C17 finding"""
    if ad.get("derive") in SLICED:
        return None
    cf = FACT[ad["unit"]]
    return {"n": ad["n"], "t0": ad["t0"] * cf, "dt": ad["dt"] * cf, "dur": ad["n"] * ad["dt"] * cf, "unit": ad["unit"]}


def observe_axis(u):
    arr = np.asarray(u)
    n = int(arr.shape[0])
    dt = int(u.sampling_interval)
    return {"n": n, "first": int(arr[0]) if n else None, "last": int(arr[-1]) if n else None,
            "diff_ok": bool(np.all(np.diff(arr) == dt)) if n > 1 else True,
            "t0": int(u.t0), "dt": dt, "dur": int(u.duration), "rate": float(u.sampling_rate).hex(),
            "unit": u.time_unit}


def axis_coq(o):
    return "(mk_axis %s %s %s %s %s %s)" % (zlit(o["n"]), zlit(o["t0"]), zlit(o["dt"]), zlit(o["dur"]),
                                          flit(float.fromhex(o["rate"])), UCOQ[o["unit"]])


def obs_coq(o):
    return "(OAxis (mk_axis_obs %s %s %s %s %s %s %s %s %s))" % (
        zlit(o["n"]), ozl(o["first"]), ozl(o["last"]), blit(o["diff_ok"]), zlit(o["t0"]), zlit(o["dt"]),
        zlit(o["dur"]), flit(float.fromhex(o["rate"])), UCOQ[o["unit"]])


# ------------------------------------------------------------------ running an action
LEADS = [[], [], [3], [1], [2, 3], [5, 1], [2, 1, 3], [4, 2]]       # leading axes (channels, trials, ...): 1 to 4 dims in all


def series_data(a):
    """the data array of a TimeSeries action: time is the last axis; any leading axes; optionally nested lists"""
    shape = list(a.get("lead") or []) + [a["len"]]
    d = np.zeros(shape)
    return d.tolist() if a.get("aslist") else d


def run_action(a):
    import nitime.timeseries as ts
    import resource
    extra = {}
    soft, hard = resource.getrlimit(resource.RLIMIT_AS)
    try:
        # a specification that asks for billions of samples must fail with MemoryError, not take the machine down
        resource.setrlimit(resource.RLIMIT_AS, (3 * 2 ** 30, hard))
        if a["act"] == "ut":
            kw = {}
            if a.get("data") is not None:
                d = mk_axis(ts, a["data"])
                extra["data_obs"] = observe_axis(d)
                kw["data"] = d
            if a.get("length") is not None:
                kw["length"] = a["length"]
            for k, kk in (("duration", "duration"), ("rate", "sampling_rate"), ("si", "sampling_interval")):
                if a.get(k) is not None:
                    kw[kk] = mk_val(ts, a[k])
            if a.get("t0") is not None:
                kw["t0"] = mk_val(ts, a["t0"])
            kw["time_unit"] = a["unit"]
            if a.get("positional"):
                u = ts.UniformTime(kw.get("data"), kw.get("length"), kw.get("duration"), kw.get("sampling_rate"),
                                   kw.get("sampling_interval"), kw.get("t0"), kw["time_unit"])
            else:
                u = ts.UniformTime(**kw)
            o = {"t": "axis", "axis": observe_axis(u)}
        else:
            kw = {}
            if a.get("time") is not None:
                d = mk_axis(ts, a["time"])
                extra["time_obs"] = observe_axis(d)
                kw["time"] = d
            for k, kk in (("t0", "t0"), ("duration", "duration"), ("rate", "sampling_rate"), ("si", "sampling_interval")):
                if a.get(k) is not None:
                    kw[kk] = mk_val(ts, a[k])
            kw["time_unit"] = a["unit"]
            if a.get("positional"):
                s = ts.TimeSeries(series_data(a), kw.get("t0"), kw.get("sampling_interval"), kw.get("sampling_rate"),
                                  kw.get("duration"), kw.get("time"), kw["time_unit"])
            else:
                s = ts.TimeSeries(series_data(a), **kw)
            o = {"t": "series", "dt": int(s.sampling_interval), "t0": int(s.t0), "dur": int(s.duration),
                 "rate": float(s.sampling_rate).hex(), "unit": s.time_unit}
            try:
                o["time"] = {"t": "axis", "axis": observe_axis(s.time)}
            except Exception as e:  # noqa
                o["time"] = {"t": "err", "e": err_name(e), "cls": type(e).__name__, "msg": str(e)[:100]}
    except Exception as e:  # noqa
        o = {"t": "err", "e": err_name(e), "cls": type(e).__name__, "msg": str(e)[:100]}
    finally:
        resource.setrlimit(resource.RLIMIT_AS, (soft, hard))
    o.update(extra)
    return o


def outcome_coq(o):
    if o["t"] == "err":
        return "(OErr %s)" % o["e"]
    if o["t"] == "axis":
        return obs_coq(o["axis"])
    u = "None" if o["unit"] is None else "(Some %s)" % UCOQ[o["unit"]]
    return "(OSeries %s %s %s %s %s %s)" % (zlit(o["dt"]), zlit(o["t0"]), zlit(o["dur"]),
                                           flit(float.fromhex(o["rate"])), u, outcome_coq(o["time"]))


def given_axis_coq(ad, obs):
    if obs is None:      # the given axis could not even be observed (it lost an attribute): described, not observed
        e = expected_axis(ad) or {"n": 0, "t0": 0, "dt": 0, "dur": 0, "unit": ad["unit"]}
        obs = dict(e, rate=(0.0).hex())
    return "(Some %s)" % axis_coq(obs)


def action_coq(a, o):
    if a["act"] == "ut":
        data = "None" if a.get("data") is None else given_axis_coq(a["data"], o.get("data_obs"))
        return "(AUt (mk_ut_args %s %s %s %s %s %s %s))" % (
            data, ozl(a.get("length")), oval(a.get("duration")), oval(a.get("rate")), oval(a.get("si")),
            oval(a.get("t0")), uarg_coq(a["unit"]))
    tm = "None" if a.get("time") is None else given_axis_coq(a["time"], o.get("time_obs"))
    # the model gets the SHAPE of the data and takes the last axis itself (s_len is filled in by with_shape)
    return "(ATs %s (mk_ts_args %s %s %s %s %s %s %s))" % (
        llit([zlit(x) for x in list(a.get("lead") or []) + [a["len"]]]), zlit(0), oval(a.get("t0")), oval(a.get("si")), oval(a.get("rate")), oval(a.get("duration")), tm,
        uarg_coq(a["unit"]))


# ------------------------------------------------------------------ exact oracle
UT_VALID = {(1, 0, 1, 0), (1, 0, 0, 1), (0, 1, 1, 0), (0, 1, 0, 1), (0, 0, 1, 1)}
UT_DATA_VALID = {(0, 0, 0, 0), (1, 0, 0, 0), (0, 1, 0, 0), (0, 0, 1, 0), (0, 0, 0, 1)}
TS_VALID = {(1, 0, 0), (1, 0, 1), (0, 1, 0), (0, 1, 1), (0, 0, 1)}


def cdiv(a, b):
    return -((-a) // b)


def resolve_unit(unit, dur, si, default="s"):
    if unit is not None:
        return unit
    if dur is not None and dur["t"] == "time":
        return dur["u"]
    if si is not None and si["t"] == "time":
        return si["u"]
    return default


def intended(a, o):
    """what the statement asks of an accepted specification: dict with t0 (ps, Fraction), dt_exact (Fraction),
       dt_tol (how far the stored interval may be from dt_exact), n (required count) or dur_exact, or None when
       the call is outside the quantifier"""
    if a["act"] == "ut":
        data = a.get("data")
        si, rate, length, dur = a.get("si"), a.get("rate"), a.get("length"), a.get("duration")
        unit = a["unit"] if a["unit"] is not None else (data["unit"] if data else None)
        unit = resolve_unit(unit, dur, si)
        t0 = val_exact_ps(a["t0"], unit) if a.get("t0") is not None else Fraction(0)
        if data is not None:
            dob = expected_axis(data)
            if dob is None or (o.get("data_obs") is None and o["t"] != "err"):
                return None
            pat = tuple(int(x is not None) for x in (si, rate, length, dur))
            if pat in UT_DATA_VALID:
                if a.get("t0") is None:
                    t0 = Fraction(dob["t0"])   # an axis rebuilt from an axis keeps its start
                if pat == (0, 0, 0, 0):
                    return {"t0": t0, "dt": Fraction(dob["dt"]), "tol": 0, "n": dob["n"], "unit": unit}
                if pat == (1, 0, 0, 0):
                    return {"t0": t0, "dt": val_exact_ps(si, unit), "tol": Fraction(1, 2), "dur": Fraction(dob["dur"]), "unit": unit}
                if pat == (0, 1, 0, 0):
                    r = rate_exact_hz(rate)
                    if r <= 0:
                        return None
                    return {"t0": t0, "dt": Fraction(E12) / r, "tol": 1, "dur": Fraction(dob["dur"]), "unit": unit}
                if pat == (0, 0, 1, 0):
                    return {"t0": t0, "dt": Fraction(dob["dt"]), "tol": 0, "n": length, "unit": unit}
                if pat == (0, 0, 0, 1):
                    return {"t0": t0, "dt": Fraction(dob["dt"]), "tol": 0, "dur": val_exact_ps(dur, unit), "unit": unit}
            elif a.get("t0") is None:
                t0 = Fraction(dob["t0"])
    else:
        tm = a.get("time")
        si, rate, dur = a.get("si"), a.get("rate"), a.get("duration")
        length = a["len"]
        if tm is not None:
            tob = expected_axis(tm)
            if tob is None or (o.get("time_obs") is None and o["t"] != "err") or si or rate or dur or tob["n"] != length:
                return None            # re-specifying a given axis: not covered by the statement's clear cases
            t0 = Fraction(tob["t0"]) if a.get("t0") is None else None
            unit = a["unit"] if a["unit"] is not None else tob["unit"]
            if t0 is None:
                t0 = val_exact_ps(a["t0"], unit)
            return {"t0": t0, "dt": Fraction(tob["dt"]), "tol": 0, "n": length, "unit": unit, "series": True}
        unit = resolve_unit(a["unit"], dur, si)
        t0 = val_exact_ps(a["t0"], unit) if a.get("t0") is not None else Fraction(0)
    # the plain specifications
    if si is not None and rate is None:
        dt, tol = val_exact_ps(si, unit), Fraction(1, 2)
    elif rate is not None and si is None:
        r = rate_exact_hz(rate)
        if r <= 0:
            return None
        dt, tol = Fraction(E12) / r, 1
        if a.get("rate_from_ps") is not None:
            dt, tol = Fraction(a["rate_from_ps"]), 0      # "rebuilt from another one's rate": identical axis
    elif si is None and rate is None and dur is not None and length is not None and length >= 1:
        dt, tol = val_exact_ps(dur, unit) / length, Fraction(1, 2)
    else:
        return None
    out = {"t0": t0, "dt": dt, "tol": tol, "unit": unit}
    if a["act"] == "ts":
        out["n"] = length
        out["series"] = True
    elif length is not None:
        out["n"] = length
    else:
        out["dur"] = val_exact_ps(dur, unit)
    return out


def in_domain(w, a, o):
    if not (1 <= w["dt"] < LIM):
        return False
    n = w.get("n")
    if n is not None and not (1 <= n <= 10 ** 6):
        return False
    ext = w["dt"] * n if n is not None else w["dur"]
    if ext <= 0 or abs(w["t0"]) + ext >= LIM:
        return False
    if n is None and ext / w["dt"] > 10 ** 6:
        return False
    ad = a.get("data") or a.get("time")
    if ad is not None:        # the given axis must itself be inside the quantifier
        e = expected_axis(ad)
        if e is None or e["dt"] < 1 or abs(e["t0"]) + e["n"] * e["dt"] >= LIM:
            return False
    return True


def ctor_name(a):
    if a["act"] == "ts":
        return "TimeSeries"
    return "UniformTime(axis)" if a.get("data") is not None else "UniformTime"


def pat_name(a):
    names = [k for k in ("si", "rate", "length", "duration") if a.get(k) is not None]
    if a["act"] == "ts" and a.get("time") is not None:
        names = ["time"] + names
    return "+".join(names) or "nothing"


BIG_INTERVAL = 2 ** 50      # from here on a float64 rate no longer pins the interval down to the picosecond


def finding_key(a, o, w, stage, ax):
    """call site + input class of a failure at `stage`"""
    key0 = "C02/%s/%s" % (ctor_name(a), pat_name(a))
    has_axis = a["act"] == "ut" and a.get("data") is not None
    pat = pat_name(a)
    if a.get("rate_from_ps") is not None and stage in ("interval", "rate") and a["rate_from_ps"] >= BIG_INTERVAL:
        return "C02/rate-roundtrip/interval>=2^50ps"
    if stage == "rate" and ax is not None and ax["dt"] >= BIG_INTERVAL:
        return "C02/rate-roundtrip/interval>=2^50ps"
    if stage == "interval" and a.get("rate") is not None and a.get("si") is None and w["dt"] >= BIG_INTERVAL:
        # an interval derived from a float64 rate: within 1 ps only below 2^50 ps (C02_rate_interval_bound's guard;
        # refuted above it) — the same finding seen from the rate side
        return "C02/rate-roundtrip/interval>=2^50ps"
    if stage == "series-duration" and a.get("duration") is not None:
        return "C02/TimeSeries/duration-given/duration-attribute"
    if stage in ("count", "duration"):
        if a["act"] == "ut" and pat == "length+duration":
            return "C02/UniformTime/length+duration/float-quantised"
    return key0 + "/" + stage


STATS = {"judged": 0, "max_n": 0, "max_extent_bits": 0, "n>=1025": 0, "n>=10^5": 0, "n=10^6": 0, "extent>=2^53": 0,
         "interval_bits": {}, "given_axis_derivations": {}, "series_data_dims": {}}


def note_judged(a, w, ax):
    n = ax["n"]
    ext = abs(ax["t0"]) + n * ax["dt"]
    STATS["judged"] += 1
    STATS["max_n"] = max(STATS["max_n"], n)
    STATS["max_extent_bits"] = max(STATS["max_extent_bits"], ext.bit_length())
    STATS["n>=1025"] += n >= 1025
    STATS["n>=10^5"] += n >= 10 ** 5
    STATS["n=10^6"] += n == 10 ** 6
    STATS["extent>=2^53"] += ext >= 2 ** 53
    b = "2^%d" % (10 * (int(w["dt"]).bit_length() // 10))
    STATS["interval_bits"][b] = STATS["interval_bits"].get(b, 0) + 1
    if a["act"] == "ts":
        k = "%dd%s/%s" % (1 + len(a.get("lead") or []), "-list" if a.get("aslist") else "", pat_name(a))
        STATS["series_data_dims"][k] = STATS["series_data_dims"].get(k, 0) + 1
    ad = a.get("data") or a.get("time")
    if ad is not None:
        k = ad.get("derive") or "ctor"
        STATS["given_axis_derivations"][k] = STATS["given_axis_derivations"].get(k, 0) + 1


def oracle(a, o):
    # 1. argument combinations: rejected as documented
    if a["act"] == "ut":
        pat = tuple(int(a.get(k) is not None) for k in ("si", "rate", "length", "duration"))
        ok = pat in UT_VALID or (a.get("data") is not None and pat in UT_DATA_VALID)
    else:
        pat = tuple(int(a.get(k) is not None) for k in ("si", "rate", "duration"))
        ok = True if a.get("time") is not None else pat in TS_VALID
    key0 = "C02/%s/%s" % (ctor_name(a), pat_name(a))
    if not ok:
        if o["t"] == "err" and o["e"] == "ValueError":
            return None
        return Fail(key0 + "/invalid-not-rejected", "incomplete / over-determined specification not rejected with ValueError",
                    o, "ValueError")
    if a["unit"] is not None and a["unit"] not in FACT:
        return None
    w = intended(a, o)
    if w is None or not in_domain(w, a, o):
        return None
    ad = a.get("data") or a.get("time")
    if ad is not None:
        e, g = expected_axis(ad), (o.get("data_obs") or o.get("time_obs"))
        if g is None:
            return Fail("C02/given-axis/%s/attributes" % (ad.get("derive") or "ctor"),
                        "the axis handed to the constructor (obtained by %s) cannot be read: %s %s" % (
                            ad.get("derive") or "the constructor", o.get("cls"), o.get("msg")), o, e)
        if any(g[k] != e[k] for k in ("n", "t0", "dt", "dur")) or not g["diff_ok"] or g["first"] != e["t0"]:
            return Fail("C02/given-axis/%s/attributes" % (ad.get("derive") or "ctor"),
                        "the axis handed to the constructor (obtained by %s) does not carry the attributes of its samples" % (
                            ad.get("derive") or "the constructor"), g, e)
    req = {"t0": str(w["t0"]), "dt": str(w["dt"]), "n": w.get("n"), "dur": str(w.get("dur"))}

    def fail(stage, what, ax=None):
        return Fail(finding_key(a, o, w, stage, ax), what, ax if ax is not None else o, req)

    if o["t"] == "err":
        return fail("valid-rejected", "valid specification raised %s: %s" % (o["cls"], o.get("msg")))
    ser = None
    if o["t"] == "series":
        ser = o
        if o["time"]["t"] == "err":
            return fail("time-raises", "series.time raised %s" % o["time"]["cls"])
        ax = o["time"]["axis"]
    else:
        ax = o["axis"]
    n, dt = ax["n"], ax["dt"]
    note_judged(a, w, ax)
    # 2. the samples are t0 + i*dt with the stored interval, starting at the requested t0
    if not ax["diff_ok"] or (n > 0 and (ax["first"] != ax["t0"] or ax["last"] != ax["t0"] + (n - 1) * dt)):
        return fail("samples", "samples are not t0 + i*interval", ax)
    t0_want = w["t0"]
    if abs(Fraction(ax["t0"]) - t0_want) > Fraction(1, 2) + abs(t0_want) * Fraction(1, 2 ** 52):
        return fail("t0", "the axis starts at %d ps, requested %s ps" % (ax["t0"], t0_want), ax)
    # 3. the stored interval is the requested one (half a picosecond of rounding; a float argument is first
    #    multiplied by the unit in float64, which C01 allows)
    tol = w["tol"]
    if tol != 0:
        tol = tol + w["dt"] * Fraction(1, 2 ** 52)
    if dt < 1 or abs(Fraction(dt) - w["dt"]) > tol:
        return fail("interval", "stored interval %d ps, requested %s ps" % (dt, w["dt"]), ax)
    # 4. the number of samples
    if w.get("n") is not None:
        n_req = w["n"]
    else:
        # the duration is stored in whole picoseconds through the TimeArray constructor (C01: a nearest integer
        # to the float64 product with the unit); then: as many multiples of the stored interval as fit before it
        dur_ps = w["dur"]
        if abs(Fraction(ax["dur"]) - dur_ps) > Fraction(1, 2) + abs(dur_ps) * Fraction(1, 2 ** 52):
            return fail("duration", "stored duration %d ps, requested %s ps" % (ax["dur"], dur_ps), ax)
        n_req = max(0, cdiv(ax["dur"], dt))
    if n != n_req:
        return fail("count", "%d samples instead of %d" % (n, n_req), ax)
    # 5. interval, rate and duration describe that axis
    r = Fraction(float.fromhex(ax["rate"]))
    if r <= 0 or abs(Fraction(dt) - Fraction(E12) / r) > 1:
        return fail("rate", "interval %d ps is not within 1 ps of 1/rate" % dt, ax)
    if w.get("n") is not None and ax["dur"] != n * dt:
        return fail("duration", "duration attribute %d ps != n * interval = %d ps" % (ax["dur"], n * dt), ax)
    if w.get("n") is None and not ((n - 1) * dt < ax["dur"] <= n * dt):
        return fail("duration", "duration attribute does not end within the last interval", ax)
    if ax["unit"] != w["unit"] and not ser:
        return fail("unit", "unit %s instead of %s" % (ax["unit"], w["unit"]), ax)
    if ser is not None:
        if ser["dt"] != dt or ser["t0"] != ax["t0"]:
            return fail("series-attrs", "series attributes differ from series.time", ax)
        if ser["dur"] != n * dt:
            return fail("series-duration", "series.duration = %d ps does not cover the %d intervals of %d ps of series.time" % (
                ser["dur"], n, dt), {"series": {k: ser[k] for k in ("dt", "t0", "dur", "rate", "unit")}, "time": ax})
    return None


# ------------------------------------------------------------------ generators
SIZES = [1023, 1025, 2049, 4097, 65537, 99991, 524289, 999983, 10 ** 6]     # just above powers of two, primes, the maximum

HARD_FLOATS = [2.2, 1 / 3., 0.81327, 0.1, 0.7, 1.1, 2.675, 1e-3, 3.3, 0.3, 1 / 7., 123.456]


def gen_unit(rng):
    return rng.choice(UNITS)


def gen_t0(rng, unit):
    r = rng.random()
    if r < 0.35:
        return vint(0)
    if r < 0.6:
        return vint(rng.randint(-50, 50))
    if r < 0.8:
        return vflt(rng.choice([-1.25, 0.5, 2.2, -0.1, 7.75, 1e-3]))
    return vtime(rng.randint(-10 ** 6, 10 ** 6) * rng.choice([1, 10 ** 3, 10 ** 9]), rng.choice(UNITS))


def gen_si(rng, unit):
    r = rng.random()
    if r < 0.3:
        return vint(rng.choice([1, 2, 3, 5, 10, 250]))
    if r < 0.45:
        return vflt(rng.choice([0.5, 0.25, 2.0, 1.5, 0.125]))
    if r < 0.75:
        return vflt(rng.choice(HARD_FLOATS) * rng.choice([1, 1, 10, 0.1]))
    if r < 0.85:
        return vflt(rng.uniform(0.001, 50))
    return vtime(rng.choice([1, 7, 333333, 2 * 10 ** 9, 813270000000, 10 ** 12 + 1]) * rng.choice([1, 3, 1000]),
                 rng.choice(UNITS))


def gen_len(rng):
    r = rng.random()
    if r < 0.6:
        return rng.randint(1, 20)
    if r < 0.8:
        return rng.choice([100, 3, 7, 64, 1000, 5000, 4096])
    if r < 0.93:
        return rng.randint(20, 20000)
    return rng.choice(SIZES)


def gen_rate(rng):
    r = rng.random()
    if r < 0.3:
        return vint(rng.choice([1, 2, 3, 5, 10, 100, 1000, 44100]))
    if r < 0.6:
        return vflt(rng.choice([0.5, 2.5, 1 / 0.81327, 3.3, 1e-2, 1 / 3., 1000 / 3., 7.7, 29.97]))
    if r < 0.75:
        return vflt(rng.uniform(0.01, 5000))
    return vfreq(rng.choice([5.0, 0.5, 1 / 0.81327, 100 / 3., 2.5, rng.uniform(0.01, 500)]))


def gen_dur(rng, unit):
    r = rng.random()
    if r < 0.4:
        return vint(rng.choice([1, 2, 10, 12, 60, 100]))
    if r < 0.7:
        return vflt(rng.choice([1.0, 10.0, 2.2, 0.7, 3.3, 100.1, 1 / 3.]))
    return vtime(rng.choice([10, 1000, 12345, 10 ** 6]) * rng.choice([10 ** 6, 10 ** 9, 10 ** 12]), rng.choice(UNITS))


def gen_axis_desc(rng):
    unit = rng.choice(UNITS)
    return {"derive": rng.choice(DERIVE), "unit": unit, "t0": rng.choice([0, 0, 3, -2, 10]), "dt": rng.choice([1, 2, 5, 250] if unit not in ("D", "W") else [1, 2]),
            "n": rng.randint(1, 12)}


def rate_of_interval(ts, ps):
    """the float64 nearest to the rate 10^12/ps of a whole-ps interval (computed here, not by nitime)"""
    return float(Fraction(E12, int(ps)))


def gen_scaled(rng):
    """intervals / rates / starts across the whole magnitude range of the quantifier: the interval is 2^e * (1 + frac) ps for
       e = 0..58, given as an int, a float in a random unit, a TimeArray, or through its rate; t0 of either sign up to 2^60 ps"""
    e = rng.randint(0, 58)
    ps = max(1, int(2 ** e * (1 + rng.random())))
    if rng.random() < 0.3:
        ps = 2 ** e + rng.choice([0, 1, -1, 3]) if e > 2 else ps      # just around a power of two
    nmax = max(1, min(10 ** 6, (2 ** 60) // ps))
    n = rng.choice([1, 2, 3, 7, min(nmax, 1025), min(nmax, 4097), nmax, rng.randint(1, min(nmax, 5000))])
    room = LIM - 1 - n * (ps + 1)
    t0ps = rng.choice([0, 1, -1, rng.randint(-room, room), rng.choice([-1, 1]) * min(room, 2 ** rng.randint(0, 60) + 1)])
    unit = rng.choice(UNITS)
    k = rng.choice(["int", "float", "time", "rate", "ratefreq"])
    a = {"act": rng.choice(["ut", "ut", "ts"]), "unit": unit}
    if k == "int":
        a["unit"] = "ps"
        si = vint(ps)
    elif k == "float":
        si = vflt(ps / FACT[unit])
    elif k == "time":
        si = vtime(ps, rng.choice(UNITS))
    else:
        si = None
        f = E12 / ps
        if rng.random() < 0.5:
            f *= 1 + rng.random() / 8          # a period with an arbitrary fractional part, at every magnitude
        a["rate"] = vfreq(f) if k == "ratefreq" else vflt(f)
    if si is not None:
        a["si"] = si
    t0 = rng.choice([vtime(t0ps, rng.choice(UNITS)), vint(t0ps // FACT[a["unit"]]), vflt(t0ps / FACT[a["unit"]])])
    if a["act"] == "ut":
        a["length"] = n
        a["t0"] = t0
    else:
        a["len"] = n
        if rng.random() < 0.7:
            a["t0"] = t0
    return a


def sweep_actions():
    """deterministic cases run in every tier: the sizes the quantifier names (just above powers of two, primes, 10^6) for
       each way of fixing the count, and extents at the edges 2^53 and 2^62 ps"""
    out = []
    for n in SIZES:
        out += [
            {"act": "ut", "unit": "ms", "t0": vint(-3), "si": vint(2), "length": n},
            {"act": "ut", "unit": "us", "t0": vflt(0.5), "si": vflt(2.2), "length": n},
            {"act": "ut", "unit": "s", "rate": vflt(3.0), "length": n},
            {"act": "ut", "unit": "ns", "si": vint(3), "duration": vint(3 * n - 1)},        # n multiples fit
            {"act": "ut", "unit": "s", "rate": vint(1000), "duration": vflt(n / 1000.0)},
            {"act": "ts", "len": n, "unit": "ms", "si": vflt(0.81327), "t0": vint(7)},
            {"act": "ts", "len": n, "unit": "s", "rate": vint(44100)},
            {"act": "ts", "len": n, "unit": "s", "time": {"derive": "npcopy", "unit": "ms", "t0": 1, "dt": 2, "n": n}},
        ]
    specs = [{"si": vflt(0.81327)}, {"si": vtime(2 * 10 ** 9, "ms")}, {"rate": vint(4)}, {"rate": vfreq(2.5)},
             {"duration": vint(2)}, {"duration": vflt(2.2)}, {"duration": vtime(6 * 10 ** 12, "s")},
             {"si": vint(2), "duration": vint(16)}, {"rate": vint(4), "duration": vint(2)}, {"time": "same"},
             {"time": "same", "t0": vint(1)}, {"time": "other", "rate": vflt(0.5)}]
    for lead in ([], [3], [1], [2, 3], [5, 1], [2, 1, 3], [7]):
        for n in (8, 1, 7):
            for sp in specs:
                for aslist in ((False, True) if lead in ([3], [2, 3]) else (False,)):
                    a = {"act": "ts", "len": n, "unit": "s", "lead": lead}
                    a.update({k: v for k, v in sp.items() if k != "time"})
                    if sp.get("time") == "same":
                        a["time"] = {"derive": "ctor", "unit": "ms", "t0": 3, "dt": 2, "n": n}
                    elif sp.get("time") == "other":
                        a["time"] = {"derive": "ctor", "unit": "s", "t0": 0, "dt": 1, "n": 2 * n}
                    if aslist:
                        a["aslist"] = True
                    out.append(a)
    for ext in (2 ** 53 - 1, 2 ** 53 + 1, 2 ** 60 + 1, 2 ** 62 - 2 ** 33):
        for n in (3, 1025, 99991, 10 ** 6):
            ps = ext // n
            t0 = -(2 ** 61) if ext < 2 ** 61 else 0
            out += [
                {"act": "ut", "unit": "ps", "t0": vint(t0), "si": vint(ps), "length": n},
                {"act": "ut", "unit": "s", "t0": vtime(t0, "h"), "si": vtime(ps, "ms"), "length": n, "positional": True},
                {"act": "ts", "len": n, "unit": "ps", "t0": vtime(t0, "ps"), "si": vtime(ps, "ps")},
            ]
    return out


def add_lead(rng, a):
    if a["act"] == "ts" and "lead" not in a:
        lead = rng.choice(LEADS)
        n = a["len"]
        for x in lead:
            n *= x
        if n <= 2 * 10 ** 6:
            a["lead"] = lead
            if n <= 5000 and rng.random() < 0.2:
                a["aslist"] = True
    return a


def gen_action(rng, ts):
    a = add_lead(rng, gen_action0(rng, ts))
    if rng.random() < 0.15:
        a["positional"] = True
    return a


def gen_action0(rng, ts):
    if rng.random() < 0.14:
        return gen_scaled(rng)
    r = rng.random()
    unit = rng.choice(UNITS + [None, None])
    if r < 0.07:      # any argument pattern (valid or not), with or without an axis
        a = {"act": "ut", "unit": unit, "t0": gen_t0(rng, unit)}
        if rng.random() < 0.5:
            a["data"] = gen_axis_desc(rng)
        if rng.random() < 0.5:
            a["si"] = gen_si(rng, unit)
        if rng.random() < 0.5:
            a["rate"] = gen_rate(rng)
        if rng.random() < 0.5:
            a["length"] = gen_len(rng) % 50 + 1
        if rng.random() < 0.5:
            a["duration"] = gen_dur(rng, unit)
        return a
    if r < 0.50:      # the five valid UniformTime specifications
        a = {"act": "ut", "unit": unit, "t0": gen_t0(rng, unit)}
        if rng.random() < 0.2:
            del a["t0"]
        k = rng.choice(["si+len", "si+len", "si+dur", "rate+len", "rate+dur", "len+dur"])
        if k == "si+len":
            a["si"], a["length"] = gen_si(rng, unit), gen_len(rng)
        elif k == "si+dur":
            a["si"], a["duration"] = gen_si(rng, unit), gen_dur(rng, unit)
        elif k == "rate+len":
            a["rate"], a["length"] = gen_rate(rng), gen_len(rng)
        elif k == "rate+dur":
            a["rate"], a["duration"] = gen_rate(rng), gen_dur(rng, unit)
        else:
            a["length"], a["duration"] = gen_len(rng) % 200 + 1, gen_dur(rng, unit)
        if rng.random() < 0.04:
            a["unit"] = "x"
        if rng.random() < 0.03:     # degenerate numbers: compared with the model only
            kk = rng.choice(["si", "rate", "length"])
            if kk in a:
                a[kk] = {"si": rng.choice([vint(0), vflt(0.0), vint(-1), vflt(1e-14)]),
                         "rate": rng.choice([vint(0), vflt(0.0), vflt(-2.0), vflt(1e14)]), "length": 0}[kk]
        return a
    if r < 0.56:      # whole-picosecond intervals with a large extent (2^53 .. 2^62 ps)
        n = rng.randint(1000, 60000)
        hi = (LIM - 1) // n
        lo = max(1, (2 ** 53) // n)
        ps = rng.randint(lo, hi)
        if rng.random() < 0.5:
            return {"act": "ut", "unit": "ps", "t0": vint(0), "si": vint(ps), "length": n}
        return {"act": "ts", "len": n, "si": vtime(ps, "ps"), "unit": "ps"}
    if r < 0.63:      # rebuilt from another one's rate
        ps = rng.choice([813270000000, rng.randint(1, 10 ** rng.randint(1, 17)), rng.randint(10 ** 14, 10 ** 17)])
        f = rate_of_interval(ts, ps)
        n = rng.randint(1, 9)
        if rng.random() < 0.5:
            return {"act": "ut", "unit": rng.choice(UNITS), "t0": vint(0), "rate": vfreq(f), "length": n, "rate_from_ps": ps}
        return {"act": "ts", "len": n, "rate": vfreq(f), "unit": rng.choice(UNITS), "rate_from_ps": ps}
    if r < 0.75:      # from an existing axis
        a = {"act": "ut", "unit": rng.choice([None, None, None] + UNITS), "data": gen_axis_desc(rng)}
        if rng.random() < 0.3:
            a["t0"] = gen_t0(rng, a["unit"])
        k = rng.choice(["nothing", "si", "rate", "length", "duration"])
        if k == "si":
            a["si"] = rng.choice([vint(1), vint(2), vflt(0.5), vint(3)])
        elif k == "rate":
            a["rate"] = gen_rate(rng)
        elif k == "length":
            a["length"] = rng.randint(1, 15)
        elif k == "duration":
            a["duration"] = rng.choice([vint(10), vint(7), vflt(2.5)])
        return a
    # TimeSeries
    a = {"act": "ts", "len": gen_len(rng), "unit": rng.choice(UNITS + ["s", "s", None])}
    if rng.random() < 0.4:
        a["t0"] = gen_t0(rng, a["unit"])
    if rng.random() < 0.3:
        a["time"] = gen_axis_desc(rng)
        if rng.random() < 0.6:
            a["len"] = a["time"]["n"]
        else:
            a["len"] = rng.randint(1, 12)
        if rng.random() < 0.25:
            a["rate"] = rng.choice([vflt(a["len"] * FACT[a["time"]["unit"]] / (a["time"]["n"] * a["time"]["dt"] * FACT[a["time"]["unit"]])), gen_rate(rng)])
        elif rng.random() < 0.2:
            a["si"] = gen_si(rng, a["unit"])
        if rng.random() < 0.15:
            a["duration"] = gen_dur(rng, a["unit"])
        return a
    k = rng.choice(["si", "si", "rate", "rate", "si+dur", "rate+dur", "dur", "none", "si+rate"])
    if "si" in k:
        a["si"] = gen_si(rng, a["unit"])
    if "rate" in k:
        a["rate"] = gen_rate(rng)
    if "dur" in k:
        a["duration"] = gen_dur(rng, a["unit"])
    return a


def too_big(a):
    """would the call lay out more than ~3*10^5 samples? (such actions are regenerated)"""
    try:
        si, rate, dur = a.get("si"), a.get("rate"), a.get("duration")
        unit = a["unit"] if a["unit"] in FACT else None
        if unit is None and a.get("data"):
            unit = a["data"]["unit"]
        unit = resolve_unit(unit, dur, si)
        if a.get("length") is not None and a["length"] > 10 ** 6:
            return True
        if dur is None and a.get("data") and a.get("length") is None:
            d = Fraction(a["data"]["n"] * a["data"]["dt"] * FACT[a["data"]["unit"]])
        elif dur is None:
            return False
        else:
            d = val_exact_ps(dur, unit)
        if si is not None:
            dt = val_exact_ps(si, unit)
        elif rate is not None:
            r = rate_exact_hz(rate)
            dt = Fraction(E12) / r if r else 0
        elif a.get("data"):
            dt = Fraction(a["data"]["dt"] * FACT[a["data"]["unit"]])
        else:
            return False
        dt = max(abs(dt) - 1, Fraction(1, 2))
        return abs(d) / dt > 3 * 10 ** 5
    except Exception:  # noqa
        return False


def klass(a, o):
    k = "%s/%s" % (ctor_name(a), pat_name(a))
    if o["t"] == "err":
        k += "/" + o["e"]
    return k


def make_case(a):
    o = run_action(a)
    coq = "(%s, %s)" % (action_coq(a, o), outcome_coq(o))
    return Case(coq, {"action": a, "observed": o}, klass(a, o), nontrivial=(o["t"] != "err"))


HEADER = ("From Coq Require Import ZArith List Bool PrimFloat.\n"
          "From NT Require Import F2Z Lists TimeArray Uniform C02K.\nImport ListNotations.\nOpen Scope Z_scope.\n")


# ------------------------------------------------------------------ generated facts: validity tables by probing
def probe_tables():
    import nitime.timeseries as ts
    base = ts.UniformTime(length=5, sampling_interval=2, t0=0, time_unit="ms")
    vals = dict(sampling_interval=2, sampling_rate=5, length=4, duration=10)

    def rejected(f):
        try:
            f()
        except ValueError as e:
            return "Invalid time specification" in str(e)
        except Exception:  # noqa
            return False
        return False

    ut, rows = [], []
    for d in (0, 1):
        for pat in itertools.product([0, 1], repeat=4):
            kw = {k: v for (k, v), p in zip(vals.items(), pat) if p}
            if d:
                kw["data"] = base
            acc = not rejected(lambda: ts.UniformTime(**kw))
            ut.append(acc)
            rows.append((d,) + pat + (acc,))
    tsv = []
    vals3 = dict(sampling_interval=2, sampling_rate=5, duration=10)
    for pat in itertools.product([0, 1], repeat=3):
        kw = {k: v for (k, v), p in zip(vals3.items(), pat) if p}
        acc = not rejected(lambda: ts.TimeSeries(np.zeros(4), **kw))
        tsv.append(acc)
        rows.append(("ts",) + pat + (acc,))
    src = HEADER + "Definition gen_ut : list bool := %s.\nDefinition gen_ts : list bool := %s.\n" % (
        llit([blit(b) for b in ut]), llit([blit(b) for b in tsv]))
    src += "Lemma tspec_tables_ok : tables_match gen_ut gen_ts = true.\nProof. vm_compute. reflexivity. Qed.\n"
    return src, ut, tsv, rows


def corpus_actions():
    p = core.VERIF / "harness" / "corpus" / "C02"
    out = []
    if p.exists():
        for f in sorted(p.glob("*.json")):
            out.append(json.loads(f.read_text())["action"])
    return out


def run(ctx):
    core.import_nitime()
    import nitime.timeseries as ts
    ctx.check_props()
    src, ut, tsv, rows = probe_tables()
    g = ctx.check_gen("G_tspec", src, ["tspec_tables_ok"])
    if not g.ok:
        for row in rows:
            if row[0] == "ts":
                want = tuple(row[1:4]) in TS_VALID
                a = {"act": "ts", "pattern": row[1:4]}
            else:
                want = tuple(row[1:5]) in UT_VALID or (row[0] == 1 and tuple(row[1:5]) in UT_DATA_VALID)
                a = {"act": "ut", "with_axis": bool(row[0]), "pattern": row[1:5]}
            if want != row[-1]:
                ctx.report_fail(Fail("C02/tspec-table/%s" % ("accepted-invalid" if row[-1] else "rejected-valid"),
                                     "argument pattern (sampling_interval, sampling_rate, length, duration)=%s is %s" % (
                                         a["pattern"], "accepted" if row[-1] else "rejected"),
                                     row[-1], want, {"entry_point": "constructor argument pattern", "probe": a}))
    n = ctx.scale(2500, 30000)
    actions = corpus_actions() + sweep_actions()
    n += len(actions)
    while len(actions) < n:
        a = gen_action(ctx.rng, ts)
        if not too_big(a):
            actions.append(a)
    cases = [make_case(a) for a in actions]
    bad = check_cases_retry(ctx, "K", HEADER, cases, "check", shard=ctx.scale(200, 2000), case_type="(action * outcome)")
    for i, c in enumerate(cases):
        f = oracle(c.replay["action"], c.replay["observed"])
        if f is not None:
            f.replay = {"entry_point": "nitime.timeseries." + ctor_name(c.replay["action"]), "model_disagrees": i in bad}
            ctx.report_fail(f, c)
    ctx.extra["model_impl_disagreements"] = len(bad)
    ctx.extra["oracle_coverage"] = STATS
    ctx.extra["tspec_tables"] = {"UniformTime": ut, "TimeSeries": tsv}
    ctx.extra["rule"] = ("seeded generator over the UniformTime / TimeSeries constructors: all argument patterns (valid and invalid, "
                         "with and without an existing axis), int / float / TimeArray / Frequency arguments, 9 units + None + invalid, "
                         "t0 of either sign, intervals that are not whole picoseconds (2.2, 1/3, 0.81327, ...), lengths to 6*10^4, "
                         "whole-ps extents between 2^53 and 2^62 ps, rates taken from another axis; non-trivial = an axis was built")
    return ctx.finish(
        trusted=["IEEE binary64 arithmetic of CPython/numpy = Coq's primitive floats; np.arange(int64) length = ceil of the float64 "
                 "quotient, elements start + i*step (modelled in Model/Uniform.v)",
                 "Section hypothesis of Props/C02.v theorems marked so: float64 division of two integers below 2^53 followed by ceil "
                 "equals exact ceiling division (named arange_quotient_exact)"],
        assumptions=["calls whose intermediate values reach 2^62 ps, or with non-positive interval / length < 1, are outside the "
                     "quantifier: the oracle skips them; the model still has to agree with the implementation unless it answers TScope"])


def replay(ctx, path):
    core.import_nitime()
    d = json.loads(open(path).read())
    a = (d.get("case") or d)["action"]
    o = run_action(a)
    f = oracle(a, o)
    print(json.dumps({"action": a, "observed": o, "fails": None if f is None else f.what,
                      "key": None if f is None else f.key}, indent=1))
    return 1 if f else 0
