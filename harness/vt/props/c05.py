"""C05 — frequency axes are the true bin frequencies in Hz.

P: coq/Props/C05.v (theorems over Model/Freqs.v: every grid the code builds, as exact rationals,
   against true_bins = k*Fs/NFFT; all N/NFFT of both parities; refuted sub-claims with witnesses)
K: every N/NFFT in 2..70 (thorough: ..150) x sides x estimators (periodogram, periodogram_csd,
   multi_taper_psd/csd, Welch and non-Welch get_spectra, cache_fft) and every analyzer attribute
   that returns a frequency vector, on series given in s/ms/us; the implementation's frequency
   vector, the length of the spectrum's frequency axis, the FFT bins cache_fft keeps and the bins
   filtered_fourier leaves are written into Coq, where the model is evaluated in exact Q on the
   exact float inputs and compared (rtol 1e-12; index lists and lengths exactly).
oracle (search): the true-bin formula in Fractions on the implementation's results, plus the
   bin-centred sinusoid claim (argmax of the implementation's spectrum vs the reported f).
"""
import json
import math
from fractions import Fraction

import numpy as np

from vt import core
from vt.core import Case, Fail, flit, flist, llit, nlit

UNITS = {"s": ("Us", 10 ** 12), "ms": ("Ums", 10 ** 9), "us": ("Uus", 10 ** 6)}
PI = float(np.pi)

GRID_SITES = ["S_periodogram", "S_pcsd", "S_mt_psd", "S_mt_csd", "S_gs_welch", "S_gs_pcsd", "S_gs_mt",
              "S_cache_fft", "A_Coh_welch", "A_Coh_pcsd", "A_Coh_mt", "A_MTCoh", "A_SparseCoh", "A_SeedCoh",
              "A_Spec_psd", "A_Spec_cpsd", "A_Spec_periodogram", "A_Spec_fourier_real",
              "A_Spec_fourier_complex", "A_Spec_mt", "A_Granger", "A_SNR", "U_get_freqs"]
ALGO_SITES = {"S_periodogram", "S_pcsd", "S_mt_psd", "S_mt_csd", "S_gs_welch", "S_gs_pcsd", "S_gs_mt",
              "S_cache_fft", "U_get_freqs"}
MT_SITES = {"S_mt_psd", "S_mt_csd", "S_gs_mt", "A_Coh_mt"}
WELCH_SITES = {"S_gs_welch", "A_Coh_welch", "A_Spec_psd", "A_Spec_cpsd"}
BAND_SITES = {"S_cache_fft", "A_SparseCoh", "A_SeedCoh"}
MT_DPSS = MT_SITES | {"A_MTCoh", "A_Spec_mt", "A_SNR"}   # need dpss_windows, which fails on some small N (C07's business)
CALL = {"S_periodogram": "algorithms.periodogram", "S_pcsd": "algorithms.periodogram_csd",
        "S_mt_psd": "algorithms.multi_taper_psd", "S_mt_csd": "algorithms.multi_taper_csd",
        "S_gs_welch": "algorithms.get_spectra[welch]", "S_gs_pcsd": "algorithms.get_spectra[periodogram_csd]",
        "S_gs_mt": "algorithms.get_spectra[multi_taper_csd]", "S_cache_fft": "cache_fft",
        "A_Coh_welch": "CoherenceAnalyzer.frequencies[welch]", "A_Coh_pcsd": "CoherenceAnalyzer.frequencies[periodogram_csd]",
        "A_Coh_mt": "CoherenceAnalyzer.frequencies[multi_taper_csd]", "A_MTCoh": "MTCoherenceAnalyzer.frequencies",
        "A_SparseCoh": "SparseCoherenceAnalyzer.frequencies", "A_SeedCoh": "SeedCoherenceAnalyzer.frequencies",
        "A_Spec_psd": "SpectralAnalyzer.psd", "A_Spec_cpsd": "SpectralAnalyzer.cpsd",
        "A_Spec_periodogram": "SpectralAnalyzer.periodogram", "A_Spec_fourier_real": "SpectralAnalyzer.spectrum_fourier",
        "A_Spec_fourier_complex": "SpectralAnalyzer.spectrum_fourier", "A_Spec_mt": "SpectralAnalyzer.spectrum_multi_taper",
        "A_Granger": "GrangerAnalyzer.frequencies", "A_SNR": "SNRAnalyzer.mt_frequencies",
        "U_get_freqs": "get_freqs"}


# ------------------------------------------------------------------ inputs
def data(seed, shape, cplx=False, ints=False):
    """random data whose scale (2^-60 .. 2^40), offset and memory layout (C, Fortran, strided view,
    integer dtype where the caller allows it) vary with the seed: a frequency axis must not depend on
    any of them"""
    r = np.random.RandomState(seed % (2 ** 31))
    x = r.randn(*shape)
    if cplx:
        x = x + 1j * r.randn(*shape)
    v = seed % 7
    if ints and not cplx and v == 3:
        return np.round(8 * x).astype(np.int64) + (seed % 5 - 2)
    k = (seed // 7) % 101 - 60
    x = x * 2.0 ** k + (seed % 5 - 2) * 2.0 ** k
    if v == 1 and x.ndim > 1:
        x = np.asfortranarray(x)
    elif v == 2:
        big = np.zeros(shape[:-1] + (2 * shape[-1],), dtype=x.dtype)
        big[..., ::2] = x
        x = big[..., ::2]          # non-contiguous view
    return x


def src_fs_float(src):
    """the float Fs a caller would compute himself (only used to place bands / lib calls)"""
    k = src["k"]
    if k == "direct":
        return float.fromhex(src["fs"])
    if k == "default":
        return 2 * PI
    if k == "interval":
        return 1.0 / float.fromhex(src["d"]) * (1e12 / UNITS[src["u"]][1])
    return float.fromhex(src["r"])


def src_fs_exact(src):
    """the sampling rate in Hz the property speaks of, exactly"""
    k = src["k"]
    if k == "direct":
        return Fraction(float.fromhex(src["fs"]))
    if k == "default":
        return Fraction(2 * PI)
    if k == "interval":
        return Fraction(10 ** 12) / (Fraction(float.fromhex(src["d"])) * UNITS[src["u"]][1])
    return Fraction(float.fromhex(src["r"]))


def src_coq(src):
    k = src["k"]
    if k == "direct":
        return "(FsDirect %s)" % flit(float.fromhex(src["fs"]))
    if k == "default":
        return "FsDefault"
    if k == "interval":
        return "(FsInterval %s %s)" % (flit(float.fromhex(src["d"])), UNITS[src["u"]][0])
    return "(FsRate %s %s)" % (flit(float.fromhex(src["r"])), UNITS[src["u"]][0])


def mk_series(src, x):
    """src["v"] selects the way the same sampling is handed over: bare number + time_unit, a TimeArray
    interval, a ready UniformTime axis, a Frequency object"""
    import nitime.timeseries as ts
    v = src.get("v", "plain")
    if src["k"] == "interval":
        d, u = float.fromhex(src["d"]), src["u"]
        if v == "timearray":
            return ts.TimeSeries(x, sampling_interval=ts.TimeArray(d, time_unit=u))
        if v == "uniformtime":
            return ts.TimeSeries(x, time=ts.UniformTime(length=x.shape[-1], sampling_interval=d, time_unit=u))
        return ts.TimeSeries(x, sampling_interval=d, time_unit=u)
    r = float.fromhex(src["r"])
    if v == "frequency":
        r = ts.Frequency(r)
    return ts.TimeSeries(x, sampling_rate=r, time_unit=src["u"])


def opt_hex(v):
    return None if v is None else float(v).hex()


def opt_float(h):
    return None if h is None else float.fromhex(h)


def mt_try(fn, nws=(2, 1.5, 1, 2.5, 3)):
    """dpss_windows fails on some small (N, NW) (another property's business): take the first NW
    for which the estimator runs; the frequency grid does not depend on NW"""
    last = None
    for nw in nws:
        try:
            return fn(nw), nw
        except Exception as e:  # noqa
            if not is_dpss_failure(e):
                raise
            last = e
    raise last


def is_dpss_failure(e):
    """the exception was raised inside the Slepian-taper computation (small N / NW combinations on
    which dpss_windows breaks down; not this property's subject)"""
    import traceback
    names = {fr.name for fr in traceback.extract_tb(e.__traceback__)}
    return bool(names & {"dpss_windows", "tridi_inverse_iteration", "tridisolve"})


def first_segment_bins(x0, NFFT, slices):
    """which bins of fft(window * first segment) the cached slices hold"""
    from matplotlib import mlab
    from scipy import fftpack
    n = slices.shape[-1]
    if n == 0:
        return []
    win = mlab.window_hanning(np.ones(NFFT))
    full = fftpack.fft(win * x0[:NFFT])
    hits = [a for a in range(0, NFFT - n + 1)
            if np.allclose(full[a:a + n], slices[0], rtol=1e-9, atol=1e-12 * (1 + np.abs(full).max()))]
    if len(hits) != 1:          # not observable (e.g. the length-2 hanning window is all zero)
        return None
    return list(range(hits[0], hits[0] + n))


# ------------------------------------------------------------------ running the implementation
def run_grid(a):
    """a: dict(site, src, N, NFFT, sides, lb, ub, nfreqs, seed). Returns dict(f, len, fs_impl, lib, ...)"""
    import nitime.algorithms as tsa
    import nitime.utils as tsu
    import nitime.analysis as nta
    from matplotlib import mlab
    s, src, N, NFFT, sides = a["site"], a["src"], a["N"], a["NFFT"], a["sides"]
    lb, ub = opt_float(a["lb"]), opt_float(a["ub"])
    seed = a["seed"]
    kw = {}
    if src["k"] == "direct":
        kw["Fs"] = float.fromhex(src["fs"])
    out = {"lib": [], "note": ""}
    fs_impl = kw.get("Fs", 2 * PI)
    fsv = src.get("v", "kw")
    if "Fs" in kw:
        if fsv == "np64":
            kw["Fs"] = np.float64(kw["Fs"])
        elif fsv == "int" and float(kw["Fs"]).is_integer():
            kw["Fs"] = int(kw["Fs"])
        elif fsv == "freq":
            import nitime.timeseries as ts_
            kw["Fs"] = ts_.Frequency(kw["Fs"])

    def call(fn, x, **extra):
        if fsv == "pos" and "Fs" in kw:
            return fn(x, kw["Fs"], **extra)
        return fn(x, **dict(kw, **extra))

    def spec_arg(x, name):
        """N / NFFT argument, or the precomputed transform Sk in its place"""
        if a.get("sk"):
            from scipy import fftpack
            return {"Sk": fftpack.fft(x, n=NFFT)}
        return {name: (None if a.get("nfft_none") else NFFT)}
    sd = "onesided" if sides == "OneSided" else "twosided"
    cplx = bool(a.get("cplx"))
    if s in ALGO_SITES:
        if s == "S_periodogram":
            x = data(seed, (N,), cplx, ints=True)
            f, p = call(tsa.periodogram, x, sides=a.get("sides_arg", sd), **spec_arg(x, "N"))
            ln = p.shape[-1]
        elif s == "S_pcsd":
            x = data(seed, (2, N), cplx, ints=True)
            f, p = call(tsa.periodogram_csd, x, sides=a.get("sides_arg", sd), **spec_arg(x, "NFFT"))
            ln = p.shape[-1]
        elif s == "S_mt_psd":
            x = data(seed, (N,))
            (f, p, _), nw = mt_try(lambda nw: call(tsa.multi_taper_psd, x, NW=nw, NFFT=(NFFT or None), sides=sd,
                                                   adaptive=False, jackknife=False))
            ln = p.shape[-1]
        elif s == "S_mt_csd":
            x = data(seed, (2, N))
            (f, p), nw = mt_try(lambda nw: call(tsa.multi_taper_csd, x, NW=nw, NFFT=(NFFT or None), sides=sd,
                                                adaptive=False))
            ln = p.shape[-1]
        elif s == "S_gs_welch":
            x = data(seed, (2, N), ints=True)
            f, p = tsa.get_spectra(x, method=dict(this_method="welch", NFFT=NFFT, **kw))
            ln = p.shape[-1]
            out["lib"] = list(mlab.psd(data(seed + 1, (max(N, NFFT),)), NFFT=NFFT, Fs=fs_impl)[1])
        elif s == "S_gs_pcsd":
            x = data(seed, (2, N))
            f, p = tsa.get_spectra(x, method=dict(this_method="periodogram_csd", NFFT=NFFT, sides=sd, **kw))
            ln = p.shape[-1]
        elif s == "S_gs_mt":
            x = data(seed, (2, N))
            (f, p), nw = mt_try(lambda nw: tsa.get_spectra(x, method=dict(this_method="multi_taper_csd", NW=nw,
                                                                          NFFT=(NFFT or None), sides=sd,
                                                                          adaptive=False, **kw)))
            ln = p.shape[-1]
        elif s == "S_cache_fft":
            x = data(seed, (2, N), ints=True)
            f, cache = tsa.cache_fft(x, [(0, 1)], lb=(lb or 0), ub=ub, method=dict(this_method="welch", NFFT=NFFT, **kw))
            ln = cache["FFT_slices"][0].shape[-1]
            out["bins"] = first_segment_bins(x[0], NFFT, cache["FFT_slices"][0])
        elif s == "U_get_freqs":
            f = tsu.get_freqs(fs_impl, NFFT)
            ln = len(f)
            out["note"] = "nolen"
    else:
        if s == "A_SNR":
            x = data(seed, (3, 2, N))
        elif s == "A_Spec_fourier_complex":
            x = data(seed, (2, N), True)
        else:
            x = data(seed, (2, N), cplx)
        T = mk_series(src, x)
        fs_impl = float(T.sampling_rate)
        welch = dict(this_method="welch", NFFT=NFFT, n_overlap=NFFT // 2)
        if s == "A_Coh_welch":
            C = nta.CoherenceAnalyzer(T, method=dict(welch))
            f, ln = C.frequencies, C.spectrum.shape[-1]
        elif s == "A_Coh_pcsd":
            m = dict(this_method="periodogram_csd")
            if not a.get("nfft_none"):
                m["NFFT"] = NFFT
            if a.get("sides_arg"):
                m["sides"] = a["sides_arg"]
            C = nta.CoherenceAnalyzer(T, method=m)
            f, ln = C.frequencies, C.spectrum.shape[-1]
        elif s == "A_Coh_mt":
            def go(nw):
                m = dict(this_method="multi_taper_csd", NW=nw, adaptive=False)
                if a.get("nfft_arg"):
                    m["NFFT"] = NFFT
                if a.get("sides_arg"):
                    m["sides"] = a["sides_arg"]
                C = nta.CoherenceAnalyzer(T, method=m)
                return C.frequencies, C.spectrum.shape[-1]
            (f, ln), nw = mt_try(go)
        elif s == "A_MTCoh":
            f, ln = None, None
            for nw in (() if a.get("freq_only") else (2, 1.5, 1, 2.5, 3, 4)):
                try:
                    C = nta.MTCoherenceAnalyzer(T, bandwidth=nw * 2 * fs_impl / N, adaptive=False)
                    f = C.frequencies
                    ln = C.coherence.shape[-1]
                    break
                except Exception as e:
                    if not is_dpss_failure(e):
                        raise
                    continue
            if ln is None:
                C = nta.MTCoherenceAnalyzer(T)
                f, ln = C.frequencies, len(C.frequencies)
                out["note"] = "nolen"
        elif s == "A_SparseCoh":
            C = nta.SparseCoherenceAnalyzer(T, ij=[(0, 1)], method=dict(welch), lb=(lb or 0), ub=ub)
            f, ln = C.frequencies, np.asarray(C.cache["FFT_slices"][0]).shape[-1]
        elif s == "A_SeedCoh":
            T2 = mk_series(src, data(seed + 7, (2, N)))
            C = nta.SeedCoherenceAnalyzer(T, T2, method=dict(welch), lb=(lb or 0), ub=ub)
            f = C.frequencies
            ln = np.asarray(C.target_cache["FFT_slices"][0]).shape[-1]
        elif s == "A_Spec_psd":
            S = nta.SpectralAnalyzer(T, method=dict(welch))
            f, p = S.psd
            ln = p.shape[-1]
        elif s == "A_Spec_cpsd":
            S = nta.SpectralAnalyzer(T, method=dict(welch))
            f, p = S.cpsd
            ln = p.shape[-1]
        elif s == "A_Spec_periodogram":
            f, p = nta.SpectralAnalyzer(T).periodogram
            ln = p.shape[-1]
        elif s in ("A_Spec_fourier_real", "A_Spec_fourier_complex"):
            f, p = nta.SpectralAnalyzer(T).spectrum_fourier
            ln = p.shape[-1]
        elif s == "A_Spec_mt":
            def go(nw):
                f, p = nta.SpectralAnalyzer(T, BW=2 * nw * fs_impl / N, adaptive=False).spectrum_multi_taper
                return f, p.shape[-1]
            (f, ln), nw = mt_try(go)
        elif s == "A_Granger":
            G = nta.GrangerAnalyzer(T, order=1, n_freqs=a["nfreqs"])
            f, ln = G.frequencies, G.causality_xy.shape[-1]
        elif s == "A_SNR":
            S = nta.SNRAnalyzer(T)
            f = S.mt_frequencies
            try:
                if a.get("freq_only"):
                    raise ZeroDivisionError("not computed")
                ln = S.mt_signal_psd.shape[-1]
            except Exception as e:
                if not (a.get("freq_only") or is_dpss_failure(e)):
                    raise
                ln = len(f)
                out["note"] = "nolen"
        if s in WELCH_SITES:
            out["lib"] = list(mlab.psd(data(seed + 1, (max(N, NFFT),)), NFFT=NFFT, Fs=fs_impl)[1])
    out.update(f=[float(v) for v in np.asarray(f, dtype=float)], len=int(ln), fs_impl=float(fs_impl))
    return out


SEQ_SITES = ["A_Coh_welch", "A_SparseCoh", "A_SeedCoh", "A_Spec_cpsd", "A_Spec_psd", "A_MTCoh", "A_Granger",
             "A_Spec_periodogram"]
DICT_WRITERS = ("A_Coh_welch", "A_SparseCoh", "A_SeedCoh")   # keep the caller's dict and write 'Fs' into it
SHARED_KEY = "C05/method-dict/shared-between-analyzers"


def run_seq(a):
    """several analyzers built one after another in ONE process (method=None, own dicts, one dict object
    handed to several of them), all built before any result is read, results read in a shuffled order.
    Returns (outputs per item, shared groups [{members, rates, used}])."""
    import nitime.analysis as nta
    from matplotlib import mlab
    items = a["items"]
    dicts, objs = {}, []
    for it in items:
        s, N, NFFT, seed = it["site"], it["N"], it["NFFT"], it["seed"]
        lb, ub = opt_float(it["lb"]), opt_float(it["ub"])
        T = mk_series(it["src"], data(seed, (2, N)))
        m = it.get("m", "none")
        if m == "none":
            meth = None
        elif m == "own":
            meth = dict(this_method="welch", NFFT=NFFT, n_overlap=NFFT // 2)
        else:
            meth = dicts.setdefault(m, dict(this_method="welch", NFFT=NFFT, n_overlap=NFFT // 2))
        if s == "A_Coh_welch":
            o = nta.CoherenceAnalyzer(T, method=meth)
        elif s == "A_SparseCoh":
            o = nta.SparseCoherenceAnalyzer(T, ij=[(0, 1)], method=meth, lb=(lb or 0), ub=ub)
        elif s == "A_SeedCoh":
            o = nta.SeedCoherenceAnalyzer(T, mk_series(it["src"], data(seed + 7, (2, N))), method=meth, lb=(lb or 0), ub=ub)
        elif s in ("A_Spec_cpsd", "A_Spec_psd", "A_Spec_periodogram"):
            o = nta.SpectralAnalyzer(T, method=meth)
        elif s == "A_MTCoh":
            o = nta.MTCoherenceAnalyzer(T)
        elif s == "A_Granger":
            o = nta.GrangerAnalyzer(T, order=1, n_freqs=it["nfreqs"])
        objs.append((o, T))
    outs = [None] * len(items)
    read_order = []
    for i in a["order"]:
        it = items[i]
        s = it["site"]
        o, T = objs[i]
        note = ""
        if s == "A_Coh_welch":
            f, ln = o.frequencies, o.spectrum.shape[-1]
        elif s == "A_SparseCoh":
            f, ln = o.frequencies, np.asarray(o.cache["FFT_slices"][0]).shape[-1]
        elif s == "A_SeedCoh":
            f = o.frequencies
            ln = np.asarray(o.target_cache["FFT_slices"][0]).shape[-1]
        elif s == "A_Spec_cpsd":
            f, p = o.cpsd
            ln = p.shape[-1]
        elif s == "A_Spec_psd":
            f, p = o.psd
            ln = p.shape[-1]
        elif s == "A_Spec_periodogram":
            f, p = o.periodogram
            ln = p.shape[-1]
        elif s == "A_MTCoh":
            f = o.frequencies
            ln, note = len(f), "nolen"
        elif s == "A_Granger":
            f, ln = o.frequencies, o.causality_xy.shape[-1]
        read_order.append(i)
        fs_used = float(o.method["Fs"]) if (s in DICT_WRITERS and "Fs" in o.method) else float(T.sampling_rate)
        lib = []
        if s in WELCH_SITES:
            lib = list(mlab.psd(data(it["seed"] + 1, (max(it["N"], it["NFFT"]),)), NFFT=it["NFFT"], Fs=fs_used)[1])
        outs[i] = {"lib": lib, "note": note, "f": [float(v) for v in np.asarray(f, dtype=float)], "len": int(ln),
                   "fs_impl": float(T.sampling_rate), "fs_used": fs_used}
    groups = []
    for g in sorted(dicts):
        mem = [i for i, it in enumerate(items) if it.get("m") == g]
        # chronology of the writes into the dict: all three classes write 'Fs' in their constructor
        # (SeedCoherenceAnalyzer since /repo 291fcce), so it is the build order
        ev = mem
        groups.append({"members": ev, "rates": [outs[i]["fs_impl"] for i in ev], "used": [outs[i]["fs_used"] for i in ev]})
    return outs, groups


def run_keep(a):
    import nitime.analysis as nta
    x = data(a["seed"], (a["N"],))
    T = mk_series(a["src"], x)
    F = nta.FilterAnalyzer(T, lb=opt_float(a["lb"]) or 0, ub=opt_float(a["ub"]))
    y = np.asarray(F.filtered_fourier.data)
    Y = np.abs(np.fft.fft(y))
    X = np.abs(np.fft.fft(x))
    n = a["N"]
    # per-bin ratio: independent of the data's scale and offset
    return {"kept": [k for k in range(n // 2 + 1) if Y[k] > 1e-6 * X[k]], "fs_impl": float(T.sampling_rate)}


def run_circle(a):
    import nitime.utils as tsu
    om = np.array([float.fromhex(h) for h in a["omega"]])
    return {"out": [float(v) for v in tsu.circle_to_hz(om, float.fromhex(a["fs"]))]}


# ------------------------------------------------------------------ Coq terms
def olit_f(h):
    return "None" if h is None else "(Some %s)" % flit(float.fromhex(h))


def nats(l):
    """a list of indices as a Coq term; long lists as concatenated runs `seq a n ++ ...` (a literal list
    of thousands of unary nat numerals is what makes a case file slow, not the evaluation)"""
    l = list(l)
    if len(l) <= 12:
        return llit([nlit(v) for v in l])
    runs, i = [], 0
    while i < len(l):
        j = i
        while j + 1 < len(l) and l[j + 1] == l[j] + 1:
            j += 1
        runs.append("seq %s %s" % (nlit(l[i]), nlit(j - i + 1)))
        i = j + 1
    return "(" + " ++ ".join(runs) + ")"


def sample_idx(a, n):
    """indices at which a large vector is compared inside Coq: both ends, the middle, and seeded others"""
    import random
    r = random.Random(a["seed"])
    base = [0, 1, 2, n // 2 - 1, n // 2, n // 2 + 1, n - 3, n - 2, n - 1] + [r.randrange(n) for _ in range(30)] if n else []
    return sorted(set(i for i in base if 0 <= i < n))


def grid_coq(a, o):
    if a.get("large"):
        idx = sample_idx(a, len(o["f"]))
        return "(CSparse %s %s %s %s %s %s %s %s %s %s %s %s %s %s)" % (
            a["site"], src_coq(a["src"]), nlit(a["N"]), nlit(a["NFFT"]), a["sides"],
            flit(opt_float(a["lb"]) or 0.0), olit_f(a["ub"]), nlit(a["nfreqs"]), flist(o["lib"]), flit(PI),
            flit(o["fs_impl"]), nlit(len(o["f"])), llit(["(%s, %s)" % (nlit(i), flit(o["f"][i])) for i in idx]),
            nlit(o["len"]))
    return "(CGrid %s %s %s %s %s %s %s %s %s %s %s %s %s)" % (
        a["site"], src_coq(a["src"]), nlit(a["N"]), nlit(a["NFFT"]), a["sides"],
        flit(opt_float(a["lb"]) or 0.0), olit_f(a["ub"]), nlit(a["nfreqs"]), flist(o["lib"]), flit(PI),
        flit(o["fs_impl"]), flist(o["f"]), nlit(o["len"]))


def bins_coq(a, o):
    return "(CBins %s %s %s %s %s %s)" % (src_coq(a["src"]), nlit(a["NFFT"]), flit(opt_float(a["lb"]) or 0.0),
                                         olit_f(a["ub"]), flit(PI), nats(o["bins"]))


def keep_coq(a, o):
    return "(CKeep %s %s %s %s %s)" % (src_coq(a["src"]), nlit(a["N"]), flit(opt_float(a["lb"]) or 0.0),
                                      olit_f(a["ub"]), nats(o["kept"]))


def shared_coq(g):
    return "(CShared None %s %s)" % (flist(g["rates"]), flist(g["used"]))


def circle_coq(a, o):
    return "(CCircle %s %s %s %s)" % (flist([float.fromhex(h) for h in a["omega"]]), flit(float.fromhex(a["fs"])),
                                     flit(PI), flist(o["out"]))


# ------------------------------------------------------------------ the exact oracle (search)
TOL = Fraction(1, 10 ** 9)


def nbins(n, sides):
    return n // 2 + 1 if sides == "OneSided" else n


def in_band(x, lb, ub):
    return (lb is None or Fraction(lb) <= x) and (ub is None or x <= Fraction(ub))


def true_freqs(a):
    """the true centre frequencies (Fractions) of the bins of the spectrum the call returns"""
    s = a["site"]
    Fs = src_fs_exact(a["src"])
    if s in MT_SITES:
        n = max(a["N"], a["NFFT"])
        return [k * Fs / n for k in range(nbins(n, a["sides"]))]
    if s in BAND_SITES:
        n = a["NFFT"]
        lb, ub = opt_float(a["lb"]), opt_float(a["ub"])
        return [k * Fs / n for k in range(n // 2 + 1) if in_band(k * Fs / n, lb, ub)]
    if s in ("A_MTCoh", "A_SNR", "A_Spec_fourier_real"):
        n = a["N"]
        return [k * Fs / n for k in range(n // 2 + 1)]
    if s in ("A_Spec_periodogram", "A_Spec_mt"):
        n = a["N"]
        return [k * Fs / n for k in range(nbins(n, a["sides"]))]
    if s == "A_Spec_fourier_complex":
        n = a["N"]
        return [(i - n // 2) * Fs / n for i in range(n)]
    if s == "A_Granger":
        from scipy import signal
        w = signal.freqz([1.0], worN=a["nfreqs"] // 2 + 1)[0]
        return [Fs * Fraction(float(v)) / Fraction(2 * PI) for v in w]
    if s == "U_get_freqs":
        n = a["NFFT"]
        return [k * Fs / n for k in range(n // 2 + 1)]
    n = a["NFFT"]
    return [k * Fs / n for k in range(nbins(n, a["sides"]))]


def finding_key(a):
    s = a["site"]
    call = CALL[s]
    if a.get("shared_victim"):
        return SHARED_KEY
    if s == "A_Granger":
        return "C05/GrangerAnalyzer.frequencies/freqz-grid"
    if s == "A_Spec_fourier_complex":
        return "C05/SpectralAnalyzer.spectrum_fourier/complex"
    if s == "A_Spec_fourier_real":
        return "C05/SpectralAnalyzer.spectrum_fourier/%s" % ("odd-n" if a["N"] % 2 else "even-n")
    if s == "U_get_freqs":
        return "C05/get_freqs/%s" % ("odd-n" if a["NFFT"] % 2 else "even-n")
    if s in BAND_SITES:
        par = "odd-NFFT" if a["NFFT"] % 2 else "even-NFFT"
        if s == "S_cache_fft":
            if a["NFFT"] % 2:
                return "C05/cache_fft/odd-NFFT"
            band = not ((opt_float(a["lb"]) or 0.0) <= 0 and a["ub"] is None)
            return "C05/cache_fft/%s" % ("band-limited-returned-grid" if band else "whole-band")
        return "C05/%s/%s" % (call, par)
    n = max(a["N"], a["NFFT"]) if s in MT_SITES else (a["NFFT"] if s in ALGO_SITES or s in WELCH_SITES or s == "A_Coh_pcsd" else a["N"])
    return "C05/%s/%s-%s" % (call, a["sides"].lower(), "odd" if n % 2 else "even")


def oracle_grid(a, o):
    want = true_freqs(a)
    Fs = abs(src_fs_exact(a["src"]))
    f = o["f"]
    key = finding_key(a)
    if a["src"]["k"] in ("interval", "rate"):
        fs_series = o.get("fs_series", o["fs_impl"])
        if abs(Fraction(fs_series) - Fs) > TOL * Fs:
            return Fail("C05/sampling_rate/%s" % a["src"]["u"], "the series' sampling_rate is not 10^12/interval_ps Hz",
                        fs_series, float(Fs))
    if o["len"] != len(want) and o.get("note") != "nolen":
        return Fail(key, "%s: the spectrum has %d frequency bins, the band/sides ask for %d" % (CALL[a["site"]], o["len"], len(want)),
                    o["len"], len(want))
    if len(f) != len(want):
        return Fail(key, "%s: %d frequencies returned for a spectrum of %d bins" % (CALL[a["site"]], len(f), len(want)),
                    len(f), len(want))
    for k, (x, w) in enumerate(zip(f, want)):
        if not math.isfinite(x) or abs(Fraction(x) - w) > TOL * Fs:
            return Fail(key, "%s: f[%d] = %r, true centre frequency of bin %d is %r Hz" % (CALL[a["site"]], k, x, k, float(w)),
                        x, float(w))
    return None


def oracle_bins(a, o):
    n = a["NFFT"]
    Fs = src_fs_exact(a["src"])
    lb, ub = opt_float(a["lb"]), opt_float(a["ub"])
    want = [k for k in range(n // 2 + 1) if in_band(k * Fs / n, lb, ub)]
    if o["bins"] != want:
        return Fail("C05/cache_fft/%s" % ("odd-NFFT" if n % 2 else "even-NFFT-bins"),
                    "cache_fft keeps FFT bins %s, the bins whose true frequency lies in the band are %s" % (o["bins"], want),
                    o["bins"], want)
    return None


def oracle_keep(a, o):
    n = a["N"]
    Fs = src_fs_exact(a["src"])
    lb, ub = opt_float(a["lb"]), opt_float(a["ub"])
    want = [k for k in range(n // 2 + 1) if k == 0 or in_band(k * Fs / n, lb, ub)]
    if o["kept"] != want:
        return Fail("C05/FilterAnalyzer.filtered_fourier/%s" % ("odd-n" if n % 2 else "even-n"),
                    "filtered_fourier keeps bins %s, the bins whose true frequency lies in the band (and DC) are %s" % (o["kept"], want),
                    o["kept"], want)
    return None


def oracle_circle(a, o):
    fs = Fraction(float.fromhex(a["fs"]))
    for h, y in zip(a["omega"], o["out"]):
        w = fs * Fraction(float.fromhex(h)) / Fraction(2 * PI)
        if abs(Fraction(y) - w) > TOL * abs(fs):
            return Fail("C05/circle_to_hz", "circle_to_hz(omega, Fs) != Fs*omega/(2 pi)", y, float(w))
    return None


# ------------------------------------------------------------------ bin-centred sinusoid (search only)
SINE_SITES = ["S_periodogram", "S_pcsd", "S_gs_pcsd", "S_gs_welch", "S_cache_fft", "A_Spec_psd",
              "A_Spec_periodogram", "A_Spec_fourier_real", "A_Spec_fourier_complex", "A_Coh_pcsd"]


def sinusoid(a, k0):
    """run the site on a sinusoid centred on bin k0 of an n-point transform; return (f, |spectrum|)"""
    import nitime.algorithms as tsa
    import nitime.analysis as nta
    s, src, n, sides = a["site"], a["src"], a["NFFT"], a["sides"]
    t = np.arange(n)
    kw = {"Fs": float.fromhex(src["fs"])} if src["k"] == "direct" else {}
    two = sides == "TwoSided"
    x1 = np.exp(2j * np.pi * k0 * t / n) if two else np.cos(2 * np.pi * k0 * t / n + 0.3)
    sd = "twosided" if two else "onesided"
    if s == "S_periodogram":
        f, p = tsa.periodogram(x1, sides=sd, **kw)
    elif s == "S_pcsd":
        f, p = tsa.periodogram_csd(np.vstack([x1, x1]), sides=sd, **kw)
        p = p[0, 0]
    elif s == "S_gs_pcsd":
        f, p = tsa.get_spectra(np.vstack([x1, x1]), method=dict(this_method="periodogram_csd", sides=sd, **kw))
        p = p[0, 0]
    elif s == "S_gs_welch":
        xx = np.cos(2 * np.pi * k0 * np.arange(3 * n) / n + 0.3)
        f, p = tsa.get_spectra(np.vstack([xx, xx]), method=dict(this_method="welch", NFFT=n, **kw))
        p = p[0, 0]
    elif s == "S_cache_fft":
        xx = np.cos(2 * np.pi * k0 * np.arange(3 * n) / n + 0.3)
        f, c = tsa.cache_fft(np.vstack([xx, xx]), [(0, 1)], lb=opt_float(a["lb"]) or 0, ub=opt_float(a["ub"]),
                             method=dict(this_method="welch", NFFT=n, **kw))
        p = c["FFT_slices"][0][0]
    else:
        if s == "A_Spec_fourier_complex":
            x1 = np.exp(2j * np.pi * k0 * t / n)
        T = mk_series(src, np.vstack([x1, x1]))
        if s == "A_Spec_psd":
            xx = np.cos(2 * np.pi * k0 * np.arange(3 * n) / n + 0.3)
            T = mk_series(src, np.vstack([xx, xx]))
            f, p = nta.SpectralAnalyzer(T, method=dict(this_method="welch", NFFT=n, n_overlap=n // 2)).psd
            p = p[0]
        elif s == "A_Spec_periodogram":
            f, p = nta.SpectralAnalyzer(T).periodogram
            p = p[0]
        elif s in ("A_Spec_fourier_real", "A_Spec_fourier_complex"):
            f, p = nta.SpectralAnalyzer(T).spectrum_fourier
            p = p[0]
        elif s == "A_Coh_pcsd":
            C = nta.CoherenceAnalyzer(T, method=dict(this_method="periodogram_csd"))
            f, p = C.frequencies, C.spectrum[0, 0]
    return np.asarray(f, dtype=float), np.abs(np.asarray(p))


def oracle_sine(a, k0):
    f, p = sinusoid(a, k0)
    n = a["NFFT"]
    Fs = src_fs_exact(a["src"])
    want = k0 * Fs / n
    key = finding_key(a)
    if a["site"] in BAND_SITES and not in_band(want, opt_float(a["lb"]), opt_float(a["ub"])):
        return None
    if len(p) == 0 or len(f) != len(p):
        return Fail(key, "%s: sinusoid on bin %d of %d: %d frequencies for %d spectrum bins" % (CALL[a["site"]], k0, n, len(f), len(p)),
                    len(f), len(p), {"sinusoid_bin": k0})
    i = int(np.argmax(p))
    got = Fraction(float(f[i]))
    if a["site"] == "A_Spec_fourier_complex" and k0 > (n - 1) // 2:
        want = (k0 - n) * Fs / n
    if abs(got - want) > TOL * abs(Fs):
        return Fail(key, "%s: a sinusoid placed on bin %d of %d (%.6g Hz) peaks at index %d where f = %r" % (
            CALL[a["site"]], k0, n, float(want), i, float(got)), float(got), float(want), {"sinusoid_bin": k0})
    return None


# ------------------------------------------------------------------ generator
FS_LIST = [1.0, 2.0, 0.5, 10.0, 2 * PI, 1000.0, 0.37, 123.456, 1 / 3.0, 44100.0,
           0.01, 3e-3, 2.0 ** -20, 1e4, 2.5e5, 1e6, 2.0 ** 30, 7.0, 64.0]
# (interval, unit) pairs: whole picoseconds
IV_LIST = [(2.0, "ms"), (0.5, "s"), (250.0, "us"), (0.1, "s"), (1.25, "ms"), (1.0, "s"), (40.0, "ms"), (12.5, "us"),
           (0.002, "s"), (2000.0, "us"), (100.0, "s"), (1.0, "us"), (50000.0, "ms"), (0.0001, "s"), (4.0, "us")]
RATE_LIST = [(500.0, "ms"), (2.0, "s"), (4000.0, "us"), (0.5, "s"), (PI, "ms"), (10.0, "us"),
             (0.01, "s"), (1e5, "us"), (1e4, "ms"), (2.0 ** -7, "ms")]
# sizes beyond the K range: around powers of two, primes, a few thousand
LARGE = [127, 128, 129, 255, 256, 257, 511, 512, 513, 1000, 1009, 1023, 1024, 1025, 2003, 2047, 2048, 2049,
         4096, 4097, 4099, 8191, 8192, 8193]


def pick_band(rng, fs, n, kind):
    """a band whose edges stay clear of every reported and true grid value (no float ties)"""
    if kind == "whole":
        return None, None
    half = n // 2
    grid = sorted(set([k * fs / n for k in range(half + 1)] + [k * (fs / 2) / max(half, 1) for k in range(half + 1)]))
    for _ in range(50):
        lo = rng.uniform(0, 0.45) * fs
        hi = None if kind == "lb-only" else lo + rng.uniform(0.02, 0.5) * fs
        if kind == "ub-only":
            lo = 0.0
        edges = [v for v in (lo, hi) if v is not None and v != 0.0]
        if all(abs(e - g) > 1e-6 * fs for e in edges for g in grid):
            return (None if lo == 0.0 else lo), hi
    return None, None


def gen_src(rng, analyzer):
    if not analyzer:
        if rng.random() < 0.12:
            return {"k": "default"}
        return {"k": "direct", "fs": rng.choice(FS_LIST).hex(), "v": rng.choice(["kw", "kw", "pos", "np64", "int", "freq"])}
    if rng.random() < 0.65:
        d, u = rng.choice(IV_LIST)
        return {"k": "interval", "d": float(d).hex(), "u": u, "v": rng.choice(["plain", "plain", "timearray", "uniformtime"])}
    r, u = rng.choice(RATE_LIST)
    return {"k": "rate", "r": float(r).hex(), "u": u, "v": rng.choice(["plain", "plain", "frequency"])}


def gen_actions(ctx):
    rng = ctx.rng
    nmax = ctx.scale(70, 150)
    acts = []
    seed = [rng.randrange(1, 2 ** 30)]

    def nxt():
        seed[0] += 1
        return seed[0]

    def grid(site, n, nfft, sides="OneSided", src=None, lb=None, ub=None, nfreqs=0, **extra):
        d = {"kind": "grid", "site": site, "src": src or gen_src(rng, site not in ALGO_SITES), "N": n, "NFFT": nfft,
             "sides": sides, "lb": opt_hex(lb), "ub": opt_hex(ub), "nfreqs": nfreqs, "seed": nxt()}
        d.update(extra)
        acts.append(d)
        return d

    reps = ctx.scale(1, 2)
    for n in range(2, nmax + 1):
        for _ in range(reps):
            for sides in ("OneSided", "TwoSided"):
                # FFT length = data length, shorter data (zero padding), N=None
                m = rng.choice([n, n, max(2, n - rng.randint(0, 3))])
                cplx = sides == "TwoSided" and rng.random() < 0.5
                sa = {"sides_arg": "default"} if (cplx or (sides == "OneSided" and rng.random() < 0.3)) else {}
                grid("S_periodogram", m, n, sides, cplx=cplx, nfft_none=(m == n and rng.random() < 0.3),
                     sk=(rng.random() < 0.2), **sa)
                grid("S_pcsd", m, n, sides, cplx=cplx, nfft_none=(m == n and rng.random() < 0.3),
                     sk=(rng.random() < 0.2), **sa)
                grid("S_gs_pcsd", n, n, sides)
            # multitaper: data length nd <= n, NFFT = n (or smaller than the data: NFFT := N)
            if n >= 3:
                nd = n if n < 12 or rng.random() < 0.5 else rng.randint(9, n)
                for sides in ("OneSided", "TwoSided"):
                    grid("S_mt_psd", nd, n, sides)
                    grid("S_mt_csd", nd, n, sides)
                grid("S_gs_mt", nd, n, "OneSided")
                if n >= 6:
                    grid("S_mt_psd", n, rng.choice([0, n - 2]), "OneSided")
            grid("S_gs_welch", n + rng.randint(0, 2 * n), n)
            grid("U_get_freqs", n, n)
            # band selection
            for kind in ("whole", rng.choice(["band", "lb-only", "ub-only"]), "band"):
                src = gen_src(rng, False)
                lb, ub = pick_band(rng, src_fs_float(src), n, kind)
                grid("S_cache_fft", 2 * n + rng.randint(0, n), n, src=src, lb=lb, ub=ub)
            for site in ("A_SparseCoh", "A_SeedCoh"):
                src = gen_src(rng, True)
                lb, ub = pick_band(rng, src_fs_float(src), n, rng.choice(["whole", "band", "band", "lb-only", "ub-only"]))
                grid(site, 2 * n + rng.randint(0, n), n, src=src, lb=lb, ub=ub)
            # band edges exactly ON bin frequencies (inclusive at both ends): only where every grid value
            # is an exact binary fraction in the code and in the model (NFFT a power of two, Fs dyadic)
            if n in (2, 4, 8, 16, 32, 64, 128):
                for site in ("S_cache_fft", "A_SparseCoh", "A_SeedCoh", "keep"):
                    for _t in range(2):
                        fs = rng.choice([1.0, 2.0, 0.5, 1000.0, 4.0])
                        k1 = rng.randint(0, n // 2)
                        k2 = rng.randint(k1, n // 2)
                        lb, ub = k1 * fs / n, k2 * fs / n
                        if site == "S_cache_fft":
                            grid(site, 2 * n, n, src={"k": "direct", "fs": fs.hex()}, lb=lb, ub=ub, tie=True)
                        elif site == "keep":
                            acts.append({"kind": "keep", "src": {"k": "rate", "r": fs.hex(), "u": rng.choice(["s", "ms", "us"])},
                                         "N": n, "lb": opt_hex(lb), "ub": opt_hex(ub), "seed": nxt(), "tie": True})
                        else:
                            grid(site, 2 * n, n, src={"k": "rate", "r": fs.hex(), "u": rng.choice(["s", "ms", "us"])},
                                 lb=lb, ub=ub, tie=True)
            # analyzers
            grid("A_Coh_welch", 3 * n, n)
            # CoherenceAnalyzer through the unshifted estimators: method x {real, complex} x sides in
            # {default, onesided, twosided} x NFFT {None, < N, N, > N}; the two-sided grid is k*Fs/NFFT on [0, Fs)
            def coh_variants(site, count):
                for _v in range(count):
                    cplx = rng.random() < 0.5
                    sarg = rng.choice([None, None, "onesided", "twosided"])
                    sides = {"onesided": "OneSided", "twosided": "TwoSided"}.get(sarg, "TwoSided" if cplx else "OneSided")
                    kind = rng.choice(["none", "lt", "eq", "gt"])
                    nd = n
                    nfft = {"none": n, "eq": n, "lt": max(2, n - rng.randint(1, 4)), "gt": n + rng.randint(1, 9)}[kind]
                    if site == "A_Coh_pcsd":
                        grid(site, nd, nfft, sides, cplx=cplx, sides_arg=sarg, nfft_none=(kind == "none"))
                    elif nd >= 3:
                        grid(site, nd, nfft, sides, cplx=cplx, sides_arg=sarg, nfft_arg=(kind != "none"))
            coh_variants("A_Coh_pcsd", 3)
            coh_variants("A_Coh_mt", 2)
            if n >= 3:
                grid("A_Spec_mt", n, n, "TwoSided", cplx=True)
            grid("A_Spec_periodogram", n, n, "TwoSided", cplx=True)
            grid("A_Spec_psd", 2 * n + 1, n)
            grid("A_Spec_cpsd", 2 * n + 1, n)
            grid("A_Spec_periodogram", n, n)
            grid("A_Spec_fourier_real", n, n)
            grid("A_Spec_fourier_complex", n, n, "TwoSided")
            grid("A_MTCoh", n, n)
            if n >= 3:
                grid("A_Spec_mt", n, n)
                grid("A_SNR", n, n)
            if n >= 12:
                grid("A_Granger", n + 20, n + 20, nfreqs=rng.choice([n, n + 1, 2 * n, 64, 33]))
            # filtered_fourier
            src = gen_src(rng, True)
            lb, ub = pick_band(rng, src_fs_float(src), n, rng.choice(["band", "band", "lb-only", "ub-only"]))
            acts.append({"kind": "keep", "src": src, "N": n, "lb": opt_hex(lb), "ub": opt_hex(ub), "seed": nxt()})
        if n % 7 == 0:
            fs = rng.choice(FS_LIST)
            acts.append({"kind": "circle", "fs": float(fs).hex(),
                         "omega": [float(2 * PI * k / n).hex() for k in range(n // 2 + 1)]})
    # ---- sequences: several analyzers in one process, different rates / units / lengths, method=None,
    #      own dicts and ONE dict object handed to several analyzers; results read after all are built
    for q in range(ctx.scale(40, 200)):
        items = []
        shared_nfft = {"g0": rng.choice([16, 32, 64]), "g1": rng.choice([8, 32, 128])}
        for j in range(rng.randint(2, 6)):
            site = rng.choice(SEQ_SITES)
            m = "none"
            if site in DICT_WRITERS:
                m = rng.choice(["none", "none", "own", "g0", "g0", "g1"])
            elif site in ("A_Spec_cpsd", "A_Spec_psd"):
                m = rng.choice(["none", "own"])
            nfft = 64 if m == "none" else (shared_nfft[m] if m in shared_nfft else rng.choice([8, 16, 32, 64, 100]))
            src = gen_src(rng, True)
            n = 3 * nfft + rng.randint(0, 40)
            lb = ub = None
            if site in ("A_SparseCoh", "A_SeedCoh"):
                lb, ub = pick_band(rng, src_fs_float(src), nfft, rng.choice(["whole", "band", "band"]))
            nf = 0
            if site in ("A_MTCoh", "A_Spec_periodogram"):
                nfft = n
            if site == "A_Granger":
                nf = rng.choice([32, 33, 64])
            items.append({"site": site, "src": src, "N": n, "NFFT": nfft, "sides": "OneSided", "lb": opt_hex(lb),
                          "ub": opt_hex(ub), "nfreqs": nf, "seed": nxt(), "m": m})
        order = list(range(len(items)))
        rng.shuffle(order)
        acts.append({"kind": "seq", "items": items, "order": order})
    # ---- sizes far beyond the K range (the theorems cover them; the tie must sample them too)
    kmax = 10 ** 9     # every large case is evaluated in Coq too, on a sample of its entries (CSparse)
    pool = LARGE if not ctx.quick else sorted(set([1025, 2049, 4097] + rng.sample(LARGE, 4)))
    core_sites = {"S_periodogram", "S_pcsd", "S_mt_psd", "S_gs_welch", "S_cache_fft", "U_get_freqs", "A_Spec_periodogram",
                  "A_MTCoh", "A_Granger", "A_SparseCoh", "A_Spec_fourier_complex"}
    grid_all = grid

    def grid(site, *args, **kw):      # quick tier: above 2100 only one case per distinct grid expression
        if ctx.quick and args[1] > 2100 and site not in core_sites:
            return None
        return grid_all(site, *args, **kw)

    for n in pool:
        big = {"nok": n > kmax, "large": True}
        for sides in ("OneSided", "TwoSided"):
            grid("S_periodogram", n, n, sides, **big)
            grid("S_pcsd", n - rng.randint(0, 5), n, sides, sk=(rng.random() < 0.3), **big)
        grid("S_mt_psd", 33, n, "OneSided", **big)
        grid("S_mt_csd", 40, n, rng.choice(["OneSided", "TwoSided"]), **big)
        grid("S_gs_pcsd", n, n, "OneSided", **big)
        grid("S_gs_mt", 33, n, "OneSided", **big)
        grid("S_gs_welch", 2 * n + 3, n, **big)
        grid("U_get_freqs", n, n, **big)
        src = gen_src(rng, False)
        lb, ub = pick_band(rng, src_fs_float(src), n, "band")
        grid("S_cache_fft", 2 * n + 5, n, src=src, lb=lb, ub=ub, **big)
        grid("S_cache_fft", 2 * n, n, **big)
        for site in ("A_SparseCoh", "A_SeedCoh"):
            src = gen_src(rng, True)
            lb, ub = pick_band(rng, src_fs_float(src), n, rng.choice(["whole", "band"]))
            grid(site, 2 * n + 1, n, src=src, lb=lb, ub=ub, **big)
        grid("A_Coh_welch", 3 * n, n, **big)
        grid("A_Coh_pcsd", n, n, **big)
        grid("A_Spec_psd", 2 * n + 1, n, **big)
        grid("A_Spec_cpsd", 2 * n + 1, n, **big)
        grid("A_Spec_periodogram", n, n, **big)
        grid("A_Spec_fourier_real", n, n, **big)
        grid("A_Spec_fourier_complex", n, n, "TwoSided", **big)
        grid("A_MTCoh", n, n, freq_only=True, **big)
        grid("A_SNR", n, n, freq_only=True, **big)
        grid("A_Granger", 200, 200, nfreqs=n, **big)
        src = gen_src(rng, True)
        lb, ub = pick_band(rng, src_fs_float(src), n, "band")
        acts.append({"kind": "keep", "src": src, "N": n, "lb": opt_hex(lb), "ub": opt_hex(ub), "seed": nxt(), "large": True,
                     "nok": n > kmax})
    return acts


def klass(a):
    if a["kind"] == "grid":
        return (finding_key(a)[4:] + "/" + a["src"]["k"] + ("-" + a["src"]["u"] if "u" in a["src"] else "")
                + ("/N>150" if a.get("large") else ""))
    if a["kind"] == "keep":
        return "filtered_fourier/%s/%s" % ("odd" if a["N"] % 2 else "even", a["src"].get("u", ""))
    if a["kind"] == "seq":
        return "seq"
    return a["kind"]


def make_cases(a):
    """run the implementation; returns list of Case (a grid action on cache_fft yields two)"""
    k = a["kind"]
    if k == "grid":
        o = run_grid(a)
        cs = [Case(grid_coq(a, o), {"action": a, "observed": o}, klass(a), True)]
        if a["site"] == "S_cache_fft" and o.get("bins") is not None:
            cs.append(Case(bins_coq(a, o), {"action": dict(a, kind="bins"), "observed": {"bins": o["bins"]}},
                           "cache_fft/bins/%s" % ("odd" if a["NFFT"] % 2 else "even"), True))
        return cs
    if k == "keep":
        o = run_keep(a)
        return [Case(keep_coq(a, o), {"action": a, "observed": o}, klass(a), True)]
    if k == "seq":
        outs, groups = run_seq(a)
        first = {g["members"][0] for g in groups if g["members"]}
        cs = []
        for i, (it, o) in enumerate(zip(a["items"], outs)):
            shared = it.get("m", "none") not in ("none", "own")
            act = dict(it, kind="grid", seq_parent=a, idx=i, shared_victim=(shared and i not in first))
            eff = dict(it)
            if shared:          # the model is evaluated with the Fs the shared dict holds (tied to the
                eff["src"] = {"k": "direct", "fs": float(o["fs_used"]).hex()}   # series' rates by CShared)
                o = dict(o, fs_impl=o["fs_used"], fs_series=o["fs_impl"])
            cs.append(Case(grid_coq(eff, o), {"action": act, "observed": o}, "seq/" + klass(act) + "/" + it.get("m", "none")[:1], True))
        for gi, g in enumerate(groups):
            cs.append(Case(shared_coq(g), {"action": {"kind": "shared", "seq_parent": a, "group": gi}, "observed": g},
                           "seq/shared-dict", True))
        return cs
    o = run_circle(a)
    return [Case(circle_coq(a, o), {"action": a, "observed": o}, klass(a), True)]


def oracle_shared(a, o):
    for r, u in zip(o["rates"], o["used"]):
        if abs(Fraction(u) - Fraction(r)) > TOL * abs(Fraction(r)):
            return Fail(SHARED_KEY, "one method dict handed to %d analyzers: an analyzer on a %r Hz series works with Fs = %r Hz "
                        "(rates in event order %s)" % (len(o["rates"]), r, u, o["rates"]), u, r)
    return None


def oracle(a, o):
    k = a["kind"]
    if k == "shared":
        return oracle_shared(a, o)
    if k == "grid":
        return oracle_grid(a, o)
    if k == "bins":
        return oracle_bins(a, o)
    if k == "keep":
        return oracle_keep(a, o)
    return oracle_circle(a, o)


def lib_contract_ok(a, o):
    """numerical validation of the library contract used by the Welch sites"""
    Fs = Fraction(o["fs_impl"])
    n = a["NFFT"]
    want = [k * Fs / n for k in range(n // 2 + 1)]
    return len(o["lib"]) == len(want) and all(abs(Fraction(x) - w) <= TOL * Fs for x, w in zip(o["lib"], want))


HEADER = ("From Coq Require Import QArith List Bool Arith ZArith PrimFloat.\n"
          "From NT Require Import F2Z Lists Close TimeArray Freqs C05K.\nImport ListNotations.\n")


def corpus_actions():
    p = core.VERIF / "harness" / "corpus" / "C05"
    out = []
    if p.exists():
        for f in sorted(p.glob("*.json")):
            out.append(json.loads(f.read_text())["action"])
    return out


def gen_defaults():
    """G: the defaults the model assumes (Fs = 2*pi when not given; lb = 0, ub = None), read by
    reflection from the signatures of the imported modules"""
    import inspect
    import nitime.algorithms as tsa
    import nitime.utils as tsu
    fs = []
    for fn in (tsa.periodogram, tsa.periodogram_csd, tsa.multi_taper_psd, tsa.multi_taper_csd):
        d = inspect.signature(fn).parameters["Fs"].default
        fs.append((fn.__name__, float(d)))
    bands = []
    for fn in (tsa.cache_fft, tsu.get_bounds):
        sg = inspect.signature(fn).parameters
        bands.append((fn.__name__, sg["lb"].default, sg["ub"].default))
    src = HEADER + "Definition gen_fs_defaults : list float := %s.\n" % flist([v for _, v in fs])
    src += "Definition gen_pi : float := %s.\n" % flit(PI)
    src += "Definition gen_band_defaults : list (float * bool) := %s.\n" % llit(
        ["(%s, %s)" % (flit(float(lb)) if isinstance(lb, (int, float)) else "PrimFloat.nan", core.blit(ub is None))
         for _, lb, ub in bands])
    src += ("Lemma defaults_ok : forallb (fun f => Qeq_bool (f2q f) (2 * f2q gen_pi)) gen_fs_defaults = true /\\\n"
            "  forallb (fun p => Qeq_bool (f2q (fst p)) 0 && ffinite (fst p) && snd p) gen_band_defaults = true.\n"
            "Proof. vm_compute. split; reflexivity. Qed.\n")
    return src, {"Fs": fs, "bands": [(n, repr(lb), repr(ub)) for n, lb, ub in bands]}


def check_k(ctx, cases, shard):
    """K, with one retry of shards whose coqc died for lack of resources (killed / timed out on a
    machine shared with other checks): such a shard carries no 'Unable to unify' verdict."""
    import re
    bad = ctx.check_cases("K", HEADER, cases, "check", shard=shard, case_type="case")
    flaky = [b for b in ctx.broken if b["kind"] == "K" and "Unable to unify" not in b["detail"]]
    if flaky:
        names = {b["lemma"] for b in flaky}
        ctx.broken = [b for b in ctx.broken if b not in flaky]
        ctx.obligations = [o for o in ctx.obligations if o[1] not in names]
        for si in sorted(int(re.match(r"K_(\d+)\.v", n).group(1)) for n in names):
            sub = cases[si * shard:(si + 1) * shard]
            saved = (ctx.cases_total, dict(ctx.dist), set(ctx.nontrivial), list(ctx.samples))
            b2 = ctx.check_cases("K_%d_retry" % si, HEADER, sub, "check", shard=shard, case_type="case")
            ctx.cases_total, ctx.dist, ctx.nontrivial, ctx.samples = saved
            bad -= set(range(si * shard, (si + 1) * shard))
            bad |= {si * shard + j for j in b2}
        ctx.notes.append("%d K shard(s) re-run after coqc was killed or timed out" % len(names))
    return bad


def run(ctx):
    core.import_nitime()
    ctx.check_props()
    gsrc, gtab = gen_defaults()
    g = ctx.check_gen("G_defaults", gsrc, ["defaults_ok"])
    if not g.ok:
        for name, v in gtab["Fs"]:
            if v != 2 * PI:
                ctx.report_fail(Fail("C05/algorithms.%s/default-Fs" % name, "default Fs of %s is %r, documented 2*pi" % (name, v),
                                     v, 2 * PI, {"entry_point": name}))
        for name, lb, ub in gtab["bands"]:
            if lb != "0" or ub != "None":
                ctx.report_fail(Fail("C05/%s/default-band" % name, "default band of %s is lb=%s ub=%s, documented 0 / None" % (name, lb, ub),
                                     [lb, ub], ["0", "None"], {"entry_point": name}))
    import time
    t0 = time.time()
    actions = corpus_actions() + gen_actions(ctx)
    cases = []
    nlib = 0
    for a in actions:
        try:
            cs = make_cases(a)
        except Exception as e:  # the call itself fails: the property cannot hold on this input
            if a.get("site") in MT_DPSS and is_dpss_failure(e):
                ctx.extra["dpss_failures_skipped"] = ctx.extra.get("dpss_failures_skipped", 0) + 1
                continue
            ctx.report_fail(Fail("C05/%s/raises" % (CALL.get(a.get("site"), a["kind"])),
                                 "the call raised %s: %s" % (type(e).__name__, e), type(e).__name__, "a frequency vector",
                                 {"entry_point": CALL.get(a.get("site"), a["kind"])}),
                            Case("", {"action": a}, "raises"))
            continue
        for c in cs:
            if c.replay["action"].get("site") in WELCH_SITES:
                nlib += 1
                if not lib_contract_ok(c.replay["action"], c.replay["observed"]):
                    ctx.notes.append("mlab frequency vector is not k*Fs/NFFT for %s" % json.dumps(c.replay["action"]))
        cases.extend(cs)
    t1 = time.time()
    # interleave so that every shard holds small and large sizes (balanced coqc times)
    shard = ctx.scale(160, 400)
    nsh = max(1, -(-len(cases) // shard))
    oracle_only = [c for c in cases if c.replay["action"].get("nok")]
    cases = [c for c in cases if not c.replay["action"].get("nok")]
    nsh = max(1, -(-len(cases) // shard))
    cases = [cases[i] for i in sorted(range(len(cases)), key=lambda i: (i % nsh, i))]
    kbad = check_k(ctx, cases, shard)
    for c in oracle_only:
        ctx.count_case(c)
    cases = cases + oracle_only          # indices of kbad stay valid (K cases come first)
    ctx.extra["oracle_only_large_cases"] = len(oracle_only)
    t2 = time.time()
    nfail = 0
    for i, c in enumerate(cases):
        f = oracle(c.replay["action"], c.replay["observed"])
        if f is not None:
            f.replay = dict(f.replay or {}, entry_point=CALL.get(c.replay["action"].get("site"), c.replay["action"]["kind"]),
                            model_disagrees=(i in kbad))
            if ctx.report_fail(f, c):
                nfail += 1
    # bin-centred sinusoids: search only
    nsine = 0
    rng = ctx.rng
    nmax = ctx.scale(70, 150)
    for n in list(range(3, nmax + 1, ctx.scale(2, 1))) + (rng.sample(LARGE, 5) if ctx.quick else LARGE):
        for site in SINE_SITES:
            sides = "TwoSided" if (site in ("S_periodogram", "S_pcsd", "S_gs_pcsd", "A_Coh_pcsd", "A_Spec_periodogram")
                                   and rng.random() < 0.4) else "OneSided"
            src = gen_src(rng, site not in ALGO_SITES)
            if src["k"] == "default":
                src = {"k": "direct", "fs": (2.0).hex()}
            a = {"kind": "sine", "site": site, "src": src, "N": n, "NFFT": n, "sides": sides, "lb": None, "ub": None,
                 "nfreqs": 0}
            if site == "S_cache_fft" and rng.random() < 0.5:
                lb, ub = pick_band(rng, src_fs_float(src), n, "band")
                a["lb"], a["ub"] = opt_hex(lb), opt_hex(ub)
            k0 = rng.randint(1, n - 1 if (sides == "TwoSided" or site == "A_Spec_fourier_complex") else n // 2)
            if site in ("S_gs_welch", "S_cache_fft", "A_Spec_psd"):
                # Hann-windowed segments leak half the amplitude into both neighbours; with the one-sided
                # doubling a Nyquist / DC neighbour can tie with the peak for tiny NFFT: stay inside
                # (and the DC / Nyquist bins collect the leakage of both the +k0 and the -k0 line): stay two
                # bins away from either end
                if n < 8:
                    continue
                k0 = rng.randint(2, (n - 1) // 2 - 1)
            try:
                f = oracle_sine(a, k0)
            except Exception as e:
                f = Fail("C05/%s/raises" % CALL[site], "sinusoid run raised %s: %s" % (type(e).__name__, e))
            nsine += 1
            if f is not None:
                f.replay = dict(f.replay or {}, entry_point=CALL[site], sinusoid_bin=k0)
                ctx.report_fail(f, Case("", {"action": dict(a, k0=k0)}, "sine"))
    ctx.extra["model_impl_disagreements"] = len(kbad)
    ctx.extra["phase_seconds"] = {"implementation_runs": round(t1 - t0, 1), "K_coqc": round(t2 - t1, 1),
                                  "oracle_and_sinusoids": round(time.time() - t2, 1)}
    ctx.extra["sinusoid_runs"] = nsine
    ctx.extra["library_contract_validations"] = nlib
    ctx.extra["rule"] = ("every N/NFFT from 2 to %d x {onesided, twosided} x {periodogram, periodogram_csd, multi_taper_psd, "
                         "multi_taper_csd, get_spectra welch / periodogram_csd / multi_taper_csd, cache_fft whole band and "
                         "band-limited, get_freqs} and every analyzer attribute returning a frequency vector, series built "
                         "from sampling_interval or sampling_rate in s/ms/us; a case is non-trivial when the call returned a "
                         "frequency vector; distinct by hash of its Coq term" % nmax)
    return ctx.finish(
        explanation=("P: theorems over the exact-rational model of every frequency grid nitime builds (Model/Freqs.v) against "
                     "true_bins = k*Fs/NFFT for all N/NFFT, Fs, sides; refuted sub-claims carry witnesses. G: signature defaults "
                     "(Fs = 2 pi, lb = 0, ub = None). K: the Coq kernel evaluates the model on each sampled call and compares "
                     "with the frequency vector, spectrum-axis length, cached FFT bins and surviving filter bins the "
                     "implementation produced. The Fraction oracle and the bin-centred-sinusoid runs search for a failing input."),
        trusted=["numpy linspace / rfftfreq / searchsorted and scipy freqz behave as documented (their arithmetic is what the "
                 "model writes down)",
                 "matplotlib.mlab.psd/csd return k*Fs/NFFT (library contract of the Welch sites; validated numerically on "
                 "every Welch case, see library_contract_validations)"],
        assumptions=["float rounding of the grids is outside the theorems (exact Q) and is absorbed by rtol 1e-12 in K and 1e-9*Fs in "
                     "the oracle; band edges are generated away from grid values so that no comparison is decided by rounding",
                     "Welch on complex data (mlab returns a centred two-sided axis) is not covered",
                     "the sinusoid claim is searched on the implementation (argmax), not proved; multitaper sites are excluded "
                     "from it (flat-topped peaks)"])


def replay(ctx, path):
    core.import_nitime()
    d = json.loads(open(path).read())
    a = (d.get("case") or d)["action"]
    if a["kind"] == "sine":
        f = oracle_sine(a, a["k0"])
        print(json.dumps({"action": a, "fails": None if f is None else f.what}, indent=1))
        return 1 if f else 0
    kind = a["kind"]
    if "seq_parent" in a:
        outs, groups = run_seq(a["seq_parent"])
        o = groups[a["group"]] if kind == "shared" else outs[a["idx"]]
        f = oracle(a, o)
        print(json.dumps({"sequence": a["seq_parent"], "member": a.get("idx", a.get("group")), "observed": o,
                          "fails": None if f is None else f.what, "finding_key": None if f is None else f.key},
                         indent=1, default=str))
        return 1 if f else 0
    if kind == "seq":
        bad = 0
        for c in make_cases(a):
            f = oracle(c.replay["action"], c.replay["observed"])
            print(json.dumps({"member": c.replay["action"].get("idx", "shared dict"), "site": c.replay["action"].get("site"),
                              "fails": None if f is None else f.what, "finding_key": None if f is None else f.key}))
            bad += f is not None
        return 1 if bad else 0
    if kind == "bins":
        o = run_grid(dict(a, kind="grid"))
        o = {"bins": o["bins"]}
    else:
        o = {"grid": run_grid, "keep": run_keep, "circle": run_circle}[kind](a)
    f = oracle(a, o)
    print(json.dumps({"action": a, "observed": o, "fails": None if f is None else f.what,
                      "finding_key": None if f is None else f.key}, indent=1, default=str))
    return 1 if f else 0
