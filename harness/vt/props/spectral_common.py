"""Shared machinery of the C04 / C06 checks (spectral density estimators of nitime.algorithms.spectral).

* `Rec`      context manager recording the library-oracle calls made while the implementation runs:
             scipy.fftpack.fft (input, n, output), nitime.utils.dpss_windows (args, result),
             nitime.utils.adaptive_weights (results), matplotlib.mlab.csd (args, result).
* scenarios  JSON-able descriptions of one call (estimator, data, parameters); `run_scenario`
             executes the call on the implementation.
* emitters   Coq terms of the case records of coq/Check/C04K.v and coq/Check/C06K.v.
"""
import contextlib
import math
from fractions import Fraction

import numpy as np

from vt import core
from vt.core import Case, Fail, flit, blit, llit, zlit

SIDES_COQ = {"default": "SDefault", "onesided": "SOne", "twosided": "STwo"}
KEY_CPLX_ONESIDED = "C04/sides-onesided/complex-input"
KEY_ADAPT_SCALE = "C04/multi_taper/adaptive-scale"


# ----------------------------------------------------------------------------- recording
class Rec(contextlib.AbstractContextManager):
    def __init__(self):
        self.fft = []        # (input array, n, axis, output)
        self.dpss = []       # (args, (dpss, eigvals))
        self.adapt = []      # (weights, nu)
        self.csd = []        # (args, kwargs, (Pxy, f))
        self._in_dpss = 0

    def __enter__(self):
        import scipy.fftpack as fp
        import scipy.fft as sfft
        import matplotlib.mlab as mlab
        import nitime.utils as ut
        self._fp, self._mlab, self._ut, self._sfft = fp, mlab, ut, sfft
        self._o_fft, self._o_dpss, self._o_ad, self._o_csd = fp.fft, ut.dpss_windows, ut.adaptive_weights, mlab.csd
        self._o_npfft, self._o_sfft = np.fft.fft, sfft.fft
        rec = self

        def mk_fft(orig):
            def fft(x, n=None, axis=-1, *a, **k):
                out = orig(x, n, axis, *a, **k)
                if not rec._in_dpss:
                    rec.fft.append((np.array(x), n, axis, np.array(out)))
                return out
            return fft

        def dpss_windows(*a, **k):
            rec._in_dpss += 1
            try:
                out = rec._o_dpss(*a, **k)
            finally:
                rec._in_dpss -= 1
            rec.dpss.append((a, k, (np.array(out[0]), np.array(out[1]))))
            return out

        def adaptive_weights(*a, **k):
            # the passes of the iteration = the number of np.percentile calls of the stopping rule
            cnt = [0]
            o_pct = np.percentile

            def pct(*pa, **pk):
                cnt[0] += 1
                return o_pct(*pa, **pk)

            np.percentile = pct
            try:
                out = rec._o_ad(*a, **k)
            finally:
                np.percentile = o_pct
            sides = k.get("sides", a[2] if len(a) > 2 else "onesided")
            rec.adapt.append((np.array(out[0]), out[1], np.array(a[0]), np.array(a[1]), sides, cnt[0]))
            return out

        def csd(*a, **k):
            rec._in_dpss += 1           # the FFTs matplotlib makes inside mlab.csd are not nitime's
            try:
                out = rec._o_csd(*a, **k)
            finally:
                rec._in_dpss -= 1
            rec.csd.append((a, k, (np.array(out[0]), np.array(out[1]))))
            return out

        # whichever FFT entry point the code calls (scipy.fftpack today) is recorded
        fp.fft, np.fft.fft, sfft.fft = mk_fft(self._o_fft), mk_fft(self._o_npfft), mk_fft(self._o_sfft)
        ut.dpss_windows, ut.adaptive_weights, mlab.csd = dpss_windows, adaptive_weights, csd
        return self

    def __exit__(self, *exc):
        self._fp.fft, np.fft.fft, self._sfft.fft = self._o_fft, self._o_npfft, self._o_sfft
        self._ut.dpss_windows, self._ut.adaptive_weights, self._mlab.csd = self._o_dpss, self._o_ad, self._o_csd
        return False


# ----------------------------------------------------------------------------- scenarios
def apply_layout(a, layout):
    """the same values in another memory layout (logical shape and contents unchanged)"""
    if layout in (None, "C"):
        return np.ascontiguousarray(a)
    if layout == "F":
        return np.asfortranarray(a)
    if layout == "transposed" and a.ndim >= 3:
        perm = [1, 0] + list(range(2, a.ndim))
        return np.ascontiguousarray(a.transpose(perm)).transpose(perm)      # a view with swapped leading strides
    if layout == "strided0" and a.ndim >= 2:
        big = np.zeros((2 * a.shape[0],) + a.shape[1:], dtype=a.dtype)
        big[::2] = a
        return big[::2]
    if layout in ("strided", "transposed", "strided0"):
        big = np.zeros(a.shape[:-1] + (2 * a.shape[-1],), dtype=a.dtype)
        big[..., ::2] = a
        return big[..., ::2]
    return np.ascontiguousarray(a)


def sc_data(sc):
    """the input array of a scenario (in the memory layout the scenario asks for)"""
    v = [float.fromhex(h) for h in sc["data"]]
    if sc["cplx"]:
        a = np.array(v[0::2]) + 1j * np.array(v[1::2])
    else:
        a = np.array(v, dtype=float)
    a = a.reshape(sc["shape"])
    if str(sc.get("dtype", "")).startswith("int") and not sc["cplx"]:
        a = np.rint(a).astype(sc["dtype"])          # integer-dtype input (the stored values are whole numbers)
    return apply_layout(a, sc.get("layout"))


def set_data(sc, arr):
    arr = np.asarray(arr)
    sc["shape"] = list(arr.shape)
    sc["cplx"] = bool(np.iscomplexobj(arr))
    if sc["cplx"]:
        flat = np.empty(2 * arr.size)
        flat[0::2] = arr.real.ravel()
        flat[1::2] = arr.imag.ravel()
    else:
        flat = arr.astype(float).ravel()
    sc["data"] = [float(x).hex() for x in flat]
    if sc.get("dtype") and (sc["cplx"] or not np.all(flat == np.rint(flat)) or (flat.size and np.max(np.abs(flat)) >= 2 ** 30)):
        sc.pop("dtype")
    return sc


def fs_of(sc):
    return float.fromhex(sc["Fs"]) if sc.get("Fs") is not None else 2 * np.pi


_WIN_FN = {}


def welch_window(token, nfft):
    """(object handed to get_spectra in the method dict, window values) for a window token:
    'none' -> mlab.window_none, 'array' -> a Hamming window as an ndarray, 'callable' -> a function applying a
    Bartlett window, absent -> mlab.window_hanning (get_spectra's default)"""
    import matplotlib.mlab as mlab
    if token == "none":
        return mlab.window_none, np.ones(nfft)
    if token == "array":
        w = np.hamming(nfft)
        return w, w
    if token == "callable":
        if "bartlett" not in _WIN_FN:
            _WIN_FN["bartlett"] = lambda x: x * (np.bartlett(len(x)) + 0.125)
        return _WIN_FN["bartlett"], np.bartlett(nfft) + 0.125
    return mlab.window_hanning, np.hanning(nfft)


def run_scenario(sc, data=None, with_history=False):
    """run the implementation; returns dict(out=…, rec=Rec, err=None|exception).  `with_history`: first make
    the calls listed under sc["history"] (same process), as a replay from a fresh process needs."""
    import nitime.algorithms.spectral as sp
    if with_history:
        for h in sc.get("history") or []:
            run_scenario(h)
    x = sc_data(sc) if data is None else apply_layout(np.array(data), sc.get("layout"))
    est = sc["est"]
    kw = {}
    if sc.get("Fs") is not None:
        kw["Fs"] = fs_of(sc)
    res = {"err": None, "x": x}
    with Rec() as rec:
        try:
            if est in ("periodogram", "periodogram_csd"):
                nk = "N" if est == "periodogram" else "NFFT"
                if sc.get("use_sk"):
                    import scipy.fftpack as fp
                    n_ = sc.get("NFFT") or x.shape[-1]
                    kw["Sk"] = rec._o_fft(x, n=n_)
                    res["Sk"] = np.array(kw["Sk"])
                    if sc.get("sk_and_nfft"):
                        kw[nk] = int(sc["sk_and_nfft"])      # Sk= together with a (conflicting) N= / NFFT=: Sk decides
                elif sc.get("NFFT") is not None:
                    kw[nk] = sc["NFFT"]
                kw["sides"] = sc.get("sides", "default")
                if not sc.get("normalize", True):
                    kw["normalize"] = False
                if sc.get("via_get_spectra"):
                    f, out = sp.get_spectra(x, dict(kw, this_method=est))
                    out = out.reshape((x.shape[0], x.shape[0], -1)) if x.ndim == 2 else out
                else:
                    f, out = getattr(sp, est)(x, **kw)
            elif est in ("multi_taper_psd", "multi_taper_csd"):
                for k in ("NW", "BW"):
                    if sc.get(k) is not None:
                        kw[k] = float.fromhex(sc[k])
                kw["adaptive"] = bool(sc.get("adaptive"))
                kw["low_bias"] = bool(sc.get("low_bias", True))
                kw["sides"] = sc.get("sides", "default")
                if sc.get("NFFT") is not None:
                    kw["NFFT"] = sc["NFFT"]
                if est == "multi_taper_psd":
                    kw["jackknife"] = bool(sc.get("jackknife", False))
                    f, out, _ = sp.multi_taper_psd(x, **kw)
                elif sc.get("via_get_spectra"):
                    f, out = sp.get_spectra(x, dict(kw, this_method=est))
                    out = out.reshape((x.shape[0], x.shape[0], -1)) if x.ndim == 2 else out
                else:
                    f, out = sp.multi_taper_csd(x, **kw)
            elif est in ("welch", "get_spectra"):
                m = dict(sc.get("method") or {})
                if "Fs" in m:
                    m["Fs"] = float.fromhex(m["Fs"])
                if "window" in m:
                    m["window"] = res["window_obj"] = welch_window(m["window"], m.get("NFFT", 64))[0]
                f, out = sp.get_spectra(x, m if (m or sc.get("method") is not None) else None)
            else:
                raise KeyError(est)
            res["f"] = np.array(f)
            res["out"] = np.array(out)
        except Exception as e:  # noqa
            res["err"] = e
    res["rec"] = rec
    return res


# ----------------------------------------------------------------------------- Coq emission
def nat(n):
    return "%d%%nat" % int(n)


def natlist(l):
    return llit([nat(v) for v in l])


def onat(v):
    return "None" if v is None else "(Some %s)" % nat(v)


def ofl(v):
    return "None" if v is None else "(Some %s)" % flit(v)


def crow(a):
    a = np.asarray(a)
    if np.iscomplexobj(a):
        return llit(["(%s, %s)" % (flit(z.real), flit(z.imag)) for z in a])
    return llit(["(%s, %s)" % (flit(z), flit(0.0)) for z in a])


def crows(a):
    a = np.asarray(a)
    a = a.reshape(-1, a.shape[-1])
    return llit([crow(r) for r in a])


def frow(a):
    return llit([flit(z) for z in np.asarray(a, dtype=float)])


def frows(a):
    a = np.asarray(a, dtype=float)
    a = a.reshape(-1, a.shape[-1])
    return llit([frow(r) for r in a])


def lead_of(x):
    return list(x.shape[:-1])


def main_fft(rec, n_last):
    """the recorded fft call made on the signal(s) (last axis length n_last); None if absent"""
    for inp, n, axis, out in rec.fft:
        if inp.shape[-1] == n_last:
            return inp, n, axis, out
    return None


def pg_fields(sc, res):
    """common fields of pg_case / pc_case"""
    x = res["x"]
    n = x.shape[-1]
    if sc.get("use_sk"):
        sk = res["Sk"]
        fftn, same = 0, True
    else:
        call = main_fft(res["rec"], n)
        if call is None:
            return None
        inp, fn, axis, sk = call
        fftn = n if fn is None else int(fn)
        same = bool(inp.shape[-1] == n and inp.size == x.size and np.array_equal(inp.reshape(-1, n), x.reshape(-1, n))
                    and axis in (-1, inp.ndim - 1))
    return "%s %s %s %s %s %s %s %s %s %s %s" % (
        natlist(lead_of(x)), nat(n), onat(None if sc.get("use_sk") else sc.get("NFFT")), flit(fs_of(sc)),
        SIDES_COQ[sc.get("sides", "default")], blit(np.iscomplexobj(x)), blit(sc.get("normalize", True)),
        blit(bool(sc.get("use_sk"))), nat(fftn), blit(same), crows(sk))


def pg_case_coq(sc, res):
    fl = pg_fields(sc, res)
    if fl is None:
        return None
    out = res["out"]
    return "(mk_pg %s %s %s)" % (fl, natlist(out.shape), frows(out))


def pc_case_coq(sc, res):
    fl = pg_fields(sc, res)
    if fl is None:
        return None
    out = res["out"]
    return "(mk_pc %s %s %s)" % (fl, natlist(out.shape), crows(out))


def mt_parts(sc, res):
    """the recorded library data of a multitaper call, or None"""
    rec = res["rec"]
    x = res["x"]
    n = x.shape[-1]
    recorded = True
    if len(rec.dpss) == 1 and not rec.dpss[0][1] and len(rec.dpss[0][0]) == 3:
        dargs, dkw, (dpss, eig) = rec.dpss[0]
    elif len(rec.dpss) == 0:
        # the expected library call was not made during this call (e.g. a cache inside nitime): the harness
        # makes it itself, with the arguments the model predicts, so every call is still judged against
        # independently computed tapers
        import nitime.utils as ut
        fs = fs_of(sc)
        if sc.get("BW") is not None:
            nw = float(np.round(float.fromhex(sc["BW"]) * n / fs)) / 2.0
        elif sc.get("NW") is not None:
            nw = float.fromhex(sc["NW"])
        else:
            nw = 4
        dargs = (n, nw, int(2 * nw))
        try:
            dpss, eig = ut.dpss_windows(*dargs)
        except Exception:  # noqa
            return None
        recorded = False
    else:
        return None
    call = None
    for inp, fn, axis, out in rec.fft:
        if inp.ndim == 3 and inp.shape[-1] == n:
            call = (inp, fn, axis, out)
    if call is None:
        return None
    inp, fn, axis, y = call
    keep = (eig > 0.9) if sc.get("low_bias", True) else np.ones(len(eig), bool)
    K = int(keep.sum())
    M = int(np.prod(x.shape[:-1])) if x.ndim > 1 else 1
    if sc.get("adaptive"):
        if len(rec.adapt) < M:
            return None
        w = [np.asarray(rec.adapt[i][0], dtype=float) for i in range(M)]       # (K, L) each
        w = [wi if wi.ndim == 2 else np.atleast_2d(wi) for wi in w]
    else:
        w = [np.sqrt(eig[keep]).reshape(K, 1) for _ in range(M)]
    return dict(dargs=dargs, dpss=dpss, eig=eig, inp=inp, fft_n=(n if fn is None else int(fn)), y=y, K=K, M=M, w=w,
                keep=keep, dpss_recorded=recorded)


def mt_fields(sc, res, p):
    x = res["x"]
    n = x.shape[-1]
    da = p["dargs"]
    return "%s %s %s %s %s %s %s %s %s %s (%s, %s, %s) %s %s %s %s %s %s %s" % (
        natlist(lead_of(x)), nat(n), onat(sc.get("NFFT")), flit(fs_of(sc)), SIDES_COQ[sc.get("sides", "default")],
        blit(np.iscomplexobj(x)), blit(bool(sc.get("adaptive"))), blit(bool(sc.get("low_bias", True))),
        ofl(None if sc.get("BW") is None else float.fromhex(sc["BW"])),
        ofl(None if sc.get("NW") is None else float.fromhex(sc["NW"])),
        nat(da[0]), flit(float(da[1])), "(%d)%%Z" % int(da[2]),
        crows(x), frows(p["dpss"]) if len(p["dpss"]) else "[]", frow(p["eig"]), nat(p["fft_n"]),
        crows(p["inp"]), crows(p["y"]),
        llit([frows(wi) for wi in p["w"]]))


def mt_case_coq(sc, res):
    p = mt_parts(sc, res)
    if p is None:
        return None
    out = res["out"]
    return "(mk_mt %s %s %s)" % (mt_fields(sc, res, p), natlist(out.shape), frows(out))


def mc_case_coq(sc, res):
    p = mt_parts(sc, res)
    if p is None:
        return None
    out = res["out"]
    d = [(np.abs(wi) ** 2).sum(axis=0) ** 0.5 for wi in p["w"]]     # the library value the code computes
    return "(mk_mc %s %s %s %s)" % (mt_fields(sc, res, p), llit([frow(di) for di in d]), natlist(out.shape), crows(out))


def we_case_coq(sc, res):
    import matplotlib.mlab as mlab
    x = res["x"]
    m = sc.get("method") or {}
    rows = x.reshape(-1, x.shape[-1])
    calls = []

    def which(a):
        a = np.asarray(a)
        if a.ndim != 1:
            return 999          # mlab.csd wants 1-d input: no channel of the model matches
        for i, r in enumerate(rows):
            if r.shape == a.shape and np.array_equal(r, a):
                return i
        return None

    want_win = res.get("window_obj", mlab.window_hanning)

    def win_ok(w):
        # (the Coq field is named wc_window_hanning: "the window argument is the expected one" — mlab.window_hanning
        # by default, otherwise the very object given in the method dict)
        if isinstance(want_win, np.ndarray):
            return isinstance(w, np.ndarray) and np.array_equal(w, want_win)
        return w is want_win

    for a, k, (pxy, f) in res["rec"].csd:
        if len(a) != 7:
            return None
        ia, ib = which(a[0]), which(a[1])
        if ia is None or ib is None:
            return None
        calls.append("(mk_wcall %s %s %s %s %s %s %s %s %s)" % (
            nat(ia), nat(ib), nat(a[2]), flit(a[3]), nat(a[6]), blit(a[4] is mlab.detrend_none),
            blit(win_ok(a[5])), blit(k == {"scale_by_freq": True}), crow(np.asarray(pxy).squeeze())))
    out = res["out"]
    fs = m.get("Fs")
    return "(mk_we %s %s %s %s %s %s %s %s %s)" % (
        nat(0 if x.ndim == 1 else x.shape[0]), blit(np.iscomplexobj(x)), onat(m.get("NFFT")),
        ofl(None if fs is None else float.fromhex(fs)), onat(m.get("n_overlap")), flit(2 * np.pi),
        llit(calls), natlist(out.shape), crows(out))


def ad_case_coq(call, replay2=False):
    w, nu, yk, eig, sides, passes = call
    w = np.asarray(w, dtype=float)
    if w.ndim != 2:
        return None
    nu_z = int(nu) if np.ndim(nu) == 0 and float(nu) == int(nu) else -1
    return "(mk_ad %s %s %s %s %s %s (%d)%%Z %s)" % (blit(sides == "onesided"), crows(yk), frow(eig), frow(np.sqrt(eig)),
                                                    nat(passes), blit(replay2), nu_z, frows(w))


HEADER04 = ("From Coq Require Import QArith ZArith List Bool PrimFloat.\n"
            "From NT Require Import F2Z Lists Close QC Sums Spectral C04K.\nImport ListNotations.\n")
HEADER06 = ("From Coq Require Import QArith ZArith List Bool PrimFloat.\n"
            "From NT Require Import F2Z Lists Close QC Sums Spectral Csd C04K C06K.\nImport ListNotations.\n")

EMIT = {"periodogram": (pg_case_coq, "pg"), "periodogram_csd": (pc_case_coq, "pc"),
        "multi_taper_psd": (mt_case_coq, "mt"), "multi_taper_csd": (mc_case_coq, "mc"), "welch": (we_case_coq, "we")}
HEADER04A = ("From Coq Require Import QArith ZArith List Bool PrimFloat.\n"
             "From NT Require Import F2Z Lists Close QC Sums Spectral Adaptive C04K C04AK.\nImport ListNotations.\n")
KINDS = {"ad": (HEADER04A, "check_ad", "ad_case"), "pg": (HEADER04, "check_pg", "pg_case"), "mt": (HEADER04, "check_mt", "mt_case"),
         "pc": (HEADER06, "check_pc", "pc_case"), "mc": (HEADER06, "check_mc", "mc_case"),
         "we": (HEADER06, "check_we", "we_case")}


# ----------------------------------------------------------------------------- generators
# amplitude scales: powers of two (exact in binary64 and cheap in Q), from pico-units to 1e12; the values
# around 2^-27 straddle numpy's hidden absolute tolerance 1e-8 (np.allclose / isclose)
AMP_EXP = [-60, -50, -40, -33, -30, -27, -26, -24, -20, -10, -3, 0, 0, 0, 0, 4, 10, 20, 30, 40]


def gen_signal(rng, lead, n, cplx, amp_exp=None):
    """structured random data: noise, noisy and pure sinusoids, integers, AR(1), exactly-zero-mean and
    tiny-mean rows; a DC offset on about half of the other rows; correlated channels; the whole array
    scaled by a power of two between 2^-60 and 2^40"""
    M = int(np.prod(lead)) if lead else 1
    t = np.arange(n)

    def one():
        kind = rng.choice(["noise", "sine", "tone", "ints", "ar", "zeromean", "tinymean", "noise"])
        if kind == "noise":
            v = np.array([rng.gauss(0, 1) for _ in range(n)])
        elif kind == "sine":
            v = np.sin(2 * np.pi * rng.randint(1, max(1, n // 2)) * t / n + rng.uniform(0, 6)) + 0.1 * np.array(
                [rng.gauss(0, 1) for _ in range(n)])
        elif kind == "tone":
            # noise-free bin-centred tone: most bins lie > 150 dB below the peak (adaptive_weights' min_pwr branch)
            v = np.cos(2 * np.pi * rng.randint(1, max(1, n // 2 - 1)) * t / n)
        elif kind == "ints":
            v = np.array([float(rng.randint(-5, 5)) for _ in range(n)])
            if not v.any():
                v[0] = 1.0
        elif kind in ("zeromean", "tinymean"):
            v = np.array([float(rng.randint(-6, 6)) for _ in range(n)])
            v[-1] -= v.sum()                      # the row sums to exactly 0 (small integers: exact)
            if not v.any():
                v[0], v[1] = 1.0, -1.0
            if kind == "tinymean":
                v = v + 2.0 ** -rng.choice([20, 27, 30, 36])      # mean = 2^-k exactly
            return v
        else:
            e = [rng.gauss(0, 1) for _ in range(n)]
            v = np.zeros(n)
            for i in range(n):
                v[i] = 0.8 * (v[i - 1] if i else 0.0) + e[i]
        if rng.random() < 0.55:
            v = v + rng.choice([-1, 1]) * rng.uniform(0.3, 4.0)       # DC offset, as raw recordings have
        return v

    rows = []
    for c in range(M):
        v = one()
        if cplx:
            v = v + 1j * one()
        if c and rng.random() < 0.4:
            v = v + rng.uniform(0.3, 1.5) * rows[rng.randrange(c)]     # correlated channels
        rows.append(v)
    a = np.array(rows)
    e = rng.choice(AMP_EXP) if amp_exp is None else amp_exp
    a = a * 2.0 ** e
    return a.reshape(tuple(lead) + (n,))


FS_CHOICES = [None, 1.0, 2.0, 0.5, 0.0125, 3.0, 250.0, 1000.0, 9973.5]


def gen_common(rng, nmax, allow_lead=True, min_ch=1, max_ch=5):
    n = rng.choice([rng.randint(8, 17), rng.randint(8, nmax), rng.randint(8, nmax)])
    r = rng.random()
    if not allow_lead or r < 0.7 or max_ch < 4:
        M = rng.randint(min_ch, max_ch)
        lead = [M]
        if min_ch <= 1 and M == 1 and rng.random() < 0.5:
            lead = []
    else:
        lead = rng.choice([[2, 2], [1, 3], [2, 1, 2], [3, 1]])
    cplx = rng.random() < 0.3
    fs = rng.choice(FS_CHOICES)
    nfft = rng.choice([None, None, n, n + rng.randint(1, 9), n + rng.randint(1, 9), 2 * n + 1])
    sides = rng.choice(["default", "default", "onesided", "twosided"])
    return n, lead, cplx, fs, nfft, sides


LAYOUTS = ["F", "F", "transposed", "strided", "strided0"]


def gen_scenario(rng, est, nmax=64, min_ch=1, max_ch=5, lead=None, layout=None):
    n, lead0, cplx, fs, nfft, sides = gen_common(rng, nmax, min_ch=min_ch, max_ch=max_ch)
    lead = lead0 if lead is None else list(lead)
    if est in ("multi_taper_psd", "multi_taper_csd"):
        if nfft is not None:
            nfft = rng.choice([n, n + rng.randint(1, 9), n - 2])      # NFFT < N is reset to N by the code
    if est in ("periodogram", "periodogram_csd") and rng.random() < 0.15:
        nfft = rng.choice([n - 1, n - 3, n // 2, n // 2 + 1])          # truncating transform (NFFT < N)
    if est in ("periodogram_csd", "multi_taper_csd") and not lead:
        lead = [1]
    sc = {"est": est, "Fs": None if fs is None else float(fs).hex(), "NFFT": nfft, "sides": sides}
    set_data(sc, gen_signal(rng, lead, n, cplx))
    if layout is None and lead and rng.random() < 0.3:
        layout = rng.choice(LAYOUTS)
    if layout not in (None, "C"):
        sc["layout"] = layout           # same values, Fortran-ordered / strided / transposed-view memory
    if est in ("periodogram", "periodogram_csd"):
        sc["normalize"] = rng.random() < 0.85
        sc["use_sk"] = rng.random() < 0.15
    else:
        nwmax = n / 4.0                              # keep 2NW <= n/2 (dpss_windows breaks down near NW = n/2)
        r = rng.random()
        if r < 0.2 and nwmax >= 4:
            pass                                    # default NW = 4
        elif r < 0.75:
            sc["NW"] = float(rng.choice([v for v in (1.0, 1.5, 2.0, 2.5, 3.0, 4.0) if v <= nwmax])).hex()
        else:
            m = rng.randint(3, max(3, min(7, int(2 * nwmax))))
            fsv = fs_of(sc)
            sc["BW"] = float((m + rng.uniform(-0.3, 0.3)) * fsv / n).hex()
        sc["adaptive"] = rng.random() < 0.4
        sc["low_bias"] = rng.random() < 0.8
        if est == "multi_taper_psd":
            sc["jackknife"] = rng.random() < 0.15
    if not sc["cplx"] and rng.random() < 0.1:
        force_int(rng, sc)              # integer-dtype samples
    return sc


_DPSS_OK = {}


def dpss_ok(sc):
    """does nitime.utils.dpss_windows (property C07's code) produce tapers for this scenario's (N, NW, Kmax)?
    It raises ZeroDivisionError for some sizes (e.g. N=8, NW=2); a scenario built to exercise a specific
    configuration must not be lost to that."""
    if not sc["est"].startswith("multi_taper"):
        return True
    import nitime.utils as ut
    n = sc["shape"][-1]
    if sc.get("BW") is not None:
        nw = float(np.round(float.fromhex(sc["BW"]) * n / fs_of(sc))) / 2.0
    elif sc.get("NW") is not None:
        nw = float.fromhex(sc["NW"])
    else:
        nw = 4
    key = (n, nw)
    if key not in _DPSS_OK:
        try:
            ut.dpss_windows(n, nw, int(2 * nw))
            _DPSS_OK[key] = True
        except Exception:  # noqa
            _DPSS_OK[key] = False
    return _DPSS_OK[key]


def runnable(make, tries=8):
    """call make() until every scenario it returns gets its tapers (see dpss_ok)"""
    for _ in range(tries):
        out = make()
        lst = out if isinstance(out, list) else [out]
        if all(dpss_ok(sc) for sc in lst):
            return out
    return out


def force_few_tapers(rng, sc):
    """adaptive=True with fewer than 3 usable tapers (NW = 1, NW = 1.5 + low_bias, or a small BW)"""
    n = sc["shape"][-1]
    sc.pop("BW", None)
    sc.pop("NW", None)
    r = rng.random()
    if r < 0.4:
        sc["NW"] = float(1.0).hex()
        sc["low_bias"] = rng.random() < 0.5
    elif r < 0.7:
        sc["NW"] = float(1.5).hex()
        sc["low_bias"] = True
    else:
        sc["BW"] = float((2 + rng.uniform(-0.3, 0.3)) * fs_of(sc) / n).hex()
        sc["low_bias"] = rng.random() < 0.5
    sc["adaptive"] = True
    return sc


def force_int(rng, sc, dtype=None):
    """the same kind of call on integer-dtype samples (raw ADC counts): whole numbers, some rows with an
    offset, scaled by a small power of two"""
    shape = sc["shape"]
    n = shape[-1]
    M = int(np.prod(shape[:-1])) if len(shape) > 1 else 1
    rows = []
    for _ in range(M):
        v = np.array([float(rng.randint(-40, 40)) for _ in range(n)])
        if rng.random() < 0.5:
            v += rng.randint(-100, 100)
        if not v.any() or np.all(v == v[0]):
            v[0] += 7.0
        rows.append(v)
    a = np.array(rows).reshape(shape) * 2.0 ** rng.choice([0, 0, 3, 8, 15])
    sc["dtype"] = dtype or rng.choice(["int64", "int32", "int64", "int16" if np.max(np.abs(a)) < 2 ** 15 else "int32"])
    set_data(sc, a)
    return sc


def scale_factors(x, seed):
    """exact power-of-two factors far from the data's own scale (2^-45 and 2^+35), kept inside the range where
    nothing under- or overflows, and per-channel factors (a different power of two for every row)"""
    amax = float(np.max(np.abs(x))) or 1.0
    e0 = int(np.floor(np.log2(amax)))
    uni = [2.0 ** p for p in (-45, 35) if -110 <= e0 + p <= 110]
    M = int(np.prod(x.shape[:-1])) if x.ndim > 1 else 1
    rr = np.random.default_rng(seed + 7)
    per = None
    if M > 1:
        ex = rr.choice([-45, -30, -12, 0, 9, 20, 35], size=M)
        if len(set(ex.tolist())) == 1:
            ex[0] = -45 if ex[0] != -45 else 35
        per = 2.0 ** ex.astype(float)
    return uni, per


_TIES = []


def bw_ties():
    """(n, Fs, k, BW) with BW * n / Fs == k + 0.5 EXACTLY in binary64 (ties of np.round, k even and odd)"""
    if not _TIES:
        for n in range(16, 41):
            for fs in (1.0, 2.0, 8.0, 0.5, 4.0):
                for k in range(3, 8):
                    if (k + 1) / 2.0 > n / 4.0:
                        continue
                    bw = (k + 0.5) * fs / n
                    if bw * n / fs == k + 0.5 and Fraction(bw) * n / Fraction(fs) == Fraction(2 * k + 1, 2):
                        _TIES.append((n, fs, k, bw))
    return _TIES


def force_bw_tie(rng, sc, idx):
    """the BW keyword with BW*N/Fs exactly on a half-integer k + 0.5 (np.round goes to the even neighbour), k even
    and odd, and one ulp of BW below / above the tie (only where the binary64 evaluation of BW*N/Fs falls on
    the same side as its exact value — the model evaluates the expression exactly)"""
    ties = bw_ties()
    evens = [t for t in ties if t[2] % 2 == 0]
    odds = [t for t in ties if t[2] % 2 == 1]
    pool = evens if idx % 2 == 0 else odds
    for _ in range(40):
        n, fs, k, bw = pool[rng.randrange(len(pool))]
        mode = (0, 0, 1, 2)[(idx // 2) % 4]
        if mode == 1:
            bw = float(np.nextafter(bw, 0.0))
        elif mode == 2:
            bw = float(np.nextafter(bw, np.inf))
        fl = bw * n / fs
        ex = Fraction(bw) * n / Fraction(fs)
        half = Fraction(2 * k + 1, 2)
        if (fl == k + 0.5) != (ex == half) or (fl < k + 0.5) != (ex < half):
            continue
        lead = sc["shape"][:-1]
        set_data(sc, gen_signal(rng, lead, n, False))
        sc.pop("NW", None)
        sc.pop("layout", None)
        sc["Fs"] = float(fs).hex()
        sc["BW"] = float(bw).hex()
        sc["NFFT"] = rng.choice([None, n, n + 3])
        sc["bw_tie"] = "k=%d/%s" % (k, ("tie", "below", "above")[mode])
        nw_lo, nw_hi = k / 2.0, (k + 1) / 2.0
        ok = True
        for nw in (nw_lo, nw_hi):
            t = dict(sc)
            t.pop("BW")
            t["NW"] = float(nw).hex()
            ok = ok and dpss_ok(t)
        if ok:
            return sc
    return sc


def force_both_nw_bw(rng, sc, idx):
    """BOTH the NW and the BW keyword in one call (the documented rule: BW wins): conflicting values, agreeing
    values, and BW on a rounding tie; different numbers of tapers result if the wrong one wins"""
    n = sc["shape"][-1]
    fsv = fs_of(sc)
    sc.pop("layout", None)
    mode = idx % 4
    for _ in range(30):
        m_bw = rng.randint(3, max(3, min(8, n // 2)))           # BW ~ m_bw bins  ->  NW = m_bw / 2
        if mode in (0, 1):
            nw = rng.choice([v for v in (1.0, 1.5, 2.0, 2.5, 3.0, 4.0) if v <= n / 4.0 and abs(2 * v - m_bw) >= 2] or [1.0])
        elif mode == 2:
            nw = m_bw / 2.0                                     # agreeing
        else:
            nw = rng.choice([1.5, 2.0, 3.0])
        sc["NW"] = float(nw).hex()
        sc["BW"] = float((m_bw + rng.uniform(-0.25, 0.25)) * fsv / n).hex()
        t1 = {k: v for k, v in sc.items() if k != "BW"}
        t2 = {k: v for k, v in sc.items() if k != "NW"}
        if m_bw / 2.0 <= n / 4.0 and dpss_ok(t1) and dpss_ok(t2):
            break
    sc["both_nw_bw"] = ("conflict", "conflict", "agree", "conflict")[mode]
    return sc


def combo_plan(rng, est, n_small=10):
    """option combinations that are individually covered but rarely together, as a small full factorial:
    multitaper: low_bias x adaptive x {NW, BW, both};  periodogram(_csd): sides x NFFT {None, N, >N, <N} x
    real/complex, plus Sk= together with a conflicting N= / NFFT="""
    out = []
    if est.startswith("multi_taper"):
        i = 0
        for lb in (True, False):
            for ad in (False, True):
                for how in ("NW", "BW", "both"):
                    def make():
                        sc = gen_scenario(rng, est, nmax=max(n_small, 17), max_ch=2, lead=[2] if est.endswith("csd") else rng.choice([[], [2]]),
                                          layout="C")
                        n = sc["shape"][-1]
                        sc["low_bias"], sc["adaptive"] = lb, ad
                        sc["NFFT"] = rng.choice([None, n + 3])
                        sc.pop("NW", None)
                        sc.pop("BW", None)
                        if how == "NW":
                            sc["NW"] = float(rng.choice([1.5, 2.0])).hex()
                        elif how == "BW":
                            sc["BW"] = float((rng.choice([3, 4]) + 0.2) * fs_of(sc) / n).hex()
                        else:
                            force_both_nw_bw(rng, sc, i)
                        return sc
                    out.append(runnable(make))
                    i += 1
    else:
        i = 0
        for sides in ("default", "onesided", "twosided"):
            for nfk in ("none", "n", "gt", "lt"):
                for cplx in (False, True):
                    sc = gen_scenario(rng, est, nmax=17, max_ch=2, lead=[2] if est.endswith("csd") else rng.choice([[], [2]]), layout="C")
                    n = sc["shape"][-1]
                    set_data(sc, gen_signal(rng, sc["shape"][:-1], n, cplx))
                    sc["sides"] = sides
                    sc["NFFT"] = {"none": None, "n": n, "gt": n + rng.choice([1, 2, 5]), "lt": n - rng.choice([1, 2, 3])}[nfk]
                    sc["normalize"] = True
                    sc["use_sk"] = (i % 5 == 4)
                    if sc["use_sk"]:
                        sc["sk_and_nfft"] = (sc["NFFT"] or n) + 3
                    out.append(sc)
                    i += 1
    return out


def force_coherent(rng, sc):
    """adaptive weights on channels that are filtered copies of one signal (differently coloured, so each
    channel gets its own adaptive weights, yet almost perfectly coherent): the positive-semidefiniteness
    clause is tight here, a wrong per-channel normalisation pushes an eigenvalue below zero"""
    x = sc_data(sc)
    n = x.shape[-1]
    x2 = x.reshape(-1, n)
    base = np.real(x2[0]).astype(float)
    e = [rng.gauss(0, 1) for _ in range(n)]
    v = np.zeros(n)
    for i in range(n):
        v[i] = 0.6 * (v[i - 1] if i else 0.0) + e[i]
    scale = float(np.max(np.abs(base))) or 1.0
    v = v * 2.0 ** int(np.floor(np.log2(scale)))
    rows = [v, v - 0.95 * np.roll(v, 1), v + 0.95 * np.roll(v, 1), np.roll(v, 2) - 0.5 * v]
    M = x2.shape[0]
    set_data(sc, np.array([rows[i % 4] for i in range(M)]).reshape(x.shape))
    sc["adaptive"] = True
    sc["low_bias"] = True
    sc.pop("layout", None)
    return sc


def force_bw_nfft(rng, sc, idx=None):
    """the BW keyword together with NFFT in {None, N, > N}; NFFT > N large enough that BW*NFFT/Fs and
    BW*N/Fs round to different numbers of tapers"""
    n = sc["shape"][-1]
    sc.pop("NW", None)
    m = rng.randint(3, max(3, min(6, n // 3)))
    sc["BW"] = float((m + rng.uniform(-0.3, 0.3)) * fs_of(sc) / n).hex()
    grid = [n + n // 2, None, n + n // 3, n, n + n // 2 + 1, 2 * n, n + n // 2]
    sc["NFFT"] = rng.choice(grid) if idx is None else grid[idx % len(grid)]
    return sc


def gen_parity_matrix(rng, est, n_even, n_odd, M=2, per_cell=1):
    """the NFFT-vs-N parity matrix: real signals of an even and an odd length N, transform lengths
    NFFT in {None, N, N+1, N+2, 2N, 2N+1}, sides cycling through default / onesided / twosided (mostly
    one-sided, where the doubling of bins 1..Fl-1 and the Nyquist bin depend on the parity of NFFT), adaptive
    alternating for the multitaper estimators"""
    out = []
    i = 0
    for n in (n_even, n_odd):
        short = [] if est.startswith("multi_taper") else [n // 2, n - 3, n - 1]     # NFFT < N: the FFT truncates
        for nf in [None, n, n + 1, n + 2, 2 * n, 2 * n + 1] + short:
            for _ in range(per_cell):
                lead = [M] if (est.endswith("_csd") or M > 1) else []
                sc = gen_scenario(rng, est, nmax=max(n, 17), max_ch=M, lead=lead, layout="C")
                x = gen_signal(rng, lead, n, False)
                set_data(sc, x)
                sc["NFFT"] = nf
                sc["sides"] = ["default", "onesided", "default", "twosided"][i % 4]
                sc["use_sk"] = False
                sc["normalize"] = True
                if est.startswith("multi_taper"):
                    sc.pop("BW", None)
                    sc["low_bias"] = True
                    for nwv in (2.0, 2.5, 1.5, 3.0, 1.0):
                        sc["NW"] = float(nwv).hex()
                        if nwv <= n / 4.0 and dpss_ok(sc):
                            break
                    sc["adaptive"] = bool((i // 2) % 2)
                    sc["jackknife"] = False
                else:
                    for k in ("NW", "BW", "adaptive", "low_bias", "jackknife"):
                        sc.pop(k, None)
                sc["parity_cell"] = "N%s/NFFT%s" % ("even" if n % 2 == 0 else "odd",
                                                   "none" if nf is None else (("even" if nf % 2 == 0 else "odd")
                                                                              + ("<N" if nf < n else "")))
                out.append(sc)
                i += 1
    return out


def gen_siblings(rng, est, nmax=24, max_ch=3, opt=None):
    """an option-sibling sequence: the same function on the same signal, called two times with exactly one
    option changed (either order), then the first call again (which must return the identical result).
    Every call is judged on its own; each records the calls made before it under "history"."""
    a = gen_scenario(rng, est, nmax=nmax, max_ch=max_ch, layout="C")
    a["use_sk"] = False
    n = a["shape"][-1]
    fsv = fs_of(a)
    mt = est in ("multi_taper_psd", "multi_taper_csd")
    opts = ["sides", "NFFT", "Fs"] + (["low_bias", "low_bias", "low_bias", "adaptive", "BWvsNW"] if mt else ["normalize"])
    if est == "multi_taper_psd":
        opts.append("jackknife")
    opt = opt or rng.choice(opts)
    b = dict(a)
    if opt == "sides":
        b["sides"] = rng.choice([v for v in ("default", "onesided", "twosided") if v != a.get("sides", "default")])
    elif opt == "NFFT":
        b["NFFT"] = (n + rng.randint(1, 7)) if a.get("NFFT") in (None, n) else None
    elif opt == "Fs":
        b["Fs"] = float(rng.choice([v for v in (1.0, 2.0, 3.0, 250.0) if v != fsv])).hex()
        if a.get("BW") is not None:                 # keep the same normalised bandwidth
            b["BW"] = float(float.fromhex(a["BW"]) * fs_of(b) / fsv).hex()
    elif opt == "low_bias":
        b["low_bias"] = not a.get("low_bias", True)
    elif opt == "adaptive":
        b["adaptive"] = not a.get("adaptive", False)
    elif opt == "jackknife":
        b["jackknife"] = not a.get("jackknife", False)
    elif opt == "normalize":
        b["normalize"] = not a.get("normalize", True)
    elif opt == "BWvsNW":
        if a.get("BW") is not None:
            nw = float(np.round(float.fromhex(a["BW"]) * n / fsv)) / 2.0
            b.pop("BW")
            b["NW"] = float(nw).hex()
        else:
            nw = float.fromhex(a["NW"]) if a.get("NW") is not None else 4.0
            b.pop("NW", None)
            b["BW"] = float((2 * nw + rng.uniform(-0.2, 0.2)) * fsv / n).hex()
    if rng.random() < 0.5:
        a, b = b, a
    c = dict(a)
    a["sibling"], b["sibling"], c["sibling"] = "%s/first" % opt, "%s/second" % opt, "%s/first-again" % opt
    b["history"] = [dict(a)]
    c["history"] = [dict(a), {k: v for k, v in b.items() if k != "history"}]
    c["same_as_first"] = True
    return [a, b, c]


def gen_welch(rng, nmax=256, window=None, M=None):
    M = rng.choice([0, 1, 2, 3, 3, 4, 5]) if M is None else M
    nfft = rng.choice([None, 16, 32, 64, 24, 17])
    n = (nfft or 64) * rng.randint(1, 4) + rng.randint(0, 7)
    cplx = rng.random() < 0.25
    lead = [] if M == 0 else [M]
    method = {"this_method": "welch"}
    if nfft is not None:
        method["NFFT"] = nfft
    fs = rng.choice(FS_CHOICES)
    if fs is not None:
        method["Fs"] = float(fs).hex()
    if rng.random() < 0.4:
        method["n_overlap"] = rng.randint(0, (nfft or 64) - 1)
    if window is None and rng.random() < 0.35:
        window = rng.choice(["none", "array", "callable"])
    if window:
        method["window"] = window
    sc = {"est": "welch", "method": method if rng.random() < 0.9 or len(method) > 1 else None}
    set_data(sc, gen_signal(rng, lead, n, cplx))
    if not sc["cplx"] and rng.random() < 0.15:
        force_int(rng, sc)
    return sc


def klass(sc):
    est = sc["est"]
    if est == "welch":
        m = sc.get("method") or {}
        return "welch/M%d/%s/nfft%s/window-%s" % (len(sc["shape"]) > 1 and sc["shape"][0] or 0, "cplx" if sc["cplx"] else "real",
                                                  m.get("NFFT"), m.get("window", "default"))
    n = sc["shape"][-1]
    nf = sc.get("NFFT")
    return "%s/%s/%s/%s/%s/%s%s" % (
        est, "cplx" if sc["cplx"] else "real", "odd" if n % 2 else "even",
        "nfft-none" if nf is None else ("nfft=n" if nf == n else ("nfft>n" if nf > n else "nfft<n")),
        sc.get("sides", "default"), "lead%d" % (len(sc["shape"]) - 1),
        ("/adaptive" if sc.get("adaptive") else "") + ("/" + sc["layout"] if sc.get("layout") else "")
        + ("/sibling:" + sc["sibling"] if sc.get("sibling") else "")
        + ("/NW+BW:" + sc["both_nw_bw"] if sc.get("both_nw_bw") else "") + ("/Sk+N" if sc.get("sk_and_nfft") else "")
        + ("/" + sc["dtype"] if sc.get("dtype") else "") + ("/bw-tie:" + sc["bw_tie"] if sc.get("bw_tie") else "")
        + ("/parity:" + sc["parity_cell"] if sc.get("parity_cell") else "")
        + ("/via_get_spectra" if sc.get("via_get_spectra") else ""))


def make_case(sc):
    """run the implementation and build the K case"""
    res = run_scenario(sc)
    fn, kind = EMIT[sc["est"]]
    coq = None
    if res["err"] is None:
        coq = fn(sc, res)
    c = Case(coq or "", {"scenario": sc, "error": None if res["err"] is None else repr(res["err"])[:200]}, klass(sc),
             nontrivial=res["err"] is None)
    c.kind = kind
    c.res = res
    c.sc = sc
    c.in_k = coq is not None
    c.skip_k = False
    if sc.get("same_as_first") and coq is not None:
        c.in_k, c.skip_k = False, True          # identical to the first sibling (checked by the oracle): not compiled again
    c.cost = est_cost(sc, res)
    return c


def est_cost(sc, res):
    """rough seconds of kernel evaluation (binary-positive Q arithmetic: ~4 ms per complex product term)"""
    if res["err"] is not None:
        return 0.0
    x = res["x"]
    n = x.shape[-1]
    M = max(1, int(np.prod(x.shape[:-1])))
    out = res["out"]
    L = out.shape[-1]
    est = sc["est"]
    if est == "periodogram":
        return 0.003 * M * max(L, n)
    if est == "periodogram_csd":
        return 0.012 * M * M * L
    rec = res["rec"]
    K = 1
    if rec.dpss:
        eig = rec.dpss[0][2][1]
        K = int((eig > 0.9).sum()) if sc.get("low_bias", True) else len(eig)
    if est == "multi_taper_psd":
        return 0.02 * M * K * (n + L)
    if est == "multi_taper_csd":
        return 0.02 * M * K * n + 0.025 * M * M * L * K
    return 0.01 * out.size


def adaptive_cases(cases, limit):
    """K cases of kind `ad` (utils.adaptive_weights vs Model/Adaptive.v): the calls recorded while the given
    cases ran, and, for the first ones, a direct call on the same spectra amplified until the loop stops
    after <= 2 passes (then the model is replayed exactly)."""
    import nitime.utils as ut
    out = []
    direct = 0
    two_pass = 0
    two_pass_max = 1 if limit <= 10 else 6

    def few(c):
        return bool(c.res["err"] is None and c.res["rec"].adapt and len(c.res["rec"].adapt[0][3]) < 3)

    ordered = [c for c in cases if few(c)][:max(3, limit // 3)]
    ordered += [c for c in cases if c not in ordered]
    for c in ordered:
        if len(out) >= limit:
            break
        if c.res["err"] is not None or not c.res["rec"].adapt:
            continue
        calls = [c.res["rec"].adapt[0]]
        w, nu, yk, eig, sides, passes = calls[0]
        if len(eig) >= 3 and yk.shape[0] * yk.shape[1] <= 60 and direct < max(3, limit // 2):
            # amplified direct calls: 1 pass (weights = d_k(S0)) is cheap to replay; one small 2-pass call
            # per run also replays ad_step
            got = None
            for amp in (1e12, 1e9, 1e6, 1e3):
                with Rec() as r2:
                    try:
                        ut.adaptive_weights(yk * amp, eig, sides=sides)
                    except Exception:  # noqa
                        break
                if not r2.adapt:
                    break
                p2 = r2.adapt[0][5]
                if p2 == 1 and got is None:
                    got = r2.adapt[0]
                if p2 == 2 and two_pass < two_pass_max and yk.shape[0] * yk.shape[1] <= 30:
                    calls.append(r2.adapt[0] + (True,))
                    two_pass += 1
                    break
            if got is not None:
                calls.append(got)
                direct += 1
        if two_pass < two_pass_max and len(eig) >= 3 and yk.shape[1] >= 8:
            # a small direct call (3 tapers, 8 bins of the recorded spectra) amplified until the loop makes
            # exactly 2 passes: the model's ad_step is then replayed exactly
            ys, es = yk[:3, :8], eig[:3]
            for e10 in range(0, 13):
                with Rec() as r2:
                    try:
                        ut.adaptive_weights(ys * 10.0 ** e10, es, sides=sides)
                    except Exception:  # noqa
                        break
                if r2.adapt and r2.adapt[0][5] == 2:
                    calls.append(r2.adapt[0] + (True,))
                    two_pass += 1
                    break
        for call in calls:
            replay2 = len(call) > 6
            call = call[:6]
            coq = ad_case_coq(call, replay2)
            if coq is None:
                continue
            w, nu, yk, eig, sides, passes = call
            a = Case(coq, {"adaptive_weights_call_of": {k: v for k, v in c.sc.items() if k != "data"}, "passes": passes,
                           "scenario": c.sc},
                     "adaptive_weights/K%d/%s/%s" % (len(eig), sides,
                                                     "few-tapers" if len(eig) < 3 else ("replayed-%d-pass" % passes if (passes <= 1 or replay2) else ("relation" if passes < 150 else "max_iter"))), True)
            a.kind, a.res, a.sc, a.in_k = "ad", c.res, c.sc, True
            a.cost = 0.03 * yk.shape[0] * yk.shape[1] * (20 if replay2 else 1)
            a.is_aux = True
            out.append(a)
    return out


def run_k(ctx, cases, budget=18.0):
    """K: pack the cases of every kind into shards of about `budget` estimated seconds, compile all
    shards in one pool; returns the set of id(case) on which model and implementation disagree."""
    import concurrent.futures
    import re
    jobs = []
    for kind, (hdr, fn, ty) in KINDS.items():
        ks = sorted([c for c in cases if c.kind == kind and c.in_k], key=lambda c: -c.cost)
        shards, cur, tot = [], [], 0.0
        for c in ks:
            if cur and (tot + c.cost > budget or len(cur) >= 40):
                shards.append(cur)
                cur, tot = [], 0.0
            cur.append(c)
            tot += c.cost
        if cur:
            shards.append(cur)
        for si, sh in enumerate(shards):
            jobs.append((sum(c.cost for c in sh), "K%s_%d" % (kind, si), hdr, fn, ty, sh))
    jobs.sort(key=lambda j: -j[0])
    bad = set()

    def one(job):
        cost, name, hdr, fn, ty, sh = job
        body = hdr + "\nDefinition cases : list %s := [\n%s\n].\n" % (ty, ";\n".join(c.coq for c in sh))
        src = body + "Lemma corr : forallb %s cases = true.\nProof. vm_compute. reflexivity. Qed.\n" % fn
        r = ctx.coqc(name, src, timeout=1500)
        for _ in range(2):
            # a genuine disagreement is the kernel refusing `true = false`; anything else (a shared .vo being
            # rebuilt by a concurrent build, a load error) is retried
            if r.ok or "Unable to unify" in r.out or "TIMEOUT" in r.out:
                break
            import time as _t
            _t.sleep(5)
            r = ctx.coqc(name, src, timeout=1500)
        idx = []
        if not r.ok:
            r2 = ctx.coqc(name + "_loc", body + "From NT Require Import Lists.\nEval vm_compute in (failing %s cases).\n" % fn,
                          timeout=1500)
            m = re.search(r"=\s*\[(.*?)\]", r2.out, flags=re.S)
            if r2.ok and m:
                idx = [int(v) for v in re.findall(r"\d+", re.sub(r"%nat", "", m.group(1)))]
            else:
                idx = list(range(len(sh)))
                r.out += "\n[localisation failed]\n" + r2.out[-800:]
        return job, r, idx

    with concurrent.futures.ThreadPoolExecutor(max_workers=core.NCPU) as ex:
        for job, r, idx in ex.map(one, jobs):
            ctx.obligation("K", "%s.v:corr" % job[1], r.ok, r.out)
            if not r.ok:
                ctx.extra.setdefault("K_failure_output", {})[job[1]] = r.out[-600:]
            ctx.extra.setdefault("K_shard_seconds", {})[job[1]] = round(r.secs, 1)
            for j in idx:
                bad.add(id(job[5][j]))
    for c in cases:
        ctx.count_case(c)
    lost = [c for c in cases if not c.in_k and c.res["err"] is None and not getattr(c, "skip_k", False)]
    ctx.obligation("K", "emit: every successful call is expressible as a K case (%d are not)" % len(lost), not lost,
                   "calls whose library-oracle recording does not have the expected form (no fft / dpss_windows / "
                   "mlab.csd call of the expected shape was seen): " + "; ".join(c.klass for c in lost[:10]))
    return bad


def same_result(r1, r2):
    if (r1["err"] is None) != (r2["err"] is None):
        return False
    if r1["err"] is not None:
        return type(r1["err"]) is type(r2["err"])
    return r1["out"].shape == r2["out"].shape and np.array_equal(r1["out"], r2["out"], equal_nan=True)


def purity_fails(pid, cases, sample):
    """results must not depend on the call history: (1) the third member of every option-sibling sequence
    repeats the first call and must return the identical result; (2) a sample of the earliest calls is made
    again at the end of the run"""
    fails = []
    by_first = {}
    for c in cases:
        sib = c.sc.get("sibling", "")
        if sib.endswith("/first"):
            by_first[id(c.sc.get("data"))] = c
    prev = None
    for c in cases:
        if c.sc.get("same_as_first") and prev is not None:
            if not same_result(prev.res, c.res):
                f = Fail("%s/%s/history-dependence" % (pid, c.sc["est"]),
                         "the same call returns another result after a call with one option changed (%s)" % c.sc["sibling"],
                         None, "identical result")
                fails.append((f, c))
        if c.sc.get("sibling", "").endswith("/first"):
            prev = c
    plain = [c for c in cases if not c.sc.get("sibling") and c.res["err"] is None][:sample]
    for c in plain:
        r2 = run_scenario(c.sc)
        if not same_result(c.res, r2):
            i0 = cases.index(c)
            between = [dict(o.sc) for o in cases[i0 + 1:] if o.sc["est"] == c.sc["est"]
                       and o.sc["shape"][-1] == c.sc["shape"][-1]][:12]
            sc = dict(c.sc)
            sc["history"] = [dict(c.sc)] + between
            cc = Case("", {"scenario": sc, "error": None}, c.klass, True)
            f = Fail("%s/%s/history-dependence" % (pid, c.sc["est"]),
                     "the same call made again at the end of the run returns another result", None, "identical result")
            fails.append((f, cc))
    return fails


def with_run_history(cases, i):
    """replay description of case i that also lists the earlier calls of this run on the same estimator
    family and signal length (a failure that depends on the call history then replays from a fresh process)"""
    c = cases[i]
    if c.sc.get("history"):
        return c
    fam = c.sc["est"].split("_")[0]
    hist = [{k: v for k, v in o.sc.items() if k != "history"} for o in cases[:i]
            if o.sc["est"].split("_")[0] == fam and o.sc["shape"][-1] == c.sc["shape"][-1]][-10:]
    if not hist:
        return c
    cc = Case(c.coq, {"scenario": dict(c.sc, history=hist), "error": c.replay.get("error")}, c.klass, c.nontrivial)
    return cc


def err_in_dpss(err):
    """the exception was raised inside nitime.utils.dpss_windows (taper computation: property C07's code)"""
    tb = getattr(err, "__traceback__", None)
    while tb is not None:
        co = tb.tb_frame.f_code
        if co.co_name == "dpss_windows" and co.co_filename.endswith("utils.py"):
            return True
        tb = tb.tb_next
    return False


# ----------------------------------------------------------------------------- exact helpers
def frac_power(x):
    """mean |x|^2 per row, exactly"""
    x = np.asarray(x)
    rows = x.reshape(-1, x.shape[-1])
    out = []
    for r in rows:
        s = Fraction(0)
        for z in r:
            s += Fraction(float(np.real(z))) ** 2 + Fraction(float(np.imag(z))) ** 2
        out.append(s / len(r))
    return out


def rel_err(a, b):
    a, b = float(a), float(b)
    d = abs(a - b)
    s = max(abs(a), abs(b))
    return 0.0 if d == 0 else (d / s if s > 0 else float("inf"))
