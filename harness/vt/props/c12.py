"""C12 — Granger causality spectra obey the spectral decomposition identities.

P: coq/Props/C12.v (H A = I, S = H Sigma H^H Hermitian PSD, the two routines agree, log arguments >= 1,
   product of the three log arguments = 1/(1 - coherence), relabelling, zero coupling, _dict2arr)
K: stage-wise kernel-evaluated correspondence (Check/C12K.v): transfer_function_xy from the harness'
   own freq_response values, spectral_matrix_xy / coherence / interdependence and
   granger_causality_xy from the implementation's H(w), GrangerAnalyzer arrays from the pairwise
   function results.  Logarithms enter Coq through exp() applied by the harness.
oracle (search): independent float64 check of every identity of the statement.
"""
import json

import numpy as np

from vt import core
from vt.core import Case, Fail, flit, llit, nlit

CORPUS = core.VERIF / "harness" / "corpus" / "C12"


def hx(x):
    return float(x).hex()


def uhx(s):
    return float.fromhex(s)


def cfl(z):
    z = complex(z)
    return "(%s, %s)" % (flit(z.real), flit(z.imag))


def m2f(M, k):
    """2x2xn complex array -> Coq m2f of frequency k"""
    return "(%s, %s, %s, %s)" % (cfl(M[0, 0, k]), cfl(M[0, 1, k]), cfl(M[1, 0, k]), cfl(M[1, 1, k]))


def q2f(m):
    return "(%s, %s, %s, %s)" % (flit(m[0, 0]), flit(m[0, 1]), flit(m[1, 0]), flit(m[1, 1]))


def flist(v):
    return llit([flit(x) for x in v])


def arr_of(spec):
    a = np.array([[[uhx(x) for x in row] for row in m] for m in spec["a"]], dtype=float)
    cov = np.array([[uhx(x) for x in row] for row in spec["cov"]], dtype=float)
    return a, cov


def variant_of(spec, a, cov):
    """the same values in another array form: fortran-ordered / non-contiguous / integer-dtype covariance"""
    var = spec.get("variant", "plain")
    if var == "fortran":
        return np.asfortranarray(a), np.asfortranarray(cov)
    if var == "strided":
        buf = np.full((2 * a.shape[0], 2, 4), 777.0)
        buf[::2, :, ::2] = a
        cb = np.full((4, 2), -5.0)
        cb[::2, :] = cov
        return buf[::2, :, ::2], cb[::2, :]
    if var == "intcov" and np.all(cov == np.round(cov)) and np.max(np.abs(cov)) < 2 ** 50:
        return a, cov.astype(np.int64)
    return a, cov


# ------------------------------------------------------------------ running the implementation
def run_gc(spec):
    from nitime.algorithms import autoregressive as ar
    a, cov = arr_of(spec)
    a, cov = variant_of(spec, a, cov)
    nf = spec["n_freqs"]
    try:
        w, Hw = ar.transfer_function_xy(a, n_freqs=nf)
        Sw2 = ar.spectral_matrix_xy(Hw, cov)
        coh = ar.coherence_from_spectral(Sw2.copy())
        inter = ar.interdependence_xy(Sw2.copy())
        if spec.get("variant") == "kw":
            w2, fx2y, fy2x, fxy, Sw = ar.granger_causality_xy(a=a, cov=cov, n_freqs=nf)
        else:
            w2, fx2y, fy2x, fxy, Sw = ar.granger_causality_xy(a, cov, nf)
    except Exception as e:  # noqa
        return {"err": type(e).__name__, "msg": str(e)[:200]}
    return {"w": np.asarray(w), "Hw": np.asarray(Hw), "Sw2": np.asarray(Sw2), "coh": np.asarray(coh), "inter": np.asarray(inter),
            "w2": np.asarray(w2), "fx2y": np.asarray(fx2y), "fy2x": np.asarray(fy2x), "fxy": np.asarray(fxy), "Sw": np.asarray(Sw)}


def gc_cases(spec, o):
    from nitime.algorithms.spectral import freq_response
    if "err" in o or spec.get("oracle_only"):
        return []
    a, cov = arr_of(spec)
    nf = spec["n_freqs"]
    n = len(o["w"])
    arrs = [o["Hw"], o["Sw2"], o["Sw"], o["coh"], o["inter"], o["fx2y"], o["fy2x"], o["fxy"]]
    if not all(np.all(np.isfinite(x)) for x in arrs) or o["Hw"].shape != (2, 2, n) or o["Sw"].shape != (2, 2, n):
        return []
    # A(w) from the same freqz evaluation the code uses, called by the harness on polynomials it assembles itself
    A = np.empty((2, 2, n), dtype=complex)
    for i in range(2):
        for j in range(2):
            c = np.r_[1.0 if i == j else 0.0, a[:, i, j]]
            A[i, j] = freq_response(c, n_freqs=nf)[1]
    zs = np.exp(-1j * o["w"])
    kl = "order%d/%s/%s/n%s" % (len(a), spec["coupling"], spec["covkind"], "even" if nf % 2 == 0 else "odd")
    out = []
    out.append(Case("(KTF %s %s %s %s %s)" % (llit([q2f(m) for m in a]), nlit(nf), llit([cfl(z) for z in zs]),
                                             llit([m2f(A, k) for k in range(n)]), llit([m2f(o["Hw"], k) for k in range(n)])),
                    {"spec": spec, "stage": "transfer"}, "TF/" + kl))
    out.append(Case("(KSM %s %s %s %s %s)" % (llit([m2f(o["Hw"], k) for k in range(n)]), q2f(cov), llit([m2f(o["Sw2"], k) for k in range(n)]),
                                             flist(o["coh"]), flist(np.exp(-o["inter"]))),
                    {"spec": spec, "stage": "spectral_matrix"}, "SM/" + kl))
    out.append(Case("(KGC %s %s %s %s %s %s)" % (llit([m2f(o["Hw"], k) for k in range(n)]), q2f(cov), flist(np.exp(o["fx2y"])),
                                                flist(np.exp(o["fy2x"])), flist(np.exp(o["fxy"])), llit([m2f(o["Sw"], k) for k in range(n)])),
                    {"spec": spec, "stage": "granger"}, "GC/" + kl))
    return out


def mk_series(spec):
    import nitime.timeseries as ts
    rs = np.random.RandomState(spec["seed"])
    nch, N = spec["nch"], spec["N"]
    e = rs.standard_normal((nch, N + 50))
    x = np.zeros((nch, N + 50))
    M = np.array(spec["mix"], dtype=float)
    for t in range(2, N + 50):
        x[:, t] = M[0] @ x[:, t - 1] + M[1] @ x[:, t - 2] + e[:, t]
    return ts.TimeSeries(x[:, 50:] * 2.0 ** spec.get("data_scale_exp", 0), sampling_rate=spec["Fs"])


def run_an(spec):
    import nitime.analysis as nta
    from nitime.analysis.granger import fit_model
    from nitime.algorithms import autoregressive as ar
    T = mk_series(spec)
    ij = [tuple(p) for p in spec["ij"]] if spec["ij"] is not None else None
    try:
        G = nta.GrangerAnalyzer(T, ij=ij, order=spec["order"], n_freqs=spec["n_freqs"])
        out = {"xy": np.array(G.causality_xy), "yx": np.array(G.causality_yx), "sim": np.array(G.simultaneous_causality),
               "ij": [tuple(int(v) for v in p) for p in G.ij], "nfreq": int(G.frequencies.shape[0])}
    except Exception as e:  # noqa
        return {"err": type(e).__name__, "msg": str(e)[:200]}
    res = {}
    for (i, j) in out["ij"]:
        o_, R_, coef, ecov = fit_model(T.data[i], T.data[j], order=spec["order"])
        w, fx2y, fy2x, fxy, Sw = ar.granger_causality_xy(coef, ecov, n_freqs=spec["n_freqs"])
        res[(i, j)] = {"xy": np.asarray(fx2y), "yx": np.asarray(fy2x), "sim": np.asarray(fxy)}
    out["res"] = res
    return out


def an_cases(spec, o):
    if "err" in o:
        return []
    n = spec["nch"]
    out = []
    for key in ("xy", "yx", "sim"):
        arr = o[key]
        if arr.shape[:2] != (n, n):
            return []
        ents = []
        for i in range(n):
            for j in range(n):
                row = arr[i, j]
                if np.all(np.isnan(row)):
                    ents.append("((%s, %s), None)" % (nlit(i), nlit(j)))
                elif np.all(np.isfinite(row)):
                    ents.append("((%s, %s), Some %s)" % (nlit(i), nlit(j), flist(row)))
                else:
                    ents.append("((%s, %s), Some [PrimFloat.nan])" % (nlit(i), nlit(j)))   # mixed row: fails the check
        res = ["((%s, %s), %s)" % (nlit(i), nlit(j), flist(r[key])) for (i, j), r in o["res"].items()
               if np.all(np.isfinite(r[key]))]
        coq = "(KAN %s %s %s %s %s)" % (nlit(n), nlit(spec["n_freqs"]), llit(["(%s, %s)" % (nlit(i), nlit(j)) for i, j in o["ij"]]),
                                       llit(res), llit(ents))
        out.append(Case(coq, {"spec": spec, "array": key},
                        "AN/%s/%s/n%s" % (key, spec["ijkind"], "even" if spec["n_freqs"] % 2 == 0 else "odd")))
    return out


# ------------------------------------------------------------------ oracle
def A_ref(a, w):
    n = len(w)
    A = np.zeros((n, 2, 2), dtype=complex)
    A[:] = np.eye(2)
    for k in range(len(a)):
        A += a[k][None, :, :] * np.exp(-1j * w * (k + 1))[:, None, None]
    return A


def oracle_gc(spec, o):
    from nitime.algorithms import autoregressive as ar
    key = "C12/%s" % spec["coupling"]
    if "err" in o:
        return Fail("C12/granger_causality_xy/raises", "raised %s: %s" % (o["err"], o["msg"]), o["err"], "a result")
    a, cov = arr_of(spec)
    w = o["w"]
    n = len(w)
    if o["Hw"].shape != (2, 2, n) or o["Sw"].shape != (2, 2, n) or len(o["fx2y"]) != n or len(o["w2"]) != n:
        return Fail("C12/granger_causality_xy/shape", "inconsistent shapes of the returned arrays", str(o["Hw"].shape), "(2, 2, %d)" % n)
    A = A_ref(a, w)
    H = np.transpose(o["Hw"], (2, 0, 1))
    I = np.eye(2)[None]
    sc = 1 + np.max(np.abs(H)) * np.max(np.abs(A))
    e1 = float(np.max(np.abs(H @ A - I)))
    e2 = float(np.max(np.abs(A @ H - I)))
    if not max(e1, e2) < 1e-9 * sc:
        return Fail("C12/transfer_function_xy/inverse", "H(w) A(w) differs from the identity by %.3g" % max(e1, e2), max(e1, e2), 0)
    Sref = H @ cov[None] @ np.conj(np.transpose(H, (0, 2, 1)))
    ssc = float(np.max(np.abs(Sref)))
    for name, S in (("spectral_matrix_xy", o["Sw2"]), ("granger_causality_xy", o["Sw"])):
        S = np.transpose(S, (2, 0, 1))
        if not np.max(np.abs(S - np.conj(np.transpose(S, (0, 2, 1))))) < 1e-9 * ssc:
            return Fail("C12/%s/hermitian" % name, "spectral matrix from %s is not Hermitian" % name, None, "S = S^H")
        ev = np.linalg.eigvalsh((S + np.conj(np.transpose(S, (0, 2, 1)))) / 2)
        if not np.min(ev) > -1e-9 * ssc:
            return Fail("C12/%s/psd" % name, "spectral matrix from %s has eigenvalue %.3g" % (name, float(np.min(ev))), float(np.min(ev)), ">= 0")
        d = float(np.max(np.abs(S - Sref)))
        if not d < 1e-8 * ssc:
            return Fail("C12/%s/is-HSH" % name, "spectral matrix from %s differs from H Sigma H^H by %.3g (scale %.3g)" % (name, d, ssc), d, 0)
    if not float(np.max(np.abs(o["Sw"] - o["Sw2"]))) < 1e-8 * ssc:
        return Fail("C12/spectral-matrix/routines-agree", "the two routines report different spectral matrices", None, "equal")
    for nm in ("fx2y", "fy2x"):
        if not np.all(np.isfinite(o[nm])) or float(np.min(o[nm])) < -1e-10:
            return Fail("C12/granger_causality_xy/nonneg/" + nm, "directional causality %s has minimum %.3g" % (nm, float(np.min(o[nm]))),
                        float(np.min(o[nm])), ">= 0")
    Sm = np.transpose(Sref, (1, 2, 0))
    coh = (np.abs(Sm[0, 1]) ** 2 / (Sm[0, 0].real * Sm[1, 1].real))
    tot = -np.log(1 - coh)
    amp = 1.0 / np.min(1 - coh)
    dd = float(np.max(np.abs(o["fx2y"] + o["fy2x"] + o["fxy"] - tot)))
    if not dd < 1e-9 * amp + 1e-9:
        return Fail("C12/granger_causality_xy/decomposition",
                    "f_x2y + f_y2x + f_xy differs from -log(1 - coherence) by %.3g" % dd, dd, 0)
    di = float(np.max(np.abs(o["inter"] - tot)))
    if not di < 1e-9 * amp + 1e-9:
        return Fail("C12/interdependence_xy", "interdependence_xy differs from -log(1 - coherence) by %.3g" % di, di, 0)
    # relabelling
    a2 = a[:, ::-1, ::-1].copy()
    c2 = cov[::-1, ::-1].copy()
    try:
        w_, gx2y, gy2x, gxy, S_ = ar.granger_causality_xy(a2, c2, n_freqs=spec["n_freqs"])
    except Exception as e:  # noqa
        return Fail("C12/granger_causality_xy/relabel", "relabelled call raised %s" % type(e).__name__, None, "a result")
    er = max(float(np.max(np.abs(gx2y - o["fy2x"]))), float(np.max(np.abs(gy2x - o["fx2y"]))), float(np.max(np.abs(gxy - o["fxy"]))))
    if not er < 1e-9 * amp + 1e-9:
        return Fail("C12/granger_causality_xy/relabel", "relabelling the channels does not swap the directions (max diff %.3g)" % er, er, 0)
    if not float(np.max(np.abs(np.asarray(S_)[::-1, ::-1] - o["Sw"]))) < 1e-8 * ssc:
        return Fail("C12/granger_causality_xy/relabel-S", "relabelling does not permute the spectral matrix", None, "P S P")
    if np.all(a[:, 0, 1] == 0) and not float(np.max(np.abs(o["fy2x"]))) < 1e-11:
        return Fail("C12/granger_causality_xy/zero-coupling/y2x", "no y->x coupling but f_y_on_x up to %.3g" % float(np.max(np.abs(o["fy2x"]))),
                    float(np.max(np.abs(o["fy2x"]))), 0)
    if np.all(a[:, 1, 0] == 0) and not float(np.max(np.abs(o["fx2y"]))) < 1e-11:
        return Fail("C12/granger_causality_xy/zero-coupling/x2y", "no x->y coupling but f_x_on_y up to %.3g" % float(np.max(np.abs(o["fx2y"]))),
                    float(np.max(np.abs(o["fx2y"]))), 0)
    return None


def oracle_an(spec, o):
    if "err" in o:
        return Fail("C12/GrangerAnalyzer/raises", "raised %s: %s" % (o["err"], o["msg"]), o["err"], "a result")
    n = spec["nch"]
    req = set(o["ij"])
    if spec["ij"] is not None and req != set(tuple(p) for p in spec["ij"]):
        return Fail("C12/GrangerAnalyzer/ij", "analyzer does not use the requested ij list", sorted(req), spec["ij"])
    for key in ("xy", "yx", "sim"):
        arr = o[key]
        if arr.shape[:2] != (n, n):
            return Fail("C12/GrangerAnalyzer/shape", "array of shape %s" % (arr.shape,), str(arr.shape), "(%d, %d, nf)" % (n, n))
        for i in range(n):
            for j in range(n):
                row = arr[i, j]
                if (i, j) in req:
                    want = o["res"][(i, j)][key]
                    if row.shape != want.shape or not np.allclose(row, want, rtol=1e-9, atol=1e-12, equal_nan=False):
                        return Fail("C12/GrangerAnalyzer/dict2arr/%s" % key,
                                    "analyzer %s[%d,%d] is not the pairwise function result" % (key, i, j), [hx(v) for v in row[:3]],
                                    [hx(v) for v in want[:3]])
                elif not np.all(np.isnan(row)):
                    return Fail("C12/GrangerAnalyzer/dict2arr/%s" % key, "entry [%d,%d] was not requested but is filled" % (i, j),
                                [hx(v) for v in row[:3]], "NaN")
    return None


# ------------------------------------------------------------------ generators
def short(x, bits):
    if x == 0:
        return 0.0
    m, e = np.frexp(x)
    return float(np.ldexp(np.round(m * 2 ** bits) / 2 ** bits, e))


def stable_var(rng, P, coupling):
    nprng = np.random.RandomState(rng.randint(0, 2 ** 31 - 1))
    a = nprng.uniform(-1, 1, size=(P, 2, 2)) * rng.choice([0.3, 0.6, 1.0])
    if coupling in ("no-y2x", "none"):
        a[:, 0, 1] = 0
    if coupling in ("no-x2y", "none"):
        a[:, 1, 0] = 0
    for _ in range(60):
        # companion matrix of X[t] = -sum a[k] X[t-k] + e
        C = np.zeros((2 * P, 2 * P))
        for k in range(P):
            C[:2, 2 * k:2 * k + 2] = -a[k]
        C[2:, :-2] = np.eye(2 * (P - 1))
        if np.max(np.abs(np.linalg.eigvals(C))) < 0.93:
            break
        a *= 0.8
    return np.vectorize(lambda v: short(v, 30))(a)


def gen_gc_specs(ctx):
    rng = ctx.rng
    out = []
    for i in range(ctx.scale(60, 300)):
        P = rng.randint(1, 6)
        coupling = rng.choice(["both", "both", "both", "no-y2x", "no-x2y", "none"])
        a = stable_var(rng, P, coupling)
        ck = rng.choice(["diagonal", "correlated", "correlated", "strongly-correlated"])
        s, g = rng.randint(8, 200) / 64.0, rng.randint(8, 200) / 64.0
        if ck == "diagonal":
            u = 0.0
        elif ck == "correlated":
            u = rng.choice([-1, 1]) * int(rng.uniform(0.05, 0.7) * np.sqrt(s * g) * 64) / 64.0
        else:
            u = rng.choice([-1, 1]) * int(0.93 * np.sqrt(s * g) * 64) / 64.0
        csc = 2.0 ** rng.choice([0, 0, 0, -60, -17, 9, 40])      # magnitude range of the innovations (exact scaling)
        cov = [[s * csc, u * csc], [u * csc, g * csc]]
        nf = rng.choice([2, 3, 4, 5, 6, 7, 8, 9] + ([] if ctx.quick else [10, 11, 16, 17]))
        out.append({"kind": "gc", "a": [[[hx(v) for v in row] for row in m] for m in a], "cov": [[hx(v) for v in row] for row in cov],
                    "n_freqs": nf, "coupling": coupling, "covkind": ck,
                    "variant": rng.choice(["plain", "plain", "fortran", "strided", "kw", "intcov"])})
    # the documented default n_freqs = 1024 and large grids of both parities: oracle only
    for nf in [511, 1024, 1025, 2049, 4096] + [rng.randint(12, 3000) for _ in range(ctx.scale(3, 12))]:
        P = rng.randint(1, 6)
        coupling = rng.choice(["both", "no-y2x", "no-x2y"])
        a = stable_var(rng, P, coupling)
        csc = 2.0 ** rng.choice([0, -60, 40])
        out.append({"kind": "gc", "a": [[[hx(v) for v in row] for row in m] for m in a],
                    "cov": [[hx(1.5 * csc), hx(0.5 * csc)], [hx(0.5 * csc), hx(0.75 * csc)]],
                    "n_freqs": nf, "coupling": coupling, "covkind": "correlated", "oracle_only": True,
                    "variant": rng.choice(["plain", "fortran", "kw"])})
    return out


def gen_an_specs(ctx):
    rng = ctx.rng
    out = []
    for i in range(ctx.scale(14, 40)):
        nch = rng.choice([2, 3, 3, 4])
        pairs = [(i_, j_) for i_ in range(nch) for j_ in range(nch) if i_ != j_]
        kind = rng.choice(["default", "subset", "reversed", "repeated", "all-ordered"])
        if kind == "default":
            ij = None
        elif kind == "subset":
            ij = rng.sample(pairs, rng.randint(1, max(1, len(pairs) // 2)))
        elif kind == "reversed":
            p = rng.choice(pairs)
            ij = [p, (p[1], p[0])]
        elif kind == "repeated":
            p = rng.sample(pairs, min(2, len(pairs)))
            ij = p + [p[0]]
        else:
            ij = list(pairs)
            rng.shuffle(ij)
        mix0 = np.eye(nch) * 0.4
        mix1 = np.eye(nch) * -0.2
        for _ in range(nch):
            i_, j_ = rng.randrange(nch), rng.randrange(nch)
            if i_ != j_:
                mix0[i_, j_] = rng.choice([0.3, -0.25, 0.2])
        out.append({"kind": "an", "nch": nch, "N": rng.choice([200, 301]), "seed": rng.randint(0, 2 ** 31 - 1), "Fs": rng.choice([1.0, 10.0, 250.0]),
                    "order": rng.choice([1, 2, 3]), "n_freqs": rng.choice([4, 5, 8, 9, 16] + ([1024, 33] if i < 2 else [])), "ij": [list(p) for p in ij] if ij is not None else None,
                    "ijkind": kind, "mix": [mix0.tolist(), mix1.tolist()]})
    return out



# ------------------------------------------------------------------ several live analyzers / call histories
ATTRS = ["causality_xy", "causality_yx", "simultaneous_causality", "spectral_matrix"]
AKEY = {"causality_xy": "xy", "causality_yx": "yx", "simultaneous_causality": "sim"}


def pair_refs(T, ij, order, nf):
    """pairwise function results on the analyzer's own data (computed before any analyzer exists)"""
    from nitime.analysis.granger import fit_model
    from nitime.algorithms import autoregressive as ar
    res = {}
    for (i, j) in ij:
        o_, R_, coef, ecov = fit_model(T.data[i], T.data[j], order=order)
        w, fx2y, fy2x, fxy, Sw = ar.granger_causality_xy(coef, ecov, n_freqs=nf)
        res[(i, j)] = {"xy": np.array(fx2y), "yx": np.array(fy2x), "sim": np.array(fxy), "Sw": np.array(Sw)}
    return res


def run_multi(spec):
    """two or three analyzers alive at once (or strictly one after the other), read in the order spec['reads']"""
    import nitime.analysis as nta
    try:
        series = [mk_series(a) for a in spec["analyzers"]]
        per = []
        for a, T in zip(spec["analyzers"], series):
            n = a["nch"]
            ij = [tuple(p) for p in a["ij"]] if a["ij"] is not None else [(i_, j_) for i_ in range(n) for j_ in range(i_)]
            per.append({"ij_req": None if a["ij"] is None else [tuple(p) for p in a["ij"]]})
        live = {}
        for k, attr in spec["reads"]:
            a = spec["analyzers"][k]
            if k not in live:
                ij = [tuple(p) for p in a["ij"]] if a["ij"] is not None else None
                live[k] = nta.GrangerAnalyzer(series[k], ij=ij, order=a["order"], n_freqs=a["n_freqs"])
                per[k]["ij"] = [tuple(int(v) for v in p) for p in live[k].ij]
            v = getattr(live[k], attr)
            if attr == "spectral_matrix":
                per[k]["sm"] = {tuple(int(q) for q in key): np.array(val) for key, val in v.items()}
            else:
                per[k][AKEY[attr]] = np.array(v)
        for k, a in enumerate(spec["analyzers"]):
            per[k]["res"] = pair_refs(series[k], per[k]["ij"], a["order"], a["n_freqs"])
            per[k]["nfreq"] = a["n_freqs"] // 2 + 1
        return {"per": per}
    except Exception as e:  # noqa
        return {"err": type(e).__name__, "msg": str(e)[:300]}


def oracle_multi(spec, o):
    if "err" in o:
        return Fail("C12/GrangerAnalyzer/raises", "raised %s: %s" % (o["err"], o["msg"]), o["err"], "a result")
    for k, (a, pk) in enumerate(zip(spec["analyzers"], o["per"])):
        f = oracle_an(a, pk)
        if f is not None:
            f.key = f.key.replace("C12/GrangerAnalyzer/", "C12/GrangerAnalyzer/live-analyzers/")
            f.what = "analyzer %d of %d (%s): %s" % (k, len(spec["analyzers"]), "sequential" if spec.get("sequential") else "interleaved reads", f.what)
            return f
        sm = pk["sm"]
        if set(sm.keys()) != set(pk["ij"]):
            return Fail("C12/GrangerAnalyzer/live-analyzers/spectral_matrix-keys",
                        "analyzer %d: spectral_matrix has keys %s, requested pairs %s" % (k, sorted(sm.keys()), sorted(set(pk["ij"]))),
                        [list(q) for q in sorted(sm.keys())], [list(q) for q in sorted(set(pk["ij"]))])
        for key, S in sm.items():
            want = pk["res"][key]["Sw"]
            if S.shape != want.shape or not np.allclose(S, want, rtol=1e-9, atol=0):
                return Fail("C12/GrangerAnalyzer/live-analyzers/spectral_matrix",
                            "analyzer %d: spectral_matrix[%s] is not the pairwise function result on its own model" % (k, key), None, "equal")
    return None


def multi_cases(spec, o):
    if "err" in o:
        return []
    out = []
    for a, pk in zip(spec["analyzers"], o["per"]):
        for c in an_cases(a, pk):
            c.klass = "LIVE/" + c.klass
            out.append(c)
    return out[:6]


def gen_multi_specs(ctx):
    rng = ctx.rng
    out = []
    base = gen_an_specs(ctx)
    for i in range(ctx.scale(8, 30)):
        nA = rng.choice([2, 2, 3])
        ans = []
        nch = rng.choice([2, 3])
        for k in range(nA):
            a = dict(rng.choice(base))
            a["nch"] = nch
            a["seed"] = rng.randint(0, 2 ** 31 - 1)
            a["n_freqs"] = rng.choice([4, 5, 8])
            pairs = [(i_, j_) for i_ in range(nch) for j_ in range(nch) if i_ != j_]
            a["ij"] = None if rng.random() < 0.3 else [list(q) for q in rng.sample(pairs, rng.randint(1, len(pairs)))]
            a["ijkind"] = "live"
            m0 = np.eye(nch) * 0.4
            m0[0, nch - 1] = 0.3
            a["mix"] = [m0.tolist(), (np.eye(nch) * -0.2).tolist()]
            ans.append(a)
        sequential = rng.random() < 0.3
        reads = [[k, at] for k in range(nA) for at in ATTRS]
        if sequential:
            reads = []
            for k in range(nA):
                r = [[k, at] for at in ATTRS]
                rng.shuffle(r)
                reads += r
        else:
            rng.shuffle(reads)
        out.append({"kind": "multi", "analyzers": ans, "reads": reads, "sequential": sequential})
    return out



# ------------------------------------------------------------------ homogeneity: re-run on rescaled input
def _rel(a, b, tol=1e-10, atol=0.0):
    a, b = np.asarray(a), np.asarray(b)
    if a.shape != b.shape:
        return False
    if not b.size:
        return True
    fin = np.isfinite(b)
    if not np.array_equal(np.isnan(a), np.isnan(b)) or not np.all(np.isfinite(a[fin])):
        return False
    if not np.any(fin):
        return True
    return float(np.max(np.abs(a[fin] - b[fin]))) <= tol * float(np.max(np.abs(b[fin]))) + atol


def oracle_homog(spec, o, e):
    """cov -> 2^(2e) cov: H, coherence and the three causality measures unchanged, spectral matrices scale;
    analyzer: data -> 2^e data leaves every result unchanged.  An absolute threshold in the code fails this."""
    k = spec["kind"]
    if "err" in o:
        return None
    if k == "gc":
        f_ = 4.0 ** e
        sp = dict(spec)
        sp["cov"] = [[hx(uhx(v) * f_) for v in row] for row in spec["cov"]]
        if sp.get("variant") == "intcov":
            sp["variant"] = "plain"
        o2 = run_gc(sp)
        what = None
        if "err" in o2:
            what = "raises on the rescaled covariance: %s" % o2["err"]
        else:
            for nm in ("Hw", "coh", "inter", "fx2y", "fy2x", "fxy"):
                if not _rel(o2[nm], o[nm], atol=1e-12):
                    what = "%s changes when the covariance is multiplied by 4^%d" % (nm, e)
                    break
            else:
                for nm in ("Sw", "Sw2"):
                    if not _rel(o2[nm], o[nm] * f_):
                        what = "%s does not scale with the covariance (x 4^%d)" % (nm, e)
                        break
        key = "C12/homogeneity/granger_causality_xy"
    elif k == "an":
        sp = dict(spec, data_scale_exp=spec.get("data_scale_exp", 0) + e)
        o2 = run_an(sp)
        what = None
        if "err" in o2:
            what = "raises on the rescaled data: %s" % o2["err"]
        else:
            for nm in ("xy", "yx", "sim"):
                if not _rel(o2[nm], o[nm], tol=1e-8, atol=1e-11):
                    what = "analyzer %s changes when the data are multiplied by 2^%d" % (nm, e)
                    break
        key = "C12/homogeneity/GrangerAnalyzer"
    else:
        return None
    if what:
        f = Fail(key, what, None, "scale-invariant result")
        f.replay = {"entry_point": key, "scale_exponent": e}
        return f
    return None


RUN = {"gc": run_gc, "an": run_an, "multi": run_multi}
ORACLE = {"gc": oracle_gc, "an": oracle_an, "multi": oracle_multi}
CASES = {"gc": gc_cases, "an": an_cases, "multi": multi_cases}

HEADER = ("From Coq Require Import QArith List Bool Arith PrimFloat.\n"
          "From NT Require Import F2Z Lists Close QC Granger C12K.\nImport ListNotations.\n")


def corpus_specs():
    out = []
    if CORPUS.exists():
        for f in sorted(CORPUS.glob("*.json")):
            d = json.loads(f.read_text())
            out.append(d.get("spec") or d["case"]["spec"])
    return out


def run(ctx):
    core.import_nitime()
    ctx.check_props()
    specs = corpus_specs() + gen_gc_specs(ctx) + gen_an_specs(ctx) + gen_multi_specs(ctx)
    cases, owners, results = [], [], []
    for si, spec in enumerate(specs):
        o = RUN[spec["kind"]](spec)
        results.append((spec, o))
        for c in CASES[spec["kind"]](spec, o):
            cases.append(c)
            owners.append(si)
    bad = ctx.check_cases("K", HEADER, cases, "check", shard=ctx.scale(14, 40), case_type="case", timeout=1500)
    bad_specs = {owners[i] for i in bad}
    order = sorted(range(len(results)), key=lambda i: (i not in bad_specs, i))
    for i in order:
        spec, o = results[i]
        f = ORACLE[spec["kind"]](spec, o)
        if f is not None:
            f.replay = {"entry_point": "nitime.algorithms.granger_causality_xy" if spec["kind"] == "gc" else "nitime.analysis.GrangerAnalyzer"
                        + (" (several analyzers, reads in the order spec.reads)" if spec["kind"] == "multi" else ""),
                        "model_disagrees": i in bad_specs}
            ctx.report_fail(f, Case("", {"spec": spec}))
    # homogeneity: every call re-run with the covariance multiplied by 4^-45 / 4^+35, analyzers with the data by 2^-45 / 2^+35
    nh = 0
    for i, (spec, o) in enumerate(results):
        if spec["kind"] == "gc":
            cmax = max(abs(uhx(v)) for row in spec["cov"] for v in row)
            es = [e for e in (-45, 35) if 2.0 ** -200 < cmax * 4.0 ** e < 2.0 ** 200]
        elif spec["kind"] == "an":
            es = [(-45, 35)[i % 2]]
        else:
            continue
        for e in es:
            nh += 1
            f = oracle_homog(spec, o, e)
            if f is not None:
                ctx.report_fail(f, Case("", {"spec": spec, "scale_exponent": e}))
    ctx.extra["homogeneity_reruns"] = nh
    # purity: function-level calls repeated after all the other calls must be bit-identical
    gidx = [i for i, (sp, _) in enumerate(results) if sp["kind"] == "gc"]
    nrep = 0
    for i in ctx.rng.sample(gidx, min(len(gidx), ctx.scale(40, 120))):
        spec, o = results[i]
        again = run_gc(spec)
        nrep += 1
        same = set(again) == set(o) and all(
            (np.array_equal(again[k], o[k], equal_nan=True) if isinstance(o[k], np.ndarray) else again[k] == o[k]) for k in o)
        if not same:
            f = Fail("C12/purity/granger_causality_xy", "the same function-level call repeated later in the process returned a "
                     "different result (the result depends on the call history)", None, "bit-identical results")
            f.replay = {"entry_point": "nitime.algorithms.granger_causality_xy"}
            ctx.report_fail(f, Case("", {"spec": spec}))
    ctx.extra["purity_reruns"] = nrep
    ctx.extra["model_impl_disagreements"] = len(bad)
    ctx.extra["oracle_checked_inputs"] = len(results)
    ctx.extra["oracle_only_inputs"] = sum(1 for sp, _ in results if sp.get("oracle_only"))
    ctx.extra["rule"] = ("homogeneity: every function-level call re-run with the covariance multiplied by 4^-45 and 4^+35 (H, coherence and the "
                         "causalities unchanged, spectral matrices scale), every analyzer with the data multiplied by 2^-45 or 2^+35; histories: two or three GrangerAnalyzer objects on different data / ij lists / n_freqs alive at once with interleaved "
                         "shuffled reads, or strictly sequential, each result judged against the pairwise function on its own model, "
                         "spectral_matrix key set = requested pairs; function-level calls repeated at the end must be bit-identical; "
                         "seeded generator: stable bivariate AR coefficient sets of order 1..6 (random, three scales, couplings both / "
                         "no y->x / no x->y / none), innovation covariances diagonal / correlated / strongly correlated (short dyadics), "
                         "n_freqs 2..9 of both parities (..17 thorough) in Coq and up to 4096 incl. the default 1024 in the oracle; covariances scaled by "
                         "2^-60..2^40; fortran-ordered / strided / integer-covariance / keyword-call variants; analyzer runs on simulated 2-4 channel series with default, "
                         "subset, reversed, repeated and shuffled ij lists. One case = one stage of one call compared inside Coq.")
    return ctx.finish(
        trusted=["scipy.signal.freqz (through freq_response): A(w) = sum_k c_k e^{-jwk}; validated per case against the model's "
                 "polynomial evaluation at z = e^{-jw} (z supplied by the harness as exp(-1j*w))",
                 "np.log / np.exp: the model returns the log arguments, the harness applies exp to the implementation's values",
                 "Coq.Reals (ln) for the two theorems stated with logarithms: ClassicalDedekindReals.sig_forall_dec, sig_not_dec, "
                 "FunctionalExtensionality.functional_extensionality_dep, Classical_Prop.classic",
                 "fit_model / lwr_recursion (property C11) are called as they are to obtain the pairwise results the analyzer must contain"],
        assumptions=["guards stated in the theorems: det A(w) != 0, Sigma symmetric positive definite, and the auto components "
                     "sigma|Hxx + (ups/sigma)Hxy|^2, gamma|Hyy + (ups/gamma)Hyx|^2 non-zero (the code divides by them)",
                     "the analyzer's frequency axis values (freqz grid vs get_freqs) belong to property C05; only its length is used here"],
        explanation="Every identity of the statement is a theorem over Q[i] about the model of the code as written (field identities, "
                    "sum-of-squares positivity, ln monotone/additive over Coq's reals); the stage-wise kernel-evaluated cases tie each "
                    "routine to its model on the implementation's own intermediate values.")


def replay(ctx, path):
    core.import_nitime()
    d = json.loads(open(path).read())
    spec = d.get("spec") or (d.get("case") or {}).get("spec")
    if spec is None:
        print("replay file has no input (broken-lemma report): %s" % json.dumps(d)[:600])
        return 1
    o = RUN[spec["kind"]](spec)
    f = ORACLE[spec["kind"]](spec, o)
    print(json.dumps({"spec": spec, "fails": None if f is None else {"key": f.key, "what": f.what}}, indent=1)[:3000])
    return 1 if f else 0
