"""C11 — the multichannel Levinson-Wiggins-Robinson recursion solves the block Yule-Walker system.

P: coq/Props/C11.v (theorems over Model/LWR.v: abstract non-commutative ring with transposition,
   n x n matrices over Q as a proved instance; all orders, all channel counts)
K: seeded calls of lwr_recursion / AR_est_LD / crosscov_vector / autocov_vector / MAR_est_LWR /
   fit_model / generate_mar / the information criteria; the Coq kernel evaluates the model in exact
   rational arithmetic (Gauss-Jordan inverse) on the same inputs and compares with the
   implementation's floats (tolerance)
oracle (search): exact Fraction evaluation of the block Yule-Walker residuals, the sigma identity,
   symmetry (+ numerical positive-definiteness), the lagged-mean definition, order semantics of
   fit_model / MAR_est_LWR, the generate_mar recursion, permutation equivariance and the
   one-channel reduction, all on the implementation's outputs.
"""
import json
from fractions import Fraction

import numpy as np

from vt import core
from vt.core import Case, Fail, flit, llit, nlit, zlit, blit

TOL = 1e-8
EXACT_BUDGET = 30000
GRID = 12


# ------------------------------------------------------------------ literals
def fvec(v):
    return llit([flit(x) for x in v])


def fmat(m):
    return llit([fvec(r) for r in m])


def fmats(l):
    return llit([fmat(m) for m in l])


def f3(a):
    return llit([llit([fvec(v) for v in m]) for m in a])


def hexl(a):
    a = np.asarray(a, dtype=float)
    if a.ndim == 0:
        return float(a).hex()
    return [hexl(x) for x in a]


def unhex(l):
    if isinstance(l, str):
        return float.fromhex(l)
    return [unhex(x) for x in l]


def arr(l):
    return np.array(unhex(l), dtype=float)


def grid(a, bits):
    return np.round(np.asarray(a, dtype=float) * 2.0 ** bits) / 2.0 ** bits


def F(x):
    return Fraction(float(x))


def fr_mat(m):
    return [[F(x) for x in r] for r in m]


def m_mul(A, B):
    n = len(A)
    return [[sum(A[i][k] * B[k][j] for k in range(n)) for j in range(n)] for i in range(n)]


def m_add(A, B):
    return [[a + b for a, b in zip(ra, rb)] for ra, rb in zip(A, B)]


def m_T(A):
    return [list(r) for r in zip(*A)]


def m_eye(n):
    return [[Fraction(int(i == j)) for j in range(n)] for i in range(n)]


def m_max(A):
    return max((abs(x) for r in A for x in r), default=Fraction(0))


# ------------------------------------------------------------------ running the implementation
def all_finite(*arrays):
    return all(np.all(np.isfinite(np.asarray(a, dtype=float))) for a in arrays)


def run_case(d):
    """run the described call on the current tree; returns the observation (JSON-able)"""
    import nitime.algorithms as alg
    import nitime.utils as ut
    import nitime.analysis.granger as gr
    k = d["kind"]
    try:
        if k == "lwr":
            r = arr(d["r"])
            if d.get("layout") == "view":       # what every caller passes: a transposed (non-contiguous) view
                r = np.ascontiguousarray(r.transpose(1, 2, 0)).transpose(2, 0, 1)
            elif d.get("layout") == "fortran":
                r = np.asfortranarray(r)
            r0 = r.copy()
            a, s = alg.lwr_recursion(r)
            return {"a": hexl(a), "sigma": hexl(s), "shape": list(np.shape(a)), "mutated": bool(not np.array_equal(r, r0))}
        if k == "ld":
            r = arr(d["r"])
            w, b = alg.AR_est_LD(None, d["order"], rxx=r)
            return {"w": hexl(w), "b": hexl(b)}
        if k == "cov":
            x = arr(d["x"])
            x0 = x.copy()
            kw = {}
            if d["nlags"] is not None or d.get("explicit_none"):
                kw["nlags"] = d["nlags"]          # otherwise the keyword is omitted (default None = all N lags)
            if d.get("auto"):
                rxy = ut.autocov_vector(x, **kw)
            elif d.get("alias"):
                rxy = ut.crosscov_vector(x, x, **kw)      # the same array object twice
            else:
                rxy = ut.crosscov_vector(x, arr(d["y"]), **kw)
            rxy = np.asarray(rxy)
            return {"rxy": hexl(rxy), "shape": list(rxy.shape), "mutated": bool(not np.array_equal(x, x0))}
        if k == "mar":
            x = arr(d["x"])
            if d.get("rxx"):      # the optional precomputed autocovariance (layout of autocov_vector)
                pre = np.array([[[float(v) for v in row] for row in m] for m in lagged_mean(x, x, d["order"] + 1)])
                a, e = alg.MAR_est_LWR(x, d["order"], rxx=pre.transpose(1, 2, 0))
            else:
                a, e = alg.MAR_est_LWR(x, d["order"])
            return {"a": hexl(a), "ecov": hexl(e), "shape": list(np.shape(a))}
        if k == "fit":
            x1, x2 = arr(d["x1"]), arr(d["x2"])
            crit, table = make_criterion(d, ut, alg, x1, x2)
            kw = {}
            if d["order"] is not None:
                kw["order"] = d["order"]
            if d["criterion"] != "default":
                kw["criterion"] = crit
            try:
                if not d.get("default_max_order"):
                    kw["max_order"] = d["max_order"]        # else omitted: the default (10)
                o, Rxx, coef, ecov = gr.fit_model(x1, x2, **kw)
            except ValueError as e:
                if d["order"] is None and "did not converge" in str(e):
                    return {"err": "ValueError", "noconv": True, "crit": hexl(table)}
                raise
            return {"order": int(o), "Rxx": hexl(Rxx), "Rxx_shape": list(np.shape(Rxx)), "coef": hexl(coef),
                    "coef_shape": list(np.shape(coef)), "ecov": hexl(ecov), "crit": hexl(table)}
        if k == "ga":
            import nitime.timeseries as ts
            x = arr(d["x"])
            kw = {}
            if d["ij"] is not None:
                kw["ij"] = [tuple(p) for p in d["ij"]]
            if d["order"] is not None:
                kw["order"] = d["order"]
            if not d.get("default_max_order"):
                kw["max_order"] = d["max_order"]
            G = gr.GrangerAnalyzer(ts.TimeSeries(x, sampling_rate=1.0), **kw)
            got = {}
            try:
                for name in d["read"]:                      # the attributes, in the seeded order
                    got[name] = getattr(G, name)
            except ValueError as e:
                if d["order"] is None and "did not converge" in str(e):
                    return {"err": "ValueError", "noconv": True}     # no model is reported, nothing is claimed
                raise
            pairs = {}
            for (i, j) in list(got["model_coef"].keys()):
                Rxx = np.asarray(got["autocov"][i, j])
                coef = np.asarray(got["model_coef"][i, j])
                pairs["%d,%d" % (i, j)] = {"order": int(got["order"][i, j]), "Rxx": hexl(Rxx), "Rxx_shape": list(Rxx.shape),
                                           "coef": hexl(coef), "coef_shape": list(coef.shape),
                                           "ecov": hexl(got["error_cov"][i, j])}
            o = {"pairs": pairs, "ij": [[int(i), int(j)] for i, j in G.ij]}
            # criterion table of the pair that also goes through K
            i, j = d["kpair"]
            _, table = make_criterion({"criterion": "default", "max_order": d["max_order"], "order": d["order"]},
                                      ut, alg, x[i], x[j])
            o["crit"] = hexl(table)
            return o
        if k == "gen":
            a, cov = arr(d["a"]).reshape(d["a_shape"]), arr(d["cov"])
            np.random.seed(d["np_seed"])
            mar, nz = ut.generate_mar(a, cov, d["N"])
            return {"mar": hexl(mar), "nz": hexl(nz), "mar_shape": list(mar.shape), "nz_shape": list(nz.shape)}
        if k == "crit":
            ecov = arr(d["ecov"])
            from nitime.utils import linalg
            L = float(np.log(linalg.det(ecov)))
            lN = float(np.log(d["Ntotal"]))
            if d["bic"]:
                v = ut.bayesian_information_criterion(ecov, d["p"], d["m"], d["Ntotal"])
            else:
                if d["corrected"] or d.get("explicit_corrected"):
                    v = ut.akaike_information_criterion(ecov, d["p"], d["m"], d["Ntotal"], corrected=d["corrected"])
                else:
                    v = ut.akaike_information_criterion(ecov, d["p"], d["m"], d["Ntotal"])
            return {"L": L.hex(), "lN": lN.hex(), "value": float(v).hex()}
    except Exception as e:  # noqa
        return {"err": type(e).__name__, "msg": str(e)[:200]}
    raise KeyError(k)


def make_criterion(d, ut, alg, x1, x2):
    """the criterion callable handed to fit_model and the table of its values by order
       (index m = order of the fit with m + 1 lags), computed by separate calls"""
    name = d["criterion"]
    Ntotal = 2 * x1.shape[-1]
    if name in ("default", "bic"):
        f = ut.bayesian_information_criterion
    elif name == "aic":
        f = ut.akaike_information_criterion
    elif name == "table":
        tab = [float.fromhex(h) for h in d["table"]]
        f = lambda ecov, p, m, N: tab[m]  # noqa
    else:
        raise KeyError(name)
    table = []
    x = np.vstack([x1, x2])
    for lag in range(1, max(d["max_order"], (d["order"] or 0) + 2)):
        R = ut.autocov_vector(x, nlags=lag).transpose(2, 0, 1)
        try:
            c, e = alg.lwr_recursion(np.array(R))
            v = float(f(e, 2, c.shape[0], Ntotal))
        except Exception:  # noqa
            v = float("nan")
        table.append(v)
    return f, table


# ------------------------------------------------------------------ Coq terms
def case_coq(d, o):
    """Coq term of the case, or None when the outcome is not expressible (exception, nan)"""
    k = d["kind"]
    if "err" in o and not (k == "fit" and o.get("noconv")):
        return None
    if k == "ga" and o.get("noconv"):
        return None
    if d.get("nok"):
        return None      # long record, oracle only (keeps the kernel evaluation affordable)
    if k == "lwr":
        r, a, s = arr(d["r"]), arr(o["a"]).reshape(o["shape"]), arr(o["sigma"])
        if not all_finite(a, s):
            return None
        P, nc = r.shape[0] - 1, r.shape[1]
        exact = (P ** 4) * (nc ** 5) <= EXACT_BUDGET       # cost of exact Q evaluation ~ P^4 nc^5
        return "(KLwr %s %s %s %s %s)" % (blit(exact), nlit(nc), fmats(r), fmats(a), fmat(s))
    if k == "ld":
        w, b = arr(o["w"]), arr(o["b"])
        if not all_finite(w, b):
            return None
        return "(KLd %s %s %s %s)" % (fvec(arr(d["r"])), nlit(d["order"]), fvec(w), flit(float(b)))
    if k == "cov":
        x = arr(d["x"])
        rxy = arr(o["rxy"]).reshape(o["shape"])
        if not all_finite(rxy):
            return None
        y = x if (d.get("auto") or d.get("alias")) else arr(d["y"])
        if rxy.ndim != 3:
            return None
        nl = "None" if d["nlags"] is None else "(Some %s)" % nlit(d["nlags"])
        return "(KCov %s %s %s %s)" % (fmat(x), fmat(y), nl, f3(rxy))
    if k == "mar":
        a, e = arr(o["a"]).reshape(o["shape"]), arr(o["ecov"])
        if not all_finite(a, e):
            return None
        x = arr(d["x"])
        exact = (d["order"] ** 4) * (x.shape[0] ** 5) * 6 <= EXACT_BUDGET
        return "(KMar %s %s %s %s %s)" % (blit(exact), fmat(x), nlit(d["order"]), fmats(a), fmat(e))
    if k == "fit":
        tab = arr(o["crit"])
        if not all_finite(tab):
            return None
        order = "None" if d["order"] is None else "(Some %s)" % nlit(d["order"])
        if "err" in o:
            out = "FitValueError"
        else:
            Rxx = arr(o["Rxx"]).reshape(o["Rxx_shape"])
            coef = arr(o["coef"]).reshape(o["coef_shape"])
            out = "(FitOk %s %s %s %s %s)" % (nlit(o["order"]), nlit(Rxx.shape[2]), f3(Rxx), fmats(coef),
                                             fmat(arr(o["ecov"])))
        top = d["order"] if d["order"] is not None else max(0, d["max_order"] - 2)
        exact = top <= 3
        return "(KFit %s %s %s %s %s %s %s)" % (blit(exact), fvec(arr(d["x1"])), fvec(arr(d["x2"])), order,
                                               nlit(d["max_order"]), fvec(tab), out)
    if k == "ga":
        # the analyzer's entry for the pair (i, j) must be the model's fit_model on (x_i, x_j)
        i, j = d["kpair"]
        e = o["pairs"].get("%d,%d" % (i, j))
        tab = arr(o["crit"])
        if e is None or not all_finite(tab):
            return None
        x = arr(d["x"])
        Rxx = arr(e["Rxx"]).reshape(e["Rxx_shape"])
        coef = arr(e["coef"]).reshape(e["coef_shape"])
        if Rxx.ndim != 3 or coef.ndim != 3 or not all_finite(Rxx, coef, arr(e["ecov"])):
            return None
        order = "None" if d["order"] is None else "(Some %s)" % nlit(d["order"])
        out = "(FitOk %s %s %s %s %s)" % (nlit(e["order"]), nlit(Rxx.shape[2]), f3(Rxx), fmats(coef), fmat(arr(e["ecov"])))
        top = d["order"] if d["order"] is not None else max(0, d["max_order"] - 2)
        return "(KFit %s %s %s %s %s %s %s)" % (blit(top <= 3), fvec(x[i]), fvec(x[j]), order, nlit(d["max_order"]),
                                               fvec(tab), out)
    if k == "gen":
        a = arr(d["a"]).reshape(d["a_shape"])
        mar, nz = arr(o["mar"]).reshape(o["mar_shape"]), arr(o["nz"]).reshape(o["nz_shape"])
        if list(mar.shape) != [a.shape[1], d["N"]] or list(nz.shape) != [a.shape[1], d["N"]]:
            return None
        return "(KGen %s %s %s %s %s)" % (nlit(a.shape[1]), nlit(d["N"]), fmats(a), fmat(nz), fmat(mar))
    if k == "crit":
        vals = [float.fromhex(o[x]) for x in ("L", "lN", "value")]
        if not all_finite(vals):
            return None
        return "(KCrit %s %s %s %s %s %s %s %s)" % (blit(d["bic"]), blit(d.get("corrected", False)), flit(vals[0]),
                                                   flit(vals[1]), zlit(d["p"]), zlit(d["m"]), zlit(d["Ntotal"]),
                                                   flit(vals[2]))
    raise KeyError(k)


# ------------------------------------------------------------------ exact oracle
def yw_check(key, r, a, sigma, what=""):
    """block Yule-Walker residuals, sigma identity and symmetry in exact arithmetic.
       r: (P+1, nc, nc) floats, a: (P, nc, nc) floats, sigma (nc, nc) floats"""
    P, nc = len(a), len(r[0])
    if len(r) != P + 1:
        return Fail(key + "/order", "%s%d coefficient matrices for %d lags (order %d required)" % (what, P, len(r), len(r) - 1),
                    P, len(r) - 1)
    R = [fr_mat(m) for m in r]
    A = [m_eye(nc)] + [fr_mat(m) for m in a]
    S = fr_mat(sigma)

    def lag(m):
        return R[m] if m >= 0 else m_T(R[-m])

    scale = max(m_max(x) for x in R) * sum(max(Fraction(1), m_max(x)) for x in A) * nc     # relative to ||R||
    tol = Fraction(TOL) * scale
    for k in range(1, P + 1):
        acc = [[Fraction(0)] * nc for _ in range(nc)]
        for i in range(P + 1):
            acc = m_add(acc, m_mul(A[i], lag(k - i)))
        if m_max(acc) > tol:
            return Fail(key + "/yule-walker", "%sblock Yule-Walker equation k=%d has residual %.3e" % (what, k, float(m_max(acc))),
                        float(m_max(acc)), "0 (tolerance %.1e)" % float(tol))
    acc = [[Fraction(0)] * nc for _ in range(nc)]
    for i in range(P + 1):
        acc = m_add(acc, m_mul(A[i], lag(-i)))
    dev = m_max(m_add(acc, [[-x for x in row] for row in S]))
    if dev > tol:
        return Fail(key + "/sigma-identity", "%sinnovation covariance differs from sum_i A(i) R(-i) by %.3e" % (what, float(dev)),
                    float(dev), "0 (tolerance %.1e)" % float(tol))
    asym = m_max(m_add(S, [[-x for x in row] for row in m_T(S)]))
    if asym > tol:
        return Fail(key + "/sigma-symmetric", "%sinnovation covariance is not symmetric (%.3e)" % (what, float(asym)),
                    float(asym), 0)
    return None


def lagged_mean(x, y, nl):
    """the defining lagged average R(k)[i, j] = mean_t x_i(t + k) y_j(t), k < nl, computed here
       (not by the implementation); integer-valued data give exact integer sums. Layout [k][i][j]"""
    N = x.shape[1]
    if np.all(x == np.round(x)) and np.all(y == np.round(y)) and max(np.abs(x).max(), np.abs(y).max()) < 2 ** 20:
        xi, yi = x.astype(np.int64), y.astype(np.int64)
        return [[[Fraction(int(np.dot(xi[i, k:], yi[j, :N - k])), N - k) for j in range(y.shape[0])]
                 for i in range(x.shape[0])] for k in range(nl)]
    return [[[Fraction(float(np.dot(x[i, k:], y[j, :N - k]))) / (N - k) for j in range(y.shape[0])]
             for i in range(x.shape[0])] for k in range(nl)]


def lagged_mean_f(x, nl):
    return np.array([[[float(v) for v in row] for row in m] for m in lagged_mean(x, x, nl)])


# ------------------------------------------------------------------ scale handling
def _exp(v):
    """e with 2^e * max|v| in [1, 2); 0 for all-zero / empty / non-finite"""
    a = np.asarray(v, dtype=float)
    m = np.abs(a).max() if a.size else 0.0
    if not np.isfinite(m) or m == 0:
        return 0
    return -int(np.floor(np.log2(m)))


def _sc(h, e):
    """hex-list scaled by the exact power of two 2^e"""
    return hexl(np.ldexp(np.asarray(unhex(h), dtype=float), e))


def scale_call(d, j):
    """the same call on data multiplied by 2^j (covariance-valued inputs by 2^(2j))"""
    d = dict(d)
    k = d["kind"]
    if k == "lwr":
        d["r"] = _sc(d["r"], 2 * j)
    elif k == "ld":
        d["r"] = _sc(d["r"], 2 * j)
    elif k == "cov":
        d["x"] = _sc(d["x"], j)
        if "y" in d:
            d["y"] = _sc(d["y"], j)
    elif k in ("mar", "ga"):
        d["x"] = _sc(d["x"], j)
    elif k == "fit":
        d["x1"], d["x2"] = _sc(d["x1"], j), _sc(d["x2"], j)
    elif k == "gen":
        d["cov"] = _sc(d["cov"], 2 * j)
    return d


def data_exp(d):
    """data-level exponent of a call (covariance inputs count half)"""
    k = d["kind"]
    if k in ("lwr", "ld"):
        r = arr(d["r"])
        return -(-_exp(r[0]) // 2)
    if k in ("cov", "mar", "ga"):
        return -_exp(arr(d["x"]))
    if k == "fit":
        return -_exp([unhex(d["x1"]), unhex(d["x2"])])
    if k == "gen":
        return -(-_exp(arr(d["cov"])) // 2)
    return 0


def _dmat(e, sign):
    """matrix of exact powers of two 2^(e_i + sign * e_j)"""
    e = np.asarray(e, dtype=int)
    return np.ldexp(1.0, e[:, None] + sign * e[None, :])


def chscale_call(d, e):
    """the same call with channel i multiplied by the exact power of two 2^e_i (channels recorded in
       different units): data x -> D x, covariance lags R(k) -> D R(k) D, D = diag(2^e_i)"""
    d = dict(d)
    k = d["kind"]
    e = [int(v) for v in e]
    if k == "lwr":
        d["r"] = hexl(arr(d["r"]) * _dmat(e, 1)[None])
    elif k == "mar":
        d["x"] = hexl(np.ldexp(arr(d["x"]), np.asarray(e)[:, None]))
    elif k == "fit":
        d["x1"], d["x2"] = _sc(d["x1"], e[0]), _sc(d["x2"], e[1])
    else:
        raise KeyError(k)
    d["chscale"] = e
    return d


def balance(d, o):
    """undo the per-channel units of a call (d["chscale"]) on the call AND on its observed result, by
       exact powers of two: R(k) -> D^-1 R(k) D^-1, A(i) -> D^-1 A(i) D, sigma -> D^-1 sigma D^-1.
       The exact solution of the block Yule-Walker system of D R D is the D-conjugate of that of R, so the
       balanced pair (input, output) is judged by the model / the oracle exactly like an unscaled call --
       i.e. with per-channel (unit-aware) tolerances"""
    e = d.get("chscale")
    if not e:
        return d, o
    k = d["kind"]
    ne = [-v for v in e]
    d, o = dict(d), dict(o)
    del d["chscale"]
    d["balanced_from"] = e
    cov, coef = _dmat(ne, 1), _dmat(ne, -1)
    if k == "lwr":
        d["r"] = hexl(arr(d["r"]) * cov[None])
        if "err" not in o:
            o["a"] = hexl(arr(o["a"]).reshape(o["shape"]) * coef[None]) if int(np.prod(o["shape"])) else o["a"]
            o["sigma"] = hexl(arr(o["sigma"]) * cov)
    elif k == "mar":
        d["x"] = hexl(np.ldexp(arr(d["x"]), np.asarray(ne)[:, None]))
        if "err" not in o:
            o["a"] = hexl(arr(o["a"]).reshape(o["shape"]) * coef[None]) if int(np.prod(o["shape"])) else o["a"]
            o["ecov"] = hexl(arr(o["ecov"]) * cov)
    elif k == "fit":
        d["x1"], d["x2"] = _sc(d["x1"], ne[0]), _sc(d["x2"], ne[1])
        if "err" not in o:
            o["Rxx"] = hexl(arr(o["Rxx"]).reshape(o["Rxx_shape"]) * cov[:, :, None])
            if int(np.prod(o["coef_shape"])):
                o["coef"] = hexl(arr(o["coef"]).reshape(o["coef_shape"]) * coef[None])
            o["ecov"] = hexl(arr(o["ecov"]) * cov)
    return d, o


def normalise(d, o, force=False):
    """bring a call and its observed result to unit scale by exact powers of two, so that every
       tolerance below is relative to the size of R(0) / of the data"""
    k = d["kind"]
    if "err" in o or k in ("crit", "ld"):
        return d, o
    d, o = dict(d), dict(o)
    if k == "lwr":
        e = _exp(arr(d["r"])[0])
        if abs(e) > 8 or force:
            d["r"], o["sigma"] = _sc(d["r"], e), _sc(o["sigma"], e)
    elif k == "cov":
        ex = _exp(arr(d["x"]))
        ey = ex if "y" not in d else _exp(arr(d["y"]))
        if max(abs(ex), abs(ey)) > 8 or force:
            d["x"] = _sc(d["x"], ex)
            if "y" in d:
                d["y"] = _sc(d["y"], ey)
            o["rxy"] = _sc(o["rxy"], ex + ey)
    elif k == "mar":
        e = _exp(arr(d["x"]))
        if abs(e) > 8 or force:
            d["x"], o["ecov"] = _sc(d["x"], e), _sc(o["ecov"], 2 * e)
    elif k == "fit":
        e = _exp([unhex(d["x1"]), unhex(d["x2"])])
        if abs(e) > 8 or force:
            d["x1"], d["x2"] = _sc(d["x1"], e), _sc(d["x2"], e)
            o["Rxx"], o["ecov"] = _sc(o["Rxx"], 2 * e), _sc(o["ecov"], 2 * e)
    elif k == "ga":
        e = _exp(arr(d["x"]))
        if abs(e) > 8 or force:
            d["x"] = _sc(d["x"], e)
            o["pairs"] = {key: dict(v, Rxx=_sc(v["Rxx"], 2 * e), ecov=_sc(v["ecov"], 2 * e)) for key, v in o["pairs"].items()}
    elif k == "gen":
        e = _exp(arr(o["nz"]))
        if abs(e) > 8 or force:
            o["nz"], o["mar"] = _sc(o["nz"], e), _sc(o["mar"], e)
    return d, o


def _flat(o):
    """(structure, numbers) of an observation, for comparing two runs"""
    if isinstance(o, dict):
        st, nums = [], []
        for key in sorted(o):
            if key in ("crit", "mutated", "msg"):
                continue
            s1, n1 = _flat(o[key])
            st.append((key, s1))
            nums += n1
        return st, nums
    if isinstance(o, list):
        st, nums = [], []
        for v in o:
            s1, n1 = _flat(v)
            st.append(s1)
            nums += n1
        return st, nums
    if isinstance(o, str):
        try:
            return "f", [float.fromhex(o)]
        except ValueError:
            return o, []
    return o, []


def rescale_check(d, o):
    """re-run the call on the input multiplied by an exact power of two far from its own scale:
       coefficients and orders must not change, covariances must scale by the square
       (a hidden absolute threshold anywhere in the call chain breaks this on every case)"""
    k = d["kind"]
    if k not in ("lwr", "cov", "mar", "fit", "ga") or "err" in o:
        return None
    cur = data_exp(d)
    j = (-36 if cur > -5 else 26) - cur
    d2 = scale_call(d, j)
    o2 = run_case(d2)
    key = "C11/" + {"lwr": "lwr_recursion", "cov": "crosscov_vector", "mar": "MAR_est_LWR", "fit": "fit_model",
                    "ga": "GrangerAnalyzer"}[k] + "/scale-equivariance"
    what = "the same call on the input multiplied by 2^%d (data scale 2^%d -> 2^%d) " % (j, cur, cur + j)
    if ("err" in o2) != ("err" in o):
        return Fail(key, what + "raised %s" % o2.get("err"), o2.get("err"), "the rescaled result", {"rescale_by": j})
    n1, n2 = normalise(*balance(d, o), force=True)[1], normalise(*balance(d2, o2), force=True)[1]
    s1, v1 = _flat(n1)
    s2, v2 = _flat(n2)
    if s1 != s2:
        return Fail(key, what + "gives a result of different order / shape", None, None, {"rescale_by": j})
    v1, v2 = np.array(v1), np.array(v2)
    if v1.size and not np.all(np.abs(v1 - v2) <= 1e-9 * (1 + np.abs(v1).max())):
        w = int(np.argmax(np.abs(v1 - v2)))
        return Fail(key, what + "does not give the same coefficients and the covariances scaled by 2^%d "
                    "(largest normalised deviation %.3e)" % (2 * j, float(np.abs(v1 - v2).max())),
                    float(v2[w]), float(v1[w]), {"rescale_by": j})
    return None


def oracle(d, o):
    f = rescale_check(d, o)
    if f is not None:
        return f
    e = d.get("chscale")
    d, o = normalise(*balance(d, o))
    f = oracle_raw(d, o)
    if f is not None and e:
        f.what = "channels in different units (channel i x 2^e_i, e = %s; judged after exact re-balancing): %s" % (e, f.what)
    return f


def oracle_raw(d, o):
    k = d["kind"]
    key = "C11/" + {"lwr": "lwr_recursion", "ld": "AR_est_LD", "cov": "crosscov_vector", "mar": "MAR_est_LWR",
                    "fit": "fit_model", "gen": "generate_mar", "crit": "information_criterion",
                    "ga": "GrangerAnalyzer"}[k]
    if k == "ga" and o.get("noconv"):
        return None
    if "err" in o and not (k == "fit" and o.get("noconv")):
        return Fail(key + "/exception", "raised %s: %s" % (o["err"], o.get("msg")), o["err"], "a result")
    if k == "lwr":
        r, a, s = arr(d["r"]), arr(o["a"]).reshape(o["shape"]), arr(o["sigma"])
        if not all_finite(a, s):
            return Fail(key + "/non-finite", "non-finite output for a positive-definite covariance sequence", None, "finite")
        f = yw_check(key, r, a, s)
        if f:
            return f
        if o.get("mutated"):
            return Fail(key + "/input-modified", "the covariance sequence handed in was modified", None, "unchanged")
        if d.get("pd"):
            ev = np.linalg.eigvalsh((s + s.T) / 2)
            if ev.min() <= 0:
                return Fail(key + "/sigma-posdef", "innovation covariance not positive definite (min eigenvalue %.3e)" % ev.min(),
                            float(ev.min()), "> 0")
        nc = r.shape[1]
        if nc == 1 and len(a) >= 1:
            import nitime.algorithms as alg
            w, b = alg.AR_est_LD(None, len(a), rxx=r[:, 0, 0])
            sc = 1 + (np.abs(w).max() if len(w) else 0.0)
            if len(w) and np.abs(a[:, 0, 0] + w).max() > TOL * sc or abs(s[0, 0] - b) > TOL * (1 + abs(b)):
                return Fail(key + "/one-channel", "one channel: coefficients are not minus the Levinson-Durbin ones",
                            {"lwr": hexl(a[:, 0, 0]), "ld": hexl(w)}, "a = -w")
        if d.get("perm"):
            import nitime.algorithms as alg
            p = d["perm"]
            rp = r[:, p][:, :, p]
            ap, sp = alg.lwr_recursion(rp)
            sc = 1 + (np.abs(a).max() if a.size else 0.0)
            if (np.abs(ap - a[:, p][:, :, p]).max() if len(a) else 0) > TOL * sc or \
                    np.abs(sp - s[p][:, p]).max() > TOL * (1 + np.abs(s).max()):
                return Fail(key + "/permutation", "relabelling channels by %s does not permute the result" % p,
                            {"a_perm": hexl(ap)}, "a[:, perm][:, :, perm]")
        return None
    if k == "ld":
        # tie of the scalar model only; the scalar property itself belongs to C10
        return None
    if k == "cov":
        x = arr(d["x"])
        y = x if (d.get("auto") or d.get("alias")) else arr(d["y"])
        nc, N = x.shape
        nl = d["nlags"] if d["nlags"] is not None else N      # nlags=None (the default): all N lags
        if o.get("mutated"):
            return Fail(key + "/input-modified", "the data array was modified by the call", None, "unchanged")
        if o["shape"] != [nc, y.shape[0], nl]:
            return Fail(key + "/shape", "result shape %s" % o["shape"], o["shape"], [nc, y.shape[0], nl])
        rxy = arr(o["rxy"]).reshape(o["shape"])
        if N > 200:
            W = lagged_mean(x, y, nl)
        else:
            X, Y = fr_mat(x), fr_mat(y)
            W = [[[sum(X[i][t + kk] * Y[j][t] for t in range(N - kk)) / (N - kk) for j in range(y.shape[0])]
                  for i in range(nc)] for kk in range(nl)]
        for i in range(nc):
            for j in range(y.shape[0]):
                for kk in range(nl):
                    want = W[kk][i][j]
                    got = rxy[i, j, kk]
                    if not np.isfinite(got) or abs(F(got) - want) > Fraction(1e-11) * (1 + abs(want)):
                        return Fail(key + "/lagged-mean", "rxy[%d,%d,%d] differs from the lagged average%s"
                                    % (i, j, kk, " (nlags omitted: default None)" if d["nlags"] is None else ""),
                                    float(got), float(want))
        if d.get("feed") and (d.get("auto") or d.get("alias")) and nl > d["feed"]:
            # the first P+1 lags of the helper's output, fed to the recursion, must solve the block
            # Yule-Walker system of the data's own lagged averages
            import nitime.algorithms as alg
            P = d["feed"]
            a, sg = alg.lwr_recursion(np.array(rxy.transpose(2, 0, 1)[:P + 1]))
            return yw_check(key + "/feed-lwr", lagged_mean_f(x, P + 1), a, sg,
                            what="lwr_recursion on the first %d lags of the helper's output: " % (P + 1))
        return None
    if k == "mar":
        x = arr(d["x"])
        a, e = arr(o["a"]).reshape(o["shape"]), arr(o["ecov"])
        if len(a) != d["order"]:
            return Fail(key + "/order", "MAR_est_LWR(x, %d) returned %d coefficient matrices" % (d["order"], len(a)),
                        len(a), d["order"])
        R = lagged_mean_f(x, d["order"] + 1)
        return yw_check(key, R, a, e, what="(against the data's lagged averages) ")
    if k == "fit":
        if "err" in o:
            return None   # "did not converge": no solution is reported, nothing is claimed
        Rxx = arr(o["Rxx"]).reshape(o["Rxx_shape"])
        coef = arr(o["coef"]).reshape(o["coef_shape"])
        ecov = arr(o["ecov"])
        order = o["order"]
        if d["order"] is not None and order != d["order"]:
            return Fail(key + "/order", "fit_model(order=%d) reports order %d" % (d["order"], order), order, d["order"])
        if coef.shape[0] != order:
            return Fail(key + "/order", "reported order %d but %d coefficient matrices returned" % (order, coef.shape[0]),
                        coef.shape[0], order)
        if Rxx.shape[2] != order + 1:
            return Fail(key + "/order", "reported order %d but %d covariance lags returned" % (order, Rxx.shape[2]),
                        Rxx.shape[2], order + 1)
        x = np.vstack([arr(d["x1"]), arr(d["x2"])])
        R = lagged_mean_f(x, order + 1)
        dev = np.abs(R - Rxx.transpose(2, 0, 1)).max()
        if dev > 1e-10 * (1 + np.abs(R).max()):
            return Fail(key + "/Rxx", "returned covariance is not the lagged average of the data at order+1 lags (dev %.3e)" % dev,
                        float(dev), 0)
        return yw_check(key, R, coef, ecov, what="(against the data's lagged averages) ")
    if k == "ga":
        import nitime.analysis.granger as gr
        x = arr(d["x"])
        P = o["pairs"]
        want_ij = d["ij"] if d["ij"] is not None else o["ij"]
        for (i, j) in want_ij:
            e = P.get("%d,%d" % (i, j))
            tag = "pair (%d,%d) of ij=%s: " % (i, j, d["ij"])
            if e is None:
                return Fail(key + "/missing", tag + "no model stored", None, None)
            Rxx = arr(e["Rxx"]).reshape(e["Rxx_shape"])
            coef = arr(e["coef"]).reshape(e["coef_shape"])
            ecov = arr(e["ecov"])
            order = e["order"]
            if d["order"] is not None and order != d["order"]:
                return Fail(key + "/order", tag + "order %d reported for requested order %d" % (order, d["order"]), order, d["order"])
            if coef.shape != (order, 2, 2) or Rxx.shape != (2, 2, order + 1) or ecov.shape != (2, 2):
                return Fail(key + "/order", tag + "reported order %d with coefficient shape %s, autocov shape %s"
                            % (order, coef.shape, Rxx.shape), [list(coef.shape), list(Rxx.shape)], [[order, 2, 2], [2, 2, order + 1]])
            xp = x[[i, j]]
            R = lagged_mean_f(xp, order + 1)
            dev = np.abs(R - Rxx.transpose(2, 0, 1)).max()
            if dev > 1e-10 * (1 + np.abs(R).max()):
                return Fail(key + "/autocov", tag + "autocov is not the lagged average of (x_%d, x_%d) (dev %.3e)" % (i, j, dev),
                            float(dev), 0)
            f = yw_check(key, Rxx.transpose(2, 0, 1), coef, ecov, what=tag)
            if f:
                return f
            kw = {} if d["order"] is None else {"order": d["order"]}
            o2, R2, c2, e2 = gr.fit_model(x[i], x[j], max_order=d["max_order"], **kw)
            if o2 != order or np.shape(c2) != coef.shape or np.abs(c2 - coef).max(initial=0) > 1e-9 * (1 + np.abs(coef).max(initial=0)) \
                    or np.abs(e2 - ecov).max() > 1e-9 * (1 + np.abs(ecov).max()) or np.abs(R2 - Rxx).max() > 1e-10 * (1 + np.abs(R2).max()):
                return Fail(key + "/fit_model", tag + "differs from fit_model(x_%d, x_%d)" % (i, j), None, None)
            r = P.get("%d,%d" % (j, i))
            if r is not None:
                # relabelling the two channels permutes everything (C11_lwr_perm_equivariant)
                Rr = arr(r["Rxx"]).reshape(r["Rxx_shape"])
                cr = arr(r["coef"]).reshape(r["coef_shape"])
                er = arr(r["ecov"])
                ok = (r["order"] == order and cr.shape == coef.shape and Rr.shape == Rxx.shape
                      and np.abs(cr[:, ::-1, ::-1] - coef).max(initial=0) <= 1e-8 * (1 + np.abs(coef).max(initial=0))
                      and np.abs(er[::-1, ::-1] - ecov).max() <= 1e-8 * (1 + np.abs(ecov).max())
                      and np.abs(Rr[::-1, ::-1, :] - Rxx).max() <= 1e-10 * (1 + np.abs(Rxx).max()))
                if not ok:
                    return Fail(key + "/permutation", tag + "is not the channel-swapped model of pair (%d,%d)" % (j, i), None, None)
        return None
    if k == "gen":
        a = arr(d["a"]).reshape(d["a_shape"])
        nc, N = a.shape[1], d["N"]
        if o["mar_shape"] != [nc, N] or o["nz_shape"] != [nc, N]:
            return Fail(key + "/shape", "output shapes %s %s" % (o["mar_shape"], o["nz_shape"]), o["mar_shape"], [nc, N])
        mar, nz = arr(o["mar"]).reshape(nc, N), arr(o["nz"]).reshape(nc, N)
        if N > 64:      # long record: the same recursion in float64 with a tolerance
            for t in range(N):
                acc = mar[:, t].copy()
                for j in range(1, min(t, len(a)) + 1):
                    acc += a[j - 1] @ mar[:, t - j]
                if np.abs(acc - nz[:, t]).max() > 1e-9 * (1 + np.abs(mar[:, max(0, t - len(a)):t + 1]).max()):
                    return Fail(key + "/recursion", "X(t) + sum_j a(j) X(t-j) differs from the returned noise at t=%d" % t,
                                hexl(acc), hexl(nz[:, t]))
            return None
        A = [fr_mat(m) for m in a]
        X = [[F(mar[i, t]) for i in range(nc)] for t in range(N)]
        E = [[F(nz[i, t]) for i in range(nc)] for t in range(N)]
        for t in range(N):
            acc = list(X[t])
            for j in range(1, min(t, len(A)) + 1):
                for i in range(nc):
                    acc[i] += sum(A[j - 1][i][l] * X[t - j][l] for l in range(nc))
            sc = 1 + max(abs(v) for v in X[t])
            if max(abs(u - v) for u, v in zip(acc, E[t])) > Fraction(1e-10) * sc:
                return Fail(key + "/recursion", "X(t) + sum_j a(j) X(t-j) differs from the returned noise at t=%d" % t,
                            [float(v) for v in acc], [float(v) for v in E[t]])
        return None
    if k == "crit":
        L, lN, v = (float.fromhex(o[x]) for x in ("L", "lN", "value"))
        p, m, Nt = d["p"], d["m"], d["Ntotal"]
        if d["bic"]:
            want = 2 * L + 2 * p * p * m * lN / Nt
        else:
            want = 2 * L + 2 * p * p * m / Nt + ((2 * m * (m + 1)) / (Nt - m - 1) if d["corrected"] else 0)
        if np.isfinite(want) and abs(v - want) > 1e-9 * (1 + abs(want)):
            return Fail(key + "/formula", "criterion value differs from its formula", v, want)
        return None
    return None


# ------------------------------------------------------------------ generators
def stable_var(rs, nc, p, rho):
    """coefficient matrices B_1..B_p of x(t) = sum B_j x(t-j) + e(t) with spectral radius about rho"""
    B = rs.randn(p, nc, nc)
    top = np.hstack(list(B))
    comp = np.zeros((nc * p, nc * p))
    comp[:nc] = top
    if p > 1:
        comp[nc:, :-nc] = np.eye(nc * (p - 1))
    sr = max(abs(np.linalg.eigvals(comp)))
    for j in range(p):
        B[j] *= (rho / sr) ** (j + 1)
    return B


def simulate(rs, B, cov, N, burn=200):
    p, nc = B.shape[0], B.shape[1]
    Lc = np.linalg.cholesky(cov)
    x = np.zeros((N + burn, nc))
    e = rs.randn(N + burn, nc) @ Lc.T
    for t in range(N + burn):
        x[t] = e[t]
        for j in range(1, min(t, p) + 1):
            x[t] += B[j - 1] @ x[t - j]
    return x[burn:].T


def rand_cov(rs, nc):
    M = rs.randn(nc, nc)
    return M @ M.T / nc + 0.3 * np.eye(nc)


def exact_cov_seq(B, cov, nl):
    """exact covariances R(k) = E x(t) x(t-k)^T of the stable VAR, k = 0..nl-1"""
    from scipy.linalg import solve_discrete_lyapunov
    p, nc = B.shape[0], B.shape[1]
    comp = np.zeros((nc * p, nc * p))
    comp[:nc] = np.hstack(list(B))
    if p > 1:
        comp[nc:, :-nc] = np.eye(nc * (p - 1))
    Q = np.zeros((nc * p, nc * p))
    Q[:nc, :nc] = cov
    G = solve_discrete_lyapunov(comp, Q)
    out = []
    M = np.eye(nc * p)
    for k in range(nl):
        out.append((M @ G)[:nc, :nc])
        M = comp @ M
    return np.array(out)


def block_toeplitz_min_eig(r):
    P1, nc = r.shape[0], r.shape[1]
    T = np.zeros((nc * P1, nc * P1))
    for i in range(P1):
        for j in range(P1):
            T[i * nc:(i + 1) * nc, j * nc:(j + 1) * nc] = r[i - j] if i >= j else r[j - i].T
    return np.linalg.eigvalsh((T + T.T) / 2).min()


def gen_cov_seq(ctx, rs, nc, P):
    """a positive-definite covariance sequence r(0..P) on a dyadic grid"""
    for _ in range(50):
        p = rs.randint(1, 4)
        B = stable_var(rs, nc, p, rs.uniform(0.3, 0.85))
        cov = rand_cov(rs, nc)
        if rs.rand() < 0.5:
            src = "exact"
            r = exact_cov_seq(B, cov, P + 1)
        else:
            src = "estimated"
            N = int(rs.choice(ctx.scale([64, 128, 256, 512], [64, 256, 1024, 4096])))
            x = simulate(rs, B, cov, N)
            r = np.array([(x[:, k:] @ x[:, :N - k].T) / (N - k) for k in range(P + 1)])
        r = grid(r / max(1.0, np.abs(r).max()), GRID)
        r[0] = np.triu(r[0]) + np.triu(r[0], 1).T
        if block_toeplitz_min_eig(r) > 2e-3:
            return r, src
    raise RuntimeError("no well-conditioned covariance sequence found")


def gen_lwr(ctx, rs):
    nc = int(rs.randint(1, ctx.scale(4, 6) + 1))
    P = int(rs.randint(1, ctx.scale(5, 8) + 1))
    if rs.rand() < 0.08:
        P = 0 if rs.rand() < 0.3 else P
    r, src = gen_cov_seq(ctx, rs, nc, P)
    d = {"kind": "lwr", "r": hexl(r), "pd": True, "src": src}
    if nc >= 2 and rs.rand() < 0.6:
        p = list(rs.permutation(nc))
        if p == sorted(p):
            p = p[1:] + p[:1]
        d["perm"] = [int(v) for v in p]
    d["layout"] = str(rs.choice(["c", "view", "view", "fortran"]))
    return d


def leading_min_sv(r):
    """smallest singular value over the nested block-Toeplitz matrices T_1..T_{P+1}
       (det T_{p+1} = det T_p det sigf_p: all of them regular <=> every inverted matrix is regular)"""
    P1, nc = r.shape[0], r.shape[1]
    T = np.zeros((nc * P1, nc * P1))
    for i in range(P1):
        for j in range(P1):
            T[i * nc:(i + 1) * nc, j * nc:(j + 1) * nc] = r[i - j] if i >= j else r[j - i].T
    return min(np.linalg.svd(T[:k * nc, :k * nc], compute_uv=False).min() for k in range(1, P1 + 1))


def gen_lwr_free(ctx, rs):
    """symmetric r(0), arbitrary other lags (as test_lwr does): the algebra needs no more than
       symmetry of r(0) and regular error covariances"""
    for _ in range(200):
        nc = int(rs.randint(1, 5))
        P = int(rs.randint(1, 5))
        r = rs.randn(P + 1, nc, nc) * 0.3
        r[0] = r[0] @ r[0].T + np.eye(nc)
        r = grid(r, 12)
        r[0] = np.triu(r[0]) + np.triu(r[0], 1).T
        if leading_min_sv(r) > 0.05:
            return {"kind": "lwr", "r": hexl(r), "pd": False, "src": "free"}
    raise RuntimeError("no regular free sequence found")


def gen_ld(ctx, rs):
    order = int(rs.randint(1, 7))
    r, _ = gen_cov_seq(ctx, rs, 1, order + int(rs.randint(0, 3)))
    return {"kind": "ld", "r": hexl(r[:, 0, 0]), "order": order}


def gen_cov(ctx, rs):
    nc = int(rs.randint(1, 5))
    N = int(rs.randint(2, ctx.scale(40, 120)))
    nl = int(rs.randint(1, min(N, 8) + 1))
    if rs.rand() < 0.15:
        nl = N
    r = rs.rand()
    if r < 0.3:                          # the default keyword: nlags omitted / None = all N lags
        N = int(rs.randint(2, ctx.scale(24, 40)))
        nl = None
    elif r < 0.45:
        nl = int(rs.choice([N, max(1, N - 1), 1]))
    x = grid(rs.randn(nc, N), 10)
    d = {"kind": "cov", "auto": False, "x": hexl(x), "nlags": nl}
    if nl is None and rs.rand() < 0.3:
        d["explicit_none"] = True
    r = rs.rand()
    if r < 0.4:
        d["auto"] = True
    elif r < 0.55:
        d["alias"] = True                # crosscov_vector(x, x): the same object twice
    else:
        d["y"] = hexl(grid(rs.randn(nc, N), 10))       # x, y : (nc, N) as documented
    return d


def gen_cov_feed(ctx, rs):
    """all lags of coloured data by the default keyword, then the recursion on the first P+1 of them"""
    for _ in range(100):
        nc = int(rs.randint(1, 3))
        N = int(rs.choice([32, 48, 64]))
        x = coloured(rs, nc, N, bits=6)
        P = int(rs.randint(1, 4))
        R = lagged_mean_f(x, P + 1)
        if leading_min_sv(R / np.abs(R).max()) > 0.02:
            d = {"kind": "cov", "auto": bool(rs.rand() < 0.6), "x": hexl(x), "nlags": None if rs.rand() < 0.7 else N,
                 "feed": P}
            if not d["auto"]:
                d["alias"] = True
            return d
    raise RuntimeError("no well-conditioned record found")


# record lengths beyond every power-of-two / block boundary up to the quantifier's 4096
LONG_N = [513, 777, 1021, 1024, 1025, 1500, 2047, 2048, 2049, 3000, 3001, 4093, 4095, 4096]
LONG_N_K = [1025, 1500, 2049, 3001, 4096]       # the ones that also go through K


def long_n(rs, in_k):
    return int(rs.choice(LONG_N_K if in_k else LONG_N))


def int_coloured(rs, nc, N):
    """integer-valued coloured data (exact integer lagged sums)"""
    B = stable_var(rs, nc, int(rs.randint(1, 3)), rs.uniform(0.3, 0.8))
    x = simulate(rs, B, rand_cov(rs, nc), N, burn=50)
    return np.round(4 * x)


def gen_cov_long(ctx, rs, in_k):
    nc = int(rs.randint(1, 4))
    N = long_n(rs, in_k)
    nl = int(rs.randint(1, 5))
    x = int_coloured(rs, nc, N)
    d = {"kind": "cov", "auto": bool(rs.rand() < 0.5), "x": hexl(x), "nlags": nl, "long": True}
    if not d["auto"]:
        d["y"] = hexl(int_coloured(rs, nc, N))
    if not in_k:
        d["nok"] = True
    return d


def gen_mar_long(ctx, rs, in_k):
    nc = int(rs.randint(1, 4))
    d = {"kind": "mar", "x": hexl(int_coloured(rs, nc, long_n(rs, in_k))), "order": int(rs.randint(1, 4)),
         "long": True}
    if not in_k:
        d["nok"] = True
    return d


def gen_fit_long(ctx, rs, in_k):
    x = int_coloured(rs, 2, long_n(rs, in_k))
    d = {"kind": "fit", "x1": hexl(x[0]), "x2": hexl(x[1]), "order": None, "max_order": 4, "criterion": "default",
         "long": True}
    if in_k or rs.rand() < 0.6:
        d["order"] = int(rs.randint(1, 4))
    if not in_k:
        d["nok"] = True
    return d


def gen_gen_long(ctx, rs, in_k):
    nc = int(rs.randint(1, 4))
    order = int(rs.randint(1, 4))
    a = grid(-stable_var(rs, nc, order, rs.uniform(0.3, 0.9)), 6)
    return {"kind": "gen", "a": hexl(a), "a_shape": [order, nc, nc], "cov": hexl(rand_cov(rs, nc)),
            "N": int(rs.choice([1025, 1500, 2049])), "np_seed": int(rs.randint(0, 2 ** 31 - 1)), "nok": True, "long": True}


def long_calls(ctx, rs):
    """every run: records longer than any block / power-of-two boundary, mostly oracle-only,
       a few also through the kernel-evaluated correspondence"""
    out = []
    for g, n_k, n_o in [(gen_cov_long, ctx.scale(6, 12), ctx.scale(12, 40)), (gen_mar_long, ctx.scale(3, 6), ctx.scale(6, 20)),
                        (gen_fit_long, ctx.scale(2, 4), ctx.scale(6, 20)), (gen_gen_long, 0, ctx.scale(2, 6))]:
        out += [g(ctx, rs, True) for _ in range(n_k)] + [g(ctx, rs, False) for _ in range(n_o)]
    return out


def gen_ga(ctx, rs):
    """GrangerAnalyzer model attributes for ij lists with both orientations, repeats, shuffles"""
    nc = int(rs.randint(2, 5))
    N = int(rs.choice([32, 48, 64, 96, 128]))
    x = coloured(rs, nc, N)
    allp = [(i, j) for i in range(nc) for j in range(nc) if i != j]
    r = rs.rand()
    if r < 0.1:
        ij = None
    elif r < 0.55:
        i, j = allp[rs.randint(len(allp))]
        ij = [(i, j), (j, i)]
        extra = [allp[k] for k in rs.permutation(len(allp))[:rs.randint(0, 3)]]
        ij = ij + extra
        if rs.rand() < 0.5:
            ij = [ij[k] for k in rs.permutation(len(ij))]
    else:
        ij = [allp[k] for k in rs.permutation(len(allp))[:rs.randint(1, len(allp) + 1)]]
        if rs.rand() < 0.3:
            ij = ij + [ij[0]]                      # a repeated pair
    order = None if rs.rand() < 0.4 else int(rs.randint(1, 4))
    read = ["order", "autocov", "model_coef", "error_cov"]
    read = [read[k] for k in rs.permutation(4)]
    d = {"kind": "ga", "x": hexl(x), "ij": None if ij is None else [[int(i), int(j)] for i, j in ij], "order": order,
         "max_order": int(rs.choice([6, 10, 10])), "read": read}
    if d["max_order"] == 10 and rs.rand() < 0.5:
        d["default_max_order"] = True
    if ij is None:
        d["kpair"] = [1, 0]
    else:
        # prefer the second-listed orientation of a pair listed both ways
        second = [p for n, p in enumerate(ij) if (p[1], p[0]) in ij[:n]]
        d["kpair"] = [int(v) for v in (second[0] if second else ij[-1])]
    return d


def coloured(rs, nc, N, bits=8):
    B = stable_var(rs, nc, int(rs.randint(1, 3)), rs.uniform(0.3, 0.8))
    x = simulate(rs, B, rand_cov(rs, nc), N, burn=50)
    return grid(x, bits)


def gen_mar(ctx, rs):
    nc = int(rs.randint(1, 4))
    order = int(rs.randint(0, 5))
    N = int(rs.choice([16, 24, 32, 48, 64]))
    d = {"kind": "mar", "x": hexl(coloured(rs, nc, N)), "order": order}
    if rs.rand() < 0.25:
        d["rxx"] = True                  # with the optional precomputed autocovariance of the same data
    return d


def gen_fit(ctx, rs):
    N = int(rs.choice([24, 32, 48, 64, 96]))
    x = coloured(rs, 2, N)
    r = rs.rand()
    d = {"kind": "fit", "x1": hexl(x[0]), "x2": hexl(x[1]), "order": None, "max_order": 10, "criterion": "default"}
    d["_dm"] = bool(rs.rand() < 0.5)
    if r < 0.35:
        d["order"] = int(rs.randint(0, 6))
        d["max_order"] = int(rs.choice([0, 1, 3, 10]))
    elif r < 0.6:
        d["criterion"] = str(rs.choice(["default", "bic", "aic"]))
        d["max_order"] = int(rs.choice([1, 2, 3, 5, 8, 10]))
    else:
        d["criterion"] = "table"
        mo = int(rs.choice([2, 3, 4, 6, 8]))
        d["max_order"] = mo
        kind = rs.rand()
        if kind < 0.3:
            tab = sorted(rs.randn(mo + 2), reverse=True)          # never increases: ValueError
        else:   # no deliberate ties: which of two equal criteria wins is not part of the property
            tab = list(rs.randn(mo + 2))
        d["table"] = [float(v).hex() for v in tab]
    return d


def _default_kw(d):
    """when the generated max_order is the default (10), half of the calls omit the keyword"""
    dm = d.pop("_dm", False)
    if dm and d["max_order"] == 10:
        d["default_max_order"] = True
    return d


_gen_fit_raw = gen_fit


def gen_fit(ctx, rs):  # noqa
    return _default_kw(_gen_fit_raw(ctx, rs))


def gen_gen(ctx, rs):
    nc = int(rs.randint(1, 4))
    order = int(rs.randint(1, 4))
    N = int(rs.randint(1, ctx.scale(20, 40)))
    a = grid(-stable_var(rs, nc, order, rs.uniform(0.3, 0.9)), 6)
    return {"kind": "gen", "a": hexl(a), "a_shape": [order, nc, nc], "cov": hexl(rand_cov(rs, nc)), "N": N,
            "np_seed": int(rs.randint(0, 2 ** 31 - 1))}


def gen_crit(ctx, rs):
    p = int(rs.randint(1, 5))
    return {"kind": "crit", "bic": bool(rs.rand() < 0.5), "corrected": bool(rs.rand() < 0.5),
            "explicit_corrected": bool(rs.rand() < 0.5),
            "ecov": hexl(rand_cov(rs, p)), "p": p, "m": int(rs.randint(0, 12)), "Ntotal": int(rs.randint(40, 5000))}


def gen_chscale(rs, nc):
    """per-channel exponents: at least one 'small-unit' and one 'large-unit' channel, ratio 2^26 .. 2^40,
       the others anywhere in between; centred so that the uniform magnitude classes still compose"""
    g = int(rs.randint(26, 41)) if rs.rand() < 0.7 else int(rs.choice([26, 27, 40]))
    e = [int(v) for v in rs.randint(0, g + 1, size=nc)]
    lo, hi = [int(v) for v in rs.permutation(nc)[:2]]
    e[lo], e[hi] = 0, g
    off = int(rs.randint(-g, 1))
    return [v + off for v in e]


def klass(d):
    c = klass0(d)
    if d.get("scaled"):
        c += "/scale-2^%s" % ("<-20" if d["scaled"] < -20 else ("<0" if d["scaled"] < 0 else (">15" if d["scaled"] > 15 else ">=0")))
    if d.get("chscale"):
        c += "/channel-units-2^%d" % (max(d["chscale"]) - min(d["chscale"]))
    if d.get("long"):
        N = len((d.get("x") or [d.get("x1")])[0]) if d["kind"] != "gen" else d["N"]
        c += "/long-N%s%s" % (">2048" if N > 2048 else (">1024" if N > 1024 else "<=1024"), "" if not d.get("nok") else "/oracle-only")
    return c


def klass0(d):
    k = d["kind"]
    if k == "lwr":
        r = arr(d["r"])
        return "lwr/nc%d/P%d/%s%s" % (r.shape[1], r.shape[0] - 1, d.get("src"), "/perm" if d.get("perm") else "")
    if k == "fit":
        return "fit/%s/%s" % ("fixed" if d["order"] is not None else "select", d["criterion"])
    if k == "cov":
        return "cov/%s/%s%s" % ("auto" if d.get("auto") else ("alias" if d.get("alias") else "cross"),
                                "nlags-default" if d["nlags"] is None else "nlags-given", "/feed-lwr" if d.get("feed") else "")
    if k == "mar":
        return "mar/order%d" % d["order"]
    if k == "ga":
        ij = d["ij"]
        both = ij is not None and any([p[1], p[0]] in ij for p in ij)
        return "ga/%s/%s" % ("default-ij" if ij is None else ("both-orientations" if both else "one-orientation"),
                             "fixed" if d["order"] is not None else "select")
    return k


def make_case(d):
    o = run_case(d)
    coq = case_coq(*balance(d, o))      # channels in different units: K judges the exactly re-balanced pair
    c = Case(coq or "", {"call": d, "observed": o}, klass(d), nontrivial=("err" not in o))
    c.in_k = coq is not None
    return c


HEADER = ("From Coq Require Import ZArith QArith List Bool PrimFloat.\n"
          "From NT Require Import F2Z Lists Close LWR C11K.\nImport ListNotations.\nOpen Scope nat_scope.\n")


def corpus_calls():
    p = core.VERIF / "harness" / "corpus" / "C11"
    out = []
    if p.exists():
        for f in sorted(p.glob("*.json")):
            out.append(json.loads(f.read_text())["call"])
    return out


def run(ctx):
    core.import_nitime()
    ctx.check_props()
    rs = np.random.RandomState(ctx.rng.getrandbits(32))
    plan = [(gen_lwr, ctx.scale(90, 500)), (gen_lwr_free, ctx.scale(20, 80)), (gen_ld, ctx.scale(20, 80)),
            (gen_cov, ctx.scale(40, 200)), (gen_mar, ctx.scale(30, 150)), (gen_fit, ctx.scale(40, 200)),
            (gen_gen, ctx.scale(30, 150)), (gen_crit, ctx.scale(30, 100)), (gen_ga, ctx.scale(30, 120)),
            (gen_cov_feed, ctx.scale(10, 40))]
    calls = corpus_calls()
    for g, n in plan:
        calls += [g(ctx, rs) for _ in range(n)]
    # channels recorded in different units: channel i x 2^e_i, amplitude ratios 2^26 .. 2^40 (variance ratios
    # 2^52 .. 2^80: R(0) positive definite but far beyond any relative rank cut-off); exact powers of two
    for n, d in enumerate(calls):
        nch = {"lwr": lambda: arr(d["r"]).shape[1], "mar": lambda: arr(d["x"]).shape[0], "fit": lambda: 2}.get(d["kind"])
        if nch is None or d.get("chscale") or nch() < 2 or rs.rand() >= 0.3:
            continue
        calls[n] = chscale_call(d, gen_chscale(rs, nch()))
    # magnitude classes: data amplitudes 2^-40 .. 2^30 (volts, tesla, raw ADC counts ...); exact powers of two
    for n, d in enumerate(calls):
        if d["kind"] != "crit" and rs.rand() < 0.6:
            j = int(rs.randint(-40, 31)) if rs.rand() < 0.7 else int(rs.choice([-40, -30, -27, -14, 20, 30]))
            calls[n] = dict(scale_call(d, j), scaled=j)
    calls += long_calls(ctx, rs)
    cases = [make_case(d) for d in calls]
    kcases = [c for c in cases if c.in_k]
    # heavy cases first so that the parallel shards are balanced
    shard = ctx.scale(12, 20)
    order = sorted(range(len(kcases)), key=lambda i: -len(kcases[i].coq))
    inter = [kcases[i] for i in order]
    nsh = max(1, (len(inter) + shard - 1) // shard)
    dealt = [c for s in range(nsh) for c in inter[s::nsh]]
    kbad = ctx.check_cases("K", HEADER, dealt, "check", shard=shard, case_type="case", timeout=ctx.scale(600, 1500))
    bad = {id(dealt[i]) for i in kbad}
    for c in cases:
        if not c.in_k:
            ctx.count_case(c)
    for c in cases:
        f = oracle(c.replay["call"], c.replay["observed"])
        if f is not None:
            f.replay = dict(f.replay or {}, entry_point=f.key.split("/")[1], model_disagrees=id(c) in bad)
            ctx.report_fail(f, c)
    ctx.extra["model_impl_disagreements"] = len(bad)
    ctx.extra["not_in_K"] = sum(1 for c in cases if not c.in_k)
    ctx.extra["rule"] = ("seeded generator: covariance sequences (exact covariances of random stable VAR(1..3) processes, or "
                         "estimated from simulated coloured data of length 64..4096, on a 2^-12 grid, block-Toeplitz "
                         "positive definite) x nc 1..4(6) x P 0..5(8) x channel permutations; free sequences with symmetric "
                         "r(0); crosscov/autocov on random data; MAR_est_LWR and fit_model (fixed order, BIC/AIC/scripted "
                         "criteria, max_order 0..10) on bivariate coloured data; generate_mar with seeded noise; criteria; "
                         "in every run integer-valued long records N in {513..4096, incl. 1025, 2049, primes} through "
                         "crosscov/autocov, MAR_est_LWR, fit_model, generate_mar (exact integer lagged sums as oracle; a few "
                         "also in K); GrangerAnalyzer order/autocov/model_coef/error_cov for ij lists with both orientations, "
                         "repeated pairs, shuffled orders and attribute read orders; public keywords at their defaults (nlags "
                         "omitted/None = all N lags, also fed to lwr_recursion; max_order omitted; corrected omitted; "
                         "MAR_est_LWR rxx=; crosscov_vector(x, x) aliasing; C/Fortran/transposed-view r); 60% of the calls on data "
                         "scaled by exact powers of two 2^-40..2^30; 30% of the multichannel lwr/MAR_est_LWR/fit_model calls with "
                         "channels in different units (channel i x 2^e_i, amplitude ratios 2^26..2^40, R(k) -> D R(k) D), "
                         "judged in K and by the oracle after exact re-balancing (D-conjugation); every tolerance relative to ||R(0)|| / the data, and every "
                         "lwr/cov/mar/fit/GrangerAnalyzer call re-run on its input rescaled by 2^j far from its own scale "
                         "(same coefficients/orders, covariances x 2^2j). "
                         "non-trivial = the call returned a value")
    return ctx.finish(
        trusted=["numpy/scipy kernels used by the anchored code (dot, linalg.inv, linalg.det, log, mean, "
                 "random.multivariate_normal): the model uses exact rational arithmetic and a Gauss-Jordan inverse "
                 "instead; agreement is checked to rtol 1e-7",
                 "positive-definiteness of the innovation covariance: proved (C11_sigma_positive_definite) from "
                 "positive-definiteness of the block-Toeplitz matrix of the lags; on the implementation's output it is "
                 "checked numerically (eigvalsh) as part of the search"],
        assumptions=["covariance sequences are well conditioned (block-Toeplitz min eigenvalue > 2e-3 after scaling to "
                     "max 1): the theorems assume every inverted error covariance is invertible",
                     "real data only (the helper's .conj() is the identity)"])


def replay(ctx, path):
    core.import_nitime()
    d = json.loads(open(path).read())
    call = (d.get("case") or d)["call"]
    o = run_case(call)
    f = oracle(call, o)
    print(json.dumps({"call": {k: v for k, v in call.items() if k not in ("r", "x", "x1", "x2", "y", "a")},
                      "fails": None if f is None else f.what}, indent=1))
    return 1 if f else 0
