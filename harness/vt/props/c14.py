"""C14 — resetting or re-targeting an analyzer is equivalent to building a new one.

P: coq/Props/C14.v (theorems over Model/Memo.v: every history before and after the switch)
G: per class and switch (set_input with another input of the same shape / other length / other rate /
   other channel count; reset + a changed parameter; slicing an Epochs object) the tables the model needs,
   read off the running code: the effect graph (as in C13), the names reset() really deletes (every
   one-time name is planted in an instance dict, reset() is called, what is left is recorded), the cells
   whose initial value differs between a fresh analyzer on the old and on the new input (instance dicts of
   the two diffed), the cells the switch assigns;  `Lemma tables_ok_i : tables_ok ... = true` (vm_compute):
   nothing stale beyond the recorded __init__-derived cells, no surviving stale result; for a class with
   nothing recorded this is `c14_check ... = true` and C14_table_retarget_equiv_fresh covers EVERY pair of
   histories on that table
K: histories  read* ; switch ; read*  run on the implementation; the Coq kernel runs the generated machine
   on the same histories and compares (which results are still stored after the switch and which getters
   run: exactly; equal to the NEW analyzer's value: wherever the model predicts it)
oracle: every value read after the switch equals the value a newly built analyzer returns; nothing that
   survives the switch differs from it
"""
import json

import numpy as np

from vt import core
from vt.core import Case, Fail, blit, llit
from vt.props import c13 as M

# cells derived from the input inside __init__ that the switch does not refresh (unchanged tree): the known
# findings C14/set_input/<family>/init-derived-state
EXPECTED_STALE = {
    "GrangerAnalyzer": ["attr.data", "attr.sampling_rate", "attr._n_process", "attr.ij"],
    "SNRAnalyzer": ["attr.signal", "attr.noise"],
    "CoherenceAnalyzer": ["attr.method.Fs"],
    "SparseCoherenceAnalyzer": ["attr.method.Fs"],
    "MTCoherenceAnalyzer": ["attr.NW", "attr._L", "attr.bandwidth"],
    "SpectralAnalyzer": [],
    "MorletWaveletAnalyzer": ["attr.sd", "attr.wavelet"],
    "EventRelatedAnalyzer": ["attr.data", "attr.events"],
}


def switch_id(sw):
    return "%s:%s" % (sw[0], sw[1]) if sw[0] != "param" else "param:%s=%s" % (sw[1], sw[2])


def parse_key(k, n=None):
    n = len(M.EPOCH_START) if n is None else n
    if k.startswith("L"):
        return [int(x) for x in k[1:].split(",")]
    if k.startswith("M"):
        m, r = [int(x) for x in k[1:].split(",")]
        return np.arange(n) % m == r
    if ":" in k:
        p = [int(x) if x else None for x in k.split(":")]
        return slice(*p)
    return int(k)


def ref_variant(v):
    """the plain input whose values the new input has"""
    return "same" if v == "derived" else v


def new_object(st, sw):
    """a newly built analyzer for the situation after the switch (through the keyword entry path where the
    setting has one; on a plainly built input)"""
    if sw[0] in ("set_input", "assign"):
        return st.make(ref_variant(sw[1]), new=True)[0]
    if sw[0] == "param":
        return st.make(**{sw[1]: sw[2]})[0]
    if sw[0] == "slice":
        k = parse_key(sw[1])
        return st.make(start=np.array(M.EPOCH_START)[k], duration=np.array(M.EPOCH_DUR)[k])[0]
    raise KeyError(sw)


def do_switch(st, obj, sw):
    """perform the switch on obj; returns the object to go on reading from"""
    if sw[0] == "set_input":
        obj.set_input(M.mk_inputs(st.kind, sw[1])[0])
        return obj
    if sw[0] == "assign":
        obj.reset()
        obj.input = M.mk_inputs(st.kind, sw[1])[0]
        return obj
    if sw[0] == "param":
        obj.reset()
        setattr(obj, sw[1], sw[2])
        return obj
    if sw[0] == "slice":
        return obj[parse_key(sw[1])]
    raise KeyError(sw)


def assigned_cells(sw):
    return {"set_input": ["attr.input"], "assign": ["attr.input"], "param": ["attr.%s" % sw[1]],
            "slice": ["attr.data"]}[sw[0]]


def changed_cells(st, g, sw):
    otps = M.otp_table(st.cls)
    a = M.snapshot(st.make()[0], otps, [])
    b = M.snapshot(new_object(st, sw), otps, [])
    return sorted(c for c in set(a) | set(b) if a.get(c) != b.get(c) and c.startswith("attr."))


def slice_deletes(st, sw, names):
    """which one-time names does slicing (the static= path of Epochs.__init__) remove from the copied instance
    dict: the results are computed the ordinary way on a parent (all of them, and each one alone), the parent is
    sliced, the child inspected; a name counts as deleted only if it is gone both times"""
    k = parse_key(sw[1])
    gone = {}
    for group in [list(names)] + [[n] for n in names]:
        obj = st.make()[0]
        for n in group:
            getattr(obj, n)
        child = obj[k]
        for n in group:
            gone[n] = gone.get(n, True) and (n not in child.__dict__)
    return {n: gone.get(n, False) for n in names}


def isolated(st, sw, g):
    """does re-targeting a COPY leave the original alone?  All results are read on an object; a copy is taken
    (a slice for Epochs; copy.copy otherwise) and reset / re-targeted; every byte of the original's instance dict
    (sets and dicts hashed by content) must be as before — the hypothesis of C14_copy_reset_equiv_fresh"""
    import copy
    otps = M.otp_table(st.cls)
    try:
        obj = st.make()[0]
        for n in g.names:
            getattr(obj, n)
        before = {k: M.vhash(v) for k, v in obj.__dict__.items()}
        if sw[0] == "slice":
            c = obj[parse_key(sw[1])]
            c.reset()
        else:
            c = copy.copy(obj)
            c.reset()
            if sw[0] in ("set_input", "assign"):
                c = do_switch(st, c, sw)
        after = {k: M.vhash(v) for k, v in obj.__dict__.items()}
        return before == after
    except Exception:  # noqa
        return False


# ---- reference values computed from the definition, independent of nitime (where that is cheap)
def _x(st, sw):
    # same dtype as the input (complex stays complex, float32 is computed in float32), plain C-ordered copy
    return [np.array(np.asarray(i.data), order='C') for i in M.mk_inputs(st.kind, ref_variant(sw[1]))]


def ref_rtol(ref):
    """tolerance of a definition check: single precision data cannot agree to more than ~1e-4"""
    a = np.asarray(ref)
    return 5e-4 if a.dtype in (np.float32, np.complex64) else 1e-7


def indep_refs(st, sw):
    try:
        return _indep_refs(st, sw)
    except Exception:  # noqa: no definition available for this input (e.g. hilbert of a complex series)
        return {}


def _indep_refs(st, sw):
    fam = st.family
    if fam == "Epochs" and sw[0] == "slice":
        k = parse_key(sw[1])
        idx = np.arange(len(M.EPOCH_START))[k]
        dur = np.array([(i + 1) * 10 ** 11 for i in range(len(M.EPOCH_START))], dtype=np.int64)[k]
        start = np.array([i * 10 ** 12 for i in range(len(M.EPOCH_START))], dtype=np.int64)[k]
        return {"duration": dur, "total": int(np.sum(dur)), "n_long": int(np.sum(dur > 25 * 10 ** 10)),
                "first_start": int(np.atleast_1d(start)[0])}
    if sw[0] not in ("set_input", "assign"):
        return {}
    if fam == "CorrelationAnalyzer":
        return {"corrcoef": np.corrcoef(_x(st, sw)[0])}
    if fam == "NormalizationAnalyzer":
        x = _x(st, sw)[0]
        m = x.mean(-1)[..., None]
        return {"z_score": (x - m) / x.std(-1)[..., None], "percent_change": (x / m - 1) * 100}
    if fam == "HilbertAnalyzer":
        import scipy.signal
        x = _x(st, sw)[0]
        h = scipy.signal.hilbert(x)
        return {"analytic": h, "amplitude": np.abs(h), "real": x, "imag": h.imag, "phase": np.angle(h)}
    return {}


def plain(v):
    import nitime.timeseries as ts
    if isinstance(v, ts.TimeSeriesBase):
        return np.asarray(v.data)
    if isinstance(v, ts.TimeInterface):
        return np.asarray(v).astype(np.int64)
    return v


def fresh_new_values(st, g, sw):
    out, raises = {}, {}
    for n in g.names:
        try:
            out[n] = getattr(new_object(st, sw), n)
        except Exception as e:  # noqa
            raises[n] = type(e).__name__
    return out, raises


def run_case(st, g, sw, h1, h2, fresh_new, refs=None):
    M.Rec.reset()
    obj, _ = st.make()
    res = {"steps": []}
    try:
        for n in h1:
            getattr(obj, n)
        obj = do_switch(st, obj, sw)
    except Exception as e:  # noqa
        res["exc"] = {"at": "switch", "cls": type(e).__name__, "msg": str(e)[:160]}
        res["survivors"] = []
        return res
    res["survivors"] = [n for n in g.names if n in obj.__dict__]
    res["stale_survivors"] = [n for n in res["survivors"]
                              if n in fresh_new and not M.deep_close(obj.__dict__[n], fresh_new[n])]
    for n in h2:
        M.Rec.fired = []
        try:
            v = getattr(obj, n)
        except Exception as e:  # noqa
            res["exc"] = {"at": len(res["steps"]), "name": n, "cls": type(e).__name__, "msg": str(e)[:160]}
            break
        step = {"fired": list(M.Rec.fired), "eq": bool(M.deep_close(v, fresh_new[n]))}
        if refs and n in refs:
            step["def_ok"] = bool(M.deep_close(plain(v), refs[n], rtol=ref_rtol(refs[n]), atol=ref_rtol(refs[n]) * 1e-3))
        res["steps"].append(step)
    return res


def case_histories(ctx, st, g, sw, usable):
    pub = [n for n in M.public_names(g) if n in usable]
    if not pub:
        return []
    perm = list(pub)
    ctx.rng.shuffle(perm)
    small = [n for n in pub if n != "parameterlist"]
    if len(small) <= 4:
        # every subset of the results read before the switch
        import itertools
        before = [list(c) for k in range(len(small) + 1) for c in itertools.combinations(small, k)]
        if len(small) > 1:
            before.append(list(reversed(small)))
    else:
        before = [[]] + [[n] for n in pub] + [perm]
        for _ in range(ctx.scale(4, 12)):
            p = list(pub)
            ctx.rng.shuffle(p)
            before.append(p[:ctx.rng.randint(2, max(2, len(p) - 1))])
    after = [[n] for n in pub] + [list(reversed(perm))]
    if st.heavy or (sw[0] in ("set_input", "assign") and sw[1] in ("big",)):
        before = [[], perm] + [[n] for n in pub[-2:]]
    if not ctx.quick:
        for _ in range(4):
            q = list(pub)
            ctx.rng.shuffle(q)
            after.append(q)
    out = [(a, b) for a in before for b in after]
    lim = ctx.scale(48, 600)
    if len(out) > lim:
        keep = [(a, b) for a, b in out if b == list(reversed(perm))]
        rest = [x for x in out if x not in keep]
        out = keep[:lim] + ctx.rng.sample(rest, max(0, min(len(rest), lim - len(keep))))
    return out


HEADER = ("From Coq Require Import List Arith Bool.\nFrom NT Require Import Lists Memo C14K.\n"
          "Import ListNotations.\n")


def tables_header(tabs):
    s = HEADER
    for i, t in enumerate(tabs):
        g = t["g"]
        s += ("Definition T%d : graph := %s.\nDefinition T%d_prot : list nat := %s.\n"
              "Definition T%d_assigned : list nat := %s.\nDefinition T%d_changed : list nat := %s.\n" % (
                  i, g.coq(), i, g.prot_coq(), i, llit([core.nlit(g.cidx(c)) for c in t["assigned"]]),
                  i, llit([core.nlit(g.cidx(c)) for c in t["changed"]])))
    return s


def case_coq(ti, g, h1, h2, res):
    steps = ["{| p_fired := %s; p_eq := %s |}" % (llit([core.nlit(g.nidx(f)) for f in s["fired"] if f in g.names]),
                                                 blit(s["eq"])) for s in res["steps"]]
    nl = lambda l: llit([core.nlit(g.nidx(n)) for n in l])  # noqa
    return "(T%d, T%d_prot, T%d_assigned, T%d_changed, %s, %s, %s, %s)" % (
        ti, ti, ti, ti, nl(h1), nl(res["survivors"]), nl(h2[:len(res["steps"])]), llit(steps))


def stale_of(t):
    g = t["g"]
    return [c for c in t["changed"] if c not in t["assigned"] and (g.readers(c) or c in g.prot)]


def oracle(t, h1, h2, res):
    st, sw, g = t["st"], t["sw"], t["g"]
    fam = st.family
    stale = stale_of(t)
    exp = EXPECTED_STALE.get(fam, [])
    base = {"entry_point": st.key, "switch": list(sw), "before": h1, "after": h2}

    def tainted(name, seen=()):
        """does the result read, directly or through its dependencies, a stale cell"""
        if name not in g.nodes or name in seen:
            return False
        nd = g.nodes[name]
        return any(c in stale for c in nd["creads"]) or any(tainted(d, seen + (name,)) for d in nd["deps"])

    def key(name):
        # a failure belongs to the recorded init-derived-state finding only when the failing result really reads a
        # recorded stale cell; anything else inside the same class is a new way of not being equal to a fresh analyzer
        if stale and all(c in exp for c in stale) and (name == "switch" or tainted(name)):
            return "C14/%s/%s/init-derived-state" % (sw[0], fam)
        if stale and tainted(name):
            return "C14/%s/%s/stale:%s" % (sw[0], fam, ",".join(c for c in stale if c not in exp))
        return "C14/%s/%s/%s" % (sw[0], fam, name)
    for n in res.get("stale_survivors", []):
        yield Fail("C14/%s/%s/survivor:%s" % (sw[0], fam, n),
                   "%s computed before the switch is still stored after it and differs from a new analyzer's" % n,
                   "stale result survives", "no result computed for the previous input survives", base)
    if "exc" in res:
        e = res["exc"]
        yield Fail(key(e.get("name", "switch")),
                   "after %s, %s raised %s (a newly built analyzer returns a value); __init__-derived state not "
                   "refreshed: %s" % (switch_id(sw), e.get("name", "the switch"), e["cls"], stale),
                   e, "the value a newly built analyzer returns", base)
    for i, s in enumerate(res["steps"]):
        if s.get("def_ok") is False:
            yield Fail("C14/%s/%s/%s/definition" % (sw[0], fam, h2[i]),
                       "after %s (read before: %s), %s differs from its definition computed independently (numpy / "
                       "exact integers) on the new input" % (switch_id(sw), h1, h2[i]),
                       "differs", "the value the definition gives for the new input", base)
        if not s["eq"]:
            yield Fail(key(h2[i]),
                       "after %s (read before: %s), %s differs from the value a newly built analyzer returns; "
                       "__init__-derived state not refreshed: %s" % (switch_id(sw), h1, h2[i], stale),
                       "differs", "equal to the new analyzer's value", base)


# ----------------------------------------------------------------------------- scripts: objects derived from objects
# A script is a list of operations on named objects:  ("read", obj, name) | ("slice", src, key, dst) |
# ("iter", src, prefix) | ("copy", src, dst, "copy"|"deepcopy") | ("reset", obj) | ("switch", obj)
# Every read is compared with a freshly built object for what the object stands for at that moment.
def epoch_fresh(st, idx):
    return st.make(start=np.array(M.EPOCH_START)[idx], duration=np.array(M.EPOCH_DUR)[idx])[0]


def epoch_refs(idx):
    dur = np.array([(i + 1) * 10 ** 11 for i in range(len(M.EPOCH_START))], dtype=np.int64)[idx]
    start = np.array([i * 10 ** 12 for i in range(len(M.EPOCH_START))], dtype=np.int64)[idx]
    return {"duration": dur, "total": int(np.sum(dur)), "n_long": int(np.sum(dur > 25 * 10 ** 10)),
            "first_start": int(np.atleast_1d(start)[0])}


def run_script(st, g, script, sw=None):
    """returns {"reads": [...], "made": [...], "exc": ...}; objects of Epochs settings carry the indices they stand
    for, objects of analyzer settings carry 'old' / 'new' (which input they are on)"""
    import copy
    is_ep = st.family == "Epochs"
    M.Rec.reset()
    objs, what, nreads = {}, {}, {}
    objs["P"] = st.make()[0]
    what["P"] = np.arange(len(M.EPOCH_START)) if is_ep else "old"
    nreads["P"] = []
    res = {"reads": [], "made": []}
    cache = {}

    def expected(w, name):
        k = repr(w.tolist() if hasattr(w, "tolist") else w)
        if k not in cache:
            if is_ep:
                cache[k] = (epoch_fresh(st, w), epoch_refs(w))
            elif w == "old":
                cache[k] = (st.make()[0], {})
            else:
                cache[k] = (new_object(st, sw), indep_refs(st, sw))
        return getattr(cache[k][0], name), cache[k][1]

    try:
        for op in script:
            if op[0] == "read":
                _, o, name = op
                M.Rec.fired = []
                v = getattr(objs[o], name)
                fired = list(M.Rec.fired)
                want, refs = expected(what[o], name)
                r = {"obj": o, "name": name, "fired": fired, "eq": bool(M.deep_close(v, want)),
                     "seq": len(res["reads"]) + len(res["made"])}
                if name in refs:
                    r["def_ok"] = bool(M.deep_close(plain(v), refs[name], rtol=ref_rtol(refs[name]), atol=ref_rtol(refs[name]) * 1e-3))
                if is_ep and name == "duration":
                    r["len_ok"] = np.shape(np.asarray(v)) == np.shape(np.asarray(objs[o].data))
                res["reads"].append(r)
                nreads[o].append(name)
            elif op[0] == "slice":
                _, src, key, dst = op
                n = len(np.atleast_1d(what[src]))
                k = parse_key(key, n)
                objs[dst] = objs[src][k]
                what[dst] = np.asarray(what[src])[k]
                nreads[dst] = []
                res["made"].append({"seq": len(res["reads"]) + len(res["made"]), "obj": dst, "src": src, "how": "slice:" + key, "src_reads": list(nreads[src]),
                                    "survivors": [x for x in g.names if x in objs[dst].__dict__]})
            elif op[0] == "iter":
                _, src, prefix = op
                for i, e in enumerate(objs[src]):
                    d = "%s%d" % (prefix, i)
                    objs[d], what[d], nreads[d] = e, np.asarray(what[src])[i], []
                    res["made"].append({"seq": len(res["reads"]) + len(res["made"]), "obj": d, "src": src, "how": "iter", "src_reads": list(nreads[src]),
                                        "survivors": [x for x in g.names if x in e.__dict__]})
            elif op[0] == "copy":
                _, src, dst, kind = op
                objs[dst] = copy.copy(objs[src]) if kind == "copy" else copy.deepcopy(objs[src])
                what[dst] = what[src]
                nreads[dst] = list(nreads[src])
            elif op[0] == "reset":
                objs[op[1]].reset()
                res["made"].append({"seq": len(res["reads"]) + len(res["made"]), "obj": op[1], "src": op[1], "how": "reset", "src_reads": list(nreads[op[1]]),
                                    "survivors": [x for x in g.names if x in objs[op[1]].__dict__]})
                nreads[op[1]] = []
            elif op[0] == "switch":
                o = op[1]
                objs[o] = do_switch(st, objs[o], sw)
                what[o] = "new"
                res["made"].append({"seq": len(res["reads"]) + len(res["made"]), "obj": o, "src": o, "how": switch_id(sw), "src_reads": list(nreads[o]),
                                    "survivors": [x for x in g.names if x in objs[o].__dict__]})
                nreads[o] = []
    except Exception as e:  # noqa
        res["exc"] = {"op": list(op), "cls": type(e).__name__, "msg": str(e)[:160]}
    return res


def script_oracle(st, script, res, sw=None):
    fam = st.family
    base = {"entry_point": st.key, "script": [list(o) for o in script], "switch": switch_id(sw) if sw else None}
    if "exc" in res:
        e = res["exc"]
        yield Fail("C14/script/%s/%s" % (fam, e["op"][0]), "operation %s of the script raised %s: %s" % (e["op"], e["cls"], e["msg"]),
                   e, "a value, as on a freshly built object", base)
    for r in res["reads"]:
        if not r["eq"] or r.get("def_ok") is False or r.get("len_ok") is False:
            yield Fail("C14/script/%s/%s" % (fam, r["name"]),
                       "%s.%s differs from a freshly built object%s (objects derived by slicing / iterating / copying, "
                       "see script)" % (r["obj"], r["name"],
                                        "" if r.get("len_ok", True) else "; len(duration) != len(object)"),
                       r, "equal to the freshly built object's value", base)


def script_cases_coq(ti, g, res):
    """one K case per derived object: what was read on its source before it was made, what was still stored in it
    when it was made, what was read on it"""
    out = []
    made = {}
    for m in res["made"]:
        made[m["obj"]] = m          # the last making of an object (reset / switch re-make it)
    for o, m in made.items():
        # the reads that happened on it after its (last) making
        mine = [r for r in res["reads"] if r["obj"] == o and r["seq"] > m["seq"]]
        steps = []
        h2 = []
        for r in mine:
            h2.append(r["name"])
            steps.append("{| p_fired := %s; p_eq := %s |}" % (
                llit([core.nlit(g.nidx(f)) for f in r["fired"] if f in g.names]), blit(r["eq"])))
        nl = lambda l: llit([core.nlit(g.nidx(n)) for n in l if n in g.names])  # noqa
        out.append("(T%d, T%d_prot, T%d_assigned, T%d_changed, %s, %s, %s, %s)" % (
            ti, ti, ti, ti, nl(m["src_reads"]), nl(m["survivors"]), nl(h2), llit(steps)))
    return out


def epoch_scripts(ctx, st, g, deep=False):
    names = M.public_names(g)
    rd = lambda o, ns: [("read", o, n) for n in ns]  # noqa
    import itertools
    subs = [list(c) for k in range(len(names) + 1) for c in itertools.combinations(names, k)]
    if len(subs) > 6:
        subs = [[], names[:1], names[-1:], names] + ctx.rng.sample(subs, 2)
    out = []
    for S in subs:
        for k1, k2 in [("1:3", "6:"), ("L8,2,4", "2"), ("2", "M3,1"), ("3:9:2", "1:3")]:
            # two slices of one parent, the first one read late
            out.append(rd("P", S) + [("slice", "P", k1, "A"), ("slice", "P", k2, "B")] + rd("B", names) + rd("A", names)
                       + rd("P", names))
        out.append(rd("P", S) + [("slice", "P", "6:", "A")] + rd("A", names[:1]) + [("slice", "P", "1:3", "B"),
                   ("slice", "P", "2", "C")] + rd("C", names) + rd("B", names) + rd("A", names))
        for k1, k2 in [("3:9:2", "1:3"), ("L8,2,4,7", "L2,0"), ("6:", "0"), ("1:", "M3,1")]:
            # a slice of a slice, with and without reading in between
            out.append(rd("P", S) + [("slice", "P", k1, "A")] + rd("A", S) + [("slice", "A", k2, "B")] + rd("B", names)
                       + rd("A", names))
            out.append(rd("P", S) + [("slice", "P", k1, "A"), ("slice", "A", k2, "B"), ("slice", "A", k2, "C")]
                       + rd("C", names) + rd("B", names))
        out.append(rd("P", S) + [("iter", "P", "K")] + rd("K3", names) + rd("K0", names) + rd("K9", names) + rd("P", names))
        for kind in ("copy", "deepcopy"):
            out.append(rd("P", S) + [("copy", "P", "Q", kind), ("slice", "Q", "1:3", "A"), ("slice", "P", "6:", "B")]
                       + rd("A", names) + rd("B", names) + [("reset", "Q")] + rd("Q", names) + rd("P", names))
            out.append(rd("P", S) + [("copy", "P", "Q", kind), ("reset", "P")] + rd("Q", names) + rd("P", names)
                       + [("slice", "Q", "L8,2,4", "A")] + rd("A", names))
    # random scripts
    keys = ["1:3", "3:9:2", "6:", "L8,2,4", "M3,1", "2", "1:", ":4"]
    for _ in range(ctx.scale(12, 80) * (6 if deep else 1)):
        pool = {"P": 10}
        sc = []
        for j in range(ctx.rng.randint(4, 10)):
            o = ctx.rng.choice(sorted(pool))
            a = ctx.rng.random()
            if a < 0.4:
                sc.append(("read", o, ctx.rng.choice(names)))
            elif a < 0.8 and pool[o] >= 4:
                k = ctx.rng.choice(keys if pool[o] >= 9 else ["1:3", "1:", ":3", "L2,0", "M2,1", "1"])
                n = len(np.atleast_1d(np.arange(pool[o])[parse_key(k, pool[o])])) if not k.isdigit() else 0
                d = "D%d" % j
                sc.append(("slice", o, k, d))
                pool[d] = n
            elif a < 0.9:
                d = "C%d" % j
                sc.append(("copy", o, d, ctx.rng.choice(["copy", "deepcopy"])))
                pool[d] = pool[o]
            else:
                sc.append(("reset", o))
        for o in sorted(pool):
            sc += rd(o, names)
        out.append(sc)
    return out


def copy_scripts(ctx, st, g, usable):
    names = [n for n in M.public_names(g) if n in usable]
    rd = lambda o, ns: [("read", o, n) for n in ns]  # noqa
    out = []
    subs = [[], names[-1:], names]
    for S in subs:
        for kind in ("copy", "deepcopy"):
            # the copy is re-targeted, the original must stay what it was — and the other way round
            out.append(rd("P", S) + [("copy", "P", "B", kind), ("switch", "B")] + rd("B", names) + rd("P", names))
            out.append(rd("P", S) + [("copy", "P", "B", kind), ("switch", "P")] + rd("B", names) + rd("P", names))
            out.append(rd("P", S) + [("copy", "P", "B", kind), ("reset", "B")] + rd("P", names) + rd("B", names))
    return out


COPY_SETTINGS = {"CorrelationAnalyzer": ("set_input", "len"), "NormalizationAnalyzer": ("set_input", "same"),
                 "HilbertAnalyzer": ("assign", "len"), "UserCorrelationAnalyzer": ("set_input", "same"),
                 "SpectralAnalyzer/default": ("set_input", "rate"), "CoherenceAnalyzer/pinned": ("set_input", "rate"),
                 "UserUserNormalizationAnalyzer": ("set_input", "same"), "FilterAnalyzer/band": ("param", "lb", 0.3)}


def build_tables(ctx):
    M.process_prelude()
    tabs = []
    graphs = {}
    for st in M.settings():
        if not st.retarget:
            continue
        if st.key not in graphs:
            graphs[st.key] = M.build_graph(st)
        for sw in st.retarget:
            g = graphs[st.key]
            # a private copy of the cell table per switch keeps indices stable
            gg = M.Graph()
            gg.names, gg.cells, gg.prot, gg.raises = g.names, list(g.cells), g.prot, g.raises
            gg.nodes = {n: dict(nd) for n, nd in g.nodes.items()}
            if sw[0] == "slice":
                for n, d in slice_deletes(st, sw, g.names).items():
                    gg.nodes[n]["resets"] = d
            t = {"st": st, "sw": sw, "g": gg, "assigned": assigned_cells(sw)}
            t["isolated"] = isolated(st, sw, gg) if hasattr(st.cls, "reset") else True
            try:
                t["changed"] = changed_cells(st, gg, sw)
            except Exception as e:  # noqa
                ctx.notes.append("%s %s: cannot build the new analyzer: %s" % (st.key, switch_id(sw), e))
                continue
            for c in t["assigned"] + t["changed"]:
                gg.cidx(c)
            tabs.append(t)
    return tabs


def gen_source(tabs):
    blocks, lemmas = [], []
    for i, t in enumerate(tabs):
        st, g = t["st"], t["g"]
        exp_e = g.edges_coq(M.expected_edges(st, g))
        exp_s = llit([core.nlit(g.cidx(c)) for c in EXPECTED_STALE.get(st.family, [])])
        blocks.append("Lemma tables_ok_%d : tables_ok_iso %s (tables_ok T%d T%d_prot T%d_assigned T%d_changed %s %s) = true.\n"
                      "Proof. vm_compute. reflexivity. Qed.\n" % (i, blit(t["isolated"]), i, i, i, i, exp_e, exp_s))
        lemmas.append("tables_ok_%d (%s %s)" % (i, st.key, switch_id(t["sw"])))
    return tables_header(tabs), blocks, lemmas


def corpus_cases(key, swid):
    out = []
    p = core.VERIF / "harness" / "corpus" / "C14"
    if p.exists():
        for f in sorted(p.glob("*.json")):
            d = json.loads(f.read_text())
            for c in d.get("cases", []):
                if c["setting"] == key and c["switch"] == swid:
                    out.append((c["before"], c["after"]))
    return out


def run(ctx):
    core.import_nitime()
    ctx.check_props()
    tabs = build_tables(ctx)
    hdr0, blocks, lemmas = gen_source(tabs)
    M.check_gen_lemmas(ctx, "G_tables", hdr0, blocks, lemmas)
    ctx.extra["tables"] = {"%s %s" % (t["st"].key, switch_id(t["sw"])): {
        "reset_deletes": [n for n in t["g"].names if t["g"].nodes[n]["resets"]],
        "reset_keeps": [n for n in t["g"].names if not t["g"].nodes[n]["resets"]],
        "assigned": t["assigned"], "changed": t["changed"], "stale": stale_of(t)} for t in tabs}
    cases = []
    for ti, t in enumerate(tabs):
        st, sw, g = t["st"], t["sw"], t["g"]
        fresh_new, raises = fresh_new_values(st, g, sw)
        usable = set(fresh_new)
        hs = [(a, b) for a, b in corpus_cases(st.key, switch_id(sw))
              if all(n in usable for n in a + b)] + case_histories(ctx, st, g, sw, usable)
        refs = indep_refs(st, sw)
        for h1, h2 in hs:
            res = run_case(st, g, sw, h1, h2, fresh_new, refs)
            c = Case(case_coq(ti, g, h1, h2, res),
                     {"setting": st.key, "switch": switch_id(sw), "before": h1, "after": h2, "observed": res},
                     "%s/%s" % (st.family, switch_id(sw)), nontrivial=bool(h1))
            c.t, c.h1, c.h2, c.res = t, h1, h2, res
            cases.append(c)
    # ---- objects derived from objects: several slices / iteration / slices of slices of one Epochs object with late
    # reads, copy.copy / deepcopy of Epochs and of analyzers followed by reset / re-targeting of one of the two.
    # When a table lemma is already broken (the reset mechanism changed shape) the random part is six times larger.
    deep = bool(ctx.broken)
    scases = []
    for ti, t in enumerate(tabs):
        st, sw, g = t["st"], t["sw"], t["g"]
        if st.family == "Epochs":
            if sw != st.retarget[0]:
                continue
            scripts = [(sc, None) for sc in epoch_scripts(ctx, st, g, deep)]
        elif COPY_SETTINGS.get(st.key) == tuple(sw):
            fresh_new, _ = fresh_new_values(st, g, sw)
            scripts = [(sc, sw) for sc in copy_scripts(ctx, st, g, set(fresh_new))]
        else:
            continue
        for sc, ssw in scripts:
            res = run_script(st, g, sc, ssw)
            coqs = script_cases_coq(ti, g, res)
            for j, cq in enumerate(coqs or ["(T%d, T%d_prot, T%d_assigned, T%d_changed, [], [], [], [])" % (ti, ti, ti, ti)]):
                c = Case(cq, {"setting": st.key, "switch": switch_id(ssw) if ssw else None, "script": [list(o) for o in sc],
                              "observed": res if j == 0 else "see first case of this script"},
                         "%s/script" % st.family, nontrivial=True)
                c.t, c.sc, c.ssw, c.res, c.first = t, sc, ssw, res, j == 0
                scases.append(c)
    ctx.extra["scripts_run"] = sum(1 for c in scases if c.first)
    kbad = ctx.check_cases("K", tables_header(tabs), cases, "check", shard=400, case_type="case")
    sbad = ctx.check_cases("KS", tables_header(tabs), scases, "check", shard=400, case_type="case")
    known = [k["key"] for k in ctx.findings.get("known", [])]
    reported = set()
    for i, c in enumerate(scases):
        if not c.first:
            continue
        for f in script_oracle(c.t["st"], c.sc, c.res, c.ssw):
            f.replay = dict(f.replay or {}, model_disagrees=(i in sbad))
            tag = (f.key, c.t["st"].key)
            if tag in reported:
                continue
            reported.add(tag)
            ctx.report_fail(f, c)
    for i, c in enumerate(cases):
        for f in oracle(c.t, c.h1, c.h2, c.res):
            f.replay = dict(f.replay or {}, model_disagrees=(i in kbad))
            tag = (f.key, c.t["st"].key, switch_id(c.t["sw"]))
            if tag in reported and f.key not in known:
                continue
            reported.add(tag)
            ctx.report_fail(f, c)
    ctx.extra["model_impl_disagreements"] = len(kbad)
    ctx.extra["rule"] = ("per class x switch (%d): histories read* ; switch ; read* with the part before the switch empty, "
                         "each single result, a full permutation (thorough: more prefixes) and the part after it each single "
                         "result or a full permutation; non-trivial = something was read before the switch; distinct by hash "
                         "of the Coq term" % len(tabs))
    return ctx.finish(
        trusted=["tables (effect graph, names reset deletes, changed / assigned cells) are observed dynamically on the "
                 "classes x switches x inputs listed in the evidence",
                 "values are compared by structure with rtol 1e-9"],
        assumptions=["FilterAnalyzer and EventRelatedAnalyzer offer reset() but no set_input: only reset + parameter change "
                     "is checked for them; SeedCoherenceAnalyzer / SeedCorrelationAnalyzer offer neither",
                     "results whose getter raises on the new input are left out of the histories"])


def replay(ctx, path):
    core.import_nitime()
    d = json.loads(open(path).read())
    c = d.get("case") or d
    if "script" in c:
        st = [x for x in M.settings() if x.key == c["setting"]][0]
        M.process_prelude()
        g = M.build_graph(st)
        sw = None
        if c.get("switch"):
            sw = [x for x in st.retarget if switch_id(x) == c["switch"]][0]
        sc = [tuple(o) for o in c["script"]]
        res = run_script(st, g, sc, sw)
        fails = list(script_oracle(st, sc, res, sw))
        print(json.dumps({"setting": c["setting"], "script": c["script"], "observed": res,
                          "fails": [[f.key, f.what] for f in fails]}, indent=1, default=str))
        return 1 if fails else 0
    tabs = [t for t in build_tables(ctx) if t["st"].key == c["setting"] and switch_id(t["sw"]) == c["switch"]]
    t = tabs[0]
    fresh_new, _ = fresh_new_values(t["st"], t["g"], t["sw"])
    res = run_case(t["st"], t["g"], t["sw"], c["before"], c["after"], fresh_new, indep_refs(t["st"], t["sw"]))
    fails = list(oracle(t, c["before"], c["after"], res))
    print(json.dumps({"setting": c["setting"], "switch": c["switch"], "before": c["before"], "after": c["after"],
                      "observed": res, "fails": [[f.key, f.what] for f in fails]}, indent=1, default=str))
    known = [k["key"] for k in ctx.findings.get("known", [])]
    return 1 if fails else 0
