"""C19 — event-related estimators recover the true response of a noise-free linear system.

P: coq/Props/C19.v (theorems over Model/EventRelated.v, all sizes / placements)
K: seeded designs with planted dyadic responses (and noise-only data); every call of
   utils.fir_design_matrix / EventRelatedAnalyzer.FIR / .eta / .ets / .et_data (event-coded series and
   Events input) is evaluated by the Coq kernel on the model and compared with what the implementation
   returned (design matrices, shapes, error classes, t0/interval exactly; floats with tolerance).
   scipy.linalg.pinv is the library oracle: its (input, output) pairs are recorded while the
   implementation runs, the model's Gram matrix must equal a recorded input exactly.
oracle (search): planted response vs output, ordering by sorted code, zero standard error,
   coded-series vs event-time input, linearity in the data, t0 = offset * interval.
"""
import json
from fractions import Fraction

import numpy as np

from vt import core
from vt.core import Case, Fail, zlit, nlit, flit, blit, llit, zlist, flist

HEADER = ("From Coq Require Import ZArith QArith List Bool PrimFloat.\n"
          "From NT Require Import F2Z Lists Close EventRelated C19K.\nImport ListNotations.\nOpen Scope Z_scope.\n")

TOL = 1e-8
DTS = [(1.0, "s"), (2.0, "s"), (0.5, "s"), (0.81327, "s"), (1.0 / 3, "s"), (3.0, "ms"), (2.2, "m"), (0.1, "s"),
       (7.0, "s"), (250.0, "us"), (0.72, "s"), (1.1, "s"), (2.5, "ms"), (0.01, "s")]


# ------------------------------------------------------------------ literals
def fl2(rows):
    return llit([flist(r) for r in rows])


def zl2(rows):
    return llit([zlist(r) for r in rows])


def ev_coq(ev, ev2d):
    return "(Ev2 %s)" % zl2(ev) if ev2d else "(Ev1 %s)" % zlist(ev)


def out_coq(o):
    t = o["t"]
    if t == "arr":
        return "(OutArr %s %s %s %s)" % (llit([nlit(d) for d in o["shape"]]), flist([float.fromhex(x) for x in o["vals"]]),
                                         zlit(o["t0"]), zlit(o["dt"]))
    if t == "et":
        return "(OutEt %s)" % llit([llit(["(%s, %s, %s)" % (fl2([[float.fromhex(x) for x in s] for s in it["segs"]]),
                                                             zlit(it["t0"]), zlit(it["dt"])) for it in ch])
                                    for ch in o["items"]])
    if t == "err" and o["e"] in ("ValueError", "IndexError"):
        return "(OutErr %s)" % o["e"]
    return "OutOther"


def hexs(a):
    return [float(x).hex() for x in np.asarray(a, dtype=float).ravel()]


def unhex(l):
    return [float.fromhex(x) for x in l]


# ------------------------------------------------------------------ running the implementation
class PinvRecorder:
    def __enter__(self):
        import scipy.linalg
        self.mod = scipy.linalg
        self.orig = scipy.linalg.pinv
        self.calls = []

        def wrapped(a, *args, **kw):
            r = self.orig(a, *args, **kw)
            try:
                self.calls.append((np.array(a, dtype=float), np.array(r, dtype=float)))
            except Exception:  # noqa
                pass
            return r
        scipy.linalg.pinv = wrapped
        return self

    def __exit__(self, *a):
        self.mod.pinv = self.orig


def ref_design(ev, L):
    """independent statement of the documented design matrix (used only when no pinv call could be
    recorded): sorted distinct non-zero codes, one block of L columns per code, sign(code) on the
    diagonals starting at each occurrence"""
    ev = list(ev)
    types = sorted(set(c for c in ev if c != 0))
    X = np.zeros((len(ev), L * len(types)))
    for b, t in enumerate(types):
        for i, c in enumerate(ev):
            if c == t:
                for k in range(L):
                    if i + k < len(ev):
                        X[i + k, b * L + k] += np.sign(t)
    return X


RATES = [3.0, 7.0, 100.0, 1.0 / 0.81327, 0.5, 1000.0 / 2.5, 1.0 / 0.72, 1.0 / 1.1]


def series_kw(d):
    """how the series (and the coded events) are constructed: by sampling interval or by sampling rate"""
    v = d.get("variant", {})
    if v.get("ts_by") == "rate":
        kw = dict(sampling_rate=d["rate"], time_unit=d["unit"])
    else:
        kw = dict(sampling_interval=d["dt"], time_unit=d["unit"])
    if d.get("t0_in"):
        kw["t0"] = d["t0_in"]
    return kw


def build_inputs(d):
    """implementation objects of a case; `variant` selects alternative but equivalent input forms
    (memory layout / dtype of the data, construction by rate, event times as float seconds, ...)"""
    import nitime.timeseries as ts
    v = d.get("variant", {})
    data = np.array([unhex(r) for r in d["data"]], dtype=float)
    lay = v.get("layout", "C")
    if lay == "F":
        data = np.asfortranarray(data)
    elif lay == "strided":
        big = np.full((data.shape[0], 2 * data.shape[1] + 1), 7.25)
        big[:, 1::2] = data
        data = big[:, 1::2]
    elif lay == "int":
        data = data.astype(np.int64)
    elif lay == "derived":
        data = (data + 0).view(np.ndarray)[:, ::-1][:, ::-1]
    if d["is1d"]:
        data = data[0]
    kw = series_kw(d)
    T = ts.TimeSeries(data, **kw)
    if d["kind"] in ("eta_ev", "ets_ev"):
        tps = np.array(d["times_ps"], dtype=np.int64)
        if v.get("ev_form") == "sec_float":
            E = ts.Events(tps / 1e12, time_unit="s")
        elif v.get("ev_form") == "timearray":
            E = ts.Events(ts.TimeArray(tps, time_unit="ps"))
        else:
            E = ts.Events(tps, time_unit="ps")
    else:
        ev = np.array(d["events"], dtype=float if v.get("ev_dtype") == "float" else int)
        if v.get("ev_dtype") == "F" and ev.ndim == 2:
            ev = np.asfortranarray(ev)
        E = ts.TimeSeries(ev, **kw)
    return T, E


def make_analyzer(d, T, E):
    from nitime.analysis import EventRelatedAnalyzer
    v = d.get("variant", {})
    L, off = d["len"], d["offset"]
    if v.get("len_as") == "float" and d["kind"] not in ("eta_ev", "ets_ev"):
        # a fractional len_et is truncated (the baseline test passes one with coded events); with an Events object
        # __init__ sizes an unused array with abs(len_et) and raises TypeError - documented type is int, not used here
        L = L + 0.5
    elif v.get("len_as") == "npint":
        L = np.int64(L)
    if v.get("off_as") == "npint":
        off = np.int64(off)
    zs, bc = d.get("zs", False), d.get("bc", False)
    if v.get("call") == "pos":
        return EventRelatedAnalyzer(T, E, L, zs, bc, off)
    return EventRelatedAnalyzer(time_series=T, events=E, len_et=L, zscore=zs, correct_baseline=bc, offset=off)


def observe_arr(r):
    a = np.asarray(r.data)
    if np.iscomplexobj(a):
        if np.any(np.nan_to_num(a.imag) != 0):
            return {"t": "other", "what": "complex result with non-zero imaginary part"}
        a = a.real
    return {"t": "arr", "shape": [int(x) for x in a.shape], "vals": hexs(a),
            "t0": int(np.asarray(r.t0)), "dt": int(np.asarray(r.sampling_interval)), "unit": r.time_unit}


def observe_et(r):
    return {"t": "et", "items": [[{"segs": [hexs(s) for s in np.atleast_2d(np.asarray(it.data, dtype=float))],
                                   "t0": int(np.asarray(it.t0)), "dt": int(np.asarray(it.sampling_interval))}
                                  for it in ch] for ch in r]}


def observe_attr(attr, r):
    if attr == "xcorr_eta":
        return {"t": "unjudged"}
    return observe_et(r) if attr == "et_data" else observe_arr(r)


def run_sequence(d):
    """ONE analyzer object; the attributes named in d['seq']['order'] are read in that order.  Every result is
    observed three times: when it is read ('at_read'), after all the others were read - the very object handed
    out earlier ('at_end') - and by reading the attribute again at the end ('reread')."""
    order = d["seq"]["order"]
    T, E = build_inputs(d)
    dt_ps = int(np.asarray(T.sampling_interval))
    if d["kind"] in ("eta_ev", "ets_ev"):
        d["times_obs"] = [int(x) for x in np.asarray(E.time).ravel()]
    a = make_analyzer(d, T, E)
    recs, held = [], []
    for attr in order:
        calls, r = [], None
        try:
            if attr == "FIR":
                with PinvRecorder() as rec:
                    r = a.FIR
                calls = rec.calls
            else:
                r = getattr(a, attr)
            obs = observe_attr(attr, r)
        except Exception as e:  # noqa
            obs = {"t": "err", "e": type(e).__name__, "msg": str(e)[:100]}
        recs.append({"attr": attr, "at_read": obs, "calls": calls})
        held.append(r)
    for rec, r in zip(recs, held):
        try:
            rec["at_end"] = observe_attr(rec["attr"], r) if r is not None else rec["at_read"]
        except Exception as e:  # noqa
            rec["at_end"] = {"t": "err", "e": type(e).__name__, "msg": str(e)[:100]}
        try:
            rec["reread"] = observe_attr(rec["attr"], getattr(a, rec["attr"])) if r is not None else rec["at_read"]
        except Exception as e:  # noqa
            rec["reread"] = {"t": "err", "e": type(e).__name__, "msg": str(e)[:100]}
    return recs, dt_ps


def run_case(d):
    """run the described call on the implementation; returns (observed, dt_ps, pinv calls)"""
    import nitime.utils as tsu
    calls = []
    dt_ps = None
    if d.get("seq"):
        try:
            recs, dt_ps = run_sequence(d)
        except Exception as e:  # noqa  (constructor refused the input)
            return {"t": "err", "e": type(e).__name__, "msg": str(e)[:100]}, series_dt_ps_safe(d), []
        rec = recs[d["seq"]["step"]]
        return rec[d["seq"]["when"]], dt_ps, rec["calls"]
    try:
        if d["kind"] == "design":
            X = tsu.fir_design_matrix(np.array(d["events"], dtype=float), d["len"])
            if not np.all(X == np.round(X)):
                return {"t": "other", "what": "non-integer design"}, None, []
            return {"t": "design", "cols": [[int(v) for v in c] for c in X.T]}, None, []
        T, E = build_inputs(d)
        dt_ps = int(np.asarray(T.sampling_interval))
        if d["kind"] in ("eta_ev", "ets_ev"):
            # the event times the implementation actually holds (ps); a float form may round differently
            d["times_obs"] = [int(x) for x in np.asarray(E.time).ravel()]
        a = make_analyzer(d, T, E)
        k = d["kind"]
        if k == "fir":
            with PinvRecorder() as rec:
                r = a.FIR
            calls = rec.calls
            o = observe_arr(r)
        elif k in ("eta", "eta_ev"):
            o = observe_arr(a.eta)
        elif k in ("ets", "ets_ev"):
            o = observe_arr(a.ets)
        elif k == "et_data":
            o = observe_et(a.et_data)
        else:
            raise KeyError(k)
    except Exception as e:  # noqa
        return {"t": "err", "e": type(e).__name__, "msg": str(e)[:100]}, dt_ps, calls
    return o, dt_ps, calls


def pinv_calls_coq(d, calls):
    """recorded (G, pinv G) pairs; when nothing was recorded (the implementation no longer calls
    scipy.linalg.pinv) compute them from the documented design matrix"""
    import scipy.linalg
    pairs = []
    for G, P in calls:
        if G.ndim == 2 and np.all(G == np.round(G)):
            pairs.append((G, P))
    src = "recorded"
    if not pairs:
        src = "recomputed"
        evs = d["events"] if d["ev2d"] else [d["events"]]
        off, L = d["offset"], d["len"]
        for ev in evs:
            if off < 0:
                continue
            evp = np.concatenate([np.zeros(off), np.array(ev, dtype=float), np.zeros(L)])
            X = ref_design(np.roll(evp, off), L)
            G = X.T @ X
            pairs.append((G, scipy.linalg.pinv(G)))
    uniq = []
    for G, P in pairs:
        if not any(G.shape == g.shape and np.array_equal(G, g) for g, _ in uniq):
            uniq.append((G, P))
    return llit(["(%s, %s)" % (zl2([[int(v) for v in row] for row in G]), fl2(P)) for G, P in uniq]), src, uniq


def case_coq(d, o, dt_ps, calls):
    k = d["kind"]
    if k == "design":
        if o["t"] == "design":
            out = "(Some %s)" % zl2(o["cols"])
        elif o["t"] == "err" and o["e"] == "ValueError":
            out = "None"
        else:
            return None
        return "(KDesign %s %s %s)" % (zlist(d["events"]), nlit(d["len"]), out)
    if dt_ps is None:
        return None
    data = fl2([unhex(r) for r in d["data"]])
    common = "%s %s %s" % (nlit(d["len"]), zlit(d["offset"]), zlit(dt_ps))
    flags = "%s %s" % (blit(d.get("bc", False)), blit(d.get("zs", False)))
    oc = out_coq(o)
    if k == "fir":
        tab, src, uniq = pinv_calls_coq(d, calls)
        d["pinv_source"] = src
        if "exact" in d.get("claims", []):
            # contract of the library oracle on the full-rank designs used: pinv(G) G = I
            d["pinv_contract_ok"] = bool(all(np.allclose(P @ G, np.eye(G.shape[0]), atol=1e-8) for G, P in uniq))
        return "(KFIR %s %s %s %s %s)" % (data, ev_coq(d["events"], d["ev2d"]), common, tab, oc)
    if k == "eta":
        return "(KEta %s %s %s %s %s)" % (data, ev_coq(d["events"], d["ev2d"]), common, flags, oc)
    if k == "ets":
        return "(KEts %s %s %s %s %s)" % (data, ev_coq(d["events"], d["ev2d"]), common, flags, oc)
    if k == "et_data":
        return "(KEtData %s %s %s %s)" % (data, ev_coq(d["events"], d["ev2d"]), common, oc)
    if k == "eta_ev":
        return "(KEtaEv %s %s %s %s %s)" % (data, zlist(d.get("times_obs", d["times_ps"])), common, flags, oc)
    if k == "ets_ev":
        return "(KEtsEv %s %s %s %s %s)" % (data, zlist(d.get("times_obs", d["times_ps"])), common, flags, oc)
    raise KeyError(k)


# ------------------------------------------------------------------ exact oracle (the search)
def squeeze_shape(sh):
    return [x for x in sh if x != 1]


def chan_events(d, ch):
    return d["events"][ch] if d["ev2d"] else d["events"]


def planted_rows(d, bc=False):
    """expected [channel][type in sorted code order] -> list of Fractions, from the planted truth"""
    pl = d["planted"]
    rows = []
    for ch in range(len(d["data"])):
        ev = chan_events(d, ch) if d["kind"] not in ("eta_ev", "ets_ev") else None
        codes = sorted(set(c for c in ev if c != 0)) if ev is not None else [pl["codes"][0]]
        r = []
        for c in codes:
            h = [Fraction(float.fromhex(x)) for x in pl["resp"][ch][str(c)]]
            if bc:
                h = [x - h[0] for x in h]
            r.append(h)
        rows.append(r)
    return rows


def data_scale(d):
    """max |data| of the case: every tolerance of the oracle is relative to it"""
    return Fraction(max((abs(float.fromhex(x)) for r in d.get("data", []) for x in r), default=0.0))


def close(a, b, sc=Fraction(1)):
    return abs(a - b) <= Fraction(TOL) * sc


def definition_rows(d, dt_ps):
    """event-triggered average and squared standard error straight from their definitions (Fractions on the
    input data; nothing of nitime is used): [channel][type] -> (eta list, sem^2 list or None).
    None when a window leaves the series (then the property demands nothing)."""
    L, off = d["len"], d["offset"]
    bc = d.get("bc", False)
    out = []
    for ch, row in enumerate(d["data"]):
        y = [Fraction(float.fromhex(x)) for x in row]
        n = len(y)
        if d["kind"] in ("eta_ev", "ets_ev"):
            tobs = d.get("times_obs", d["times_ps"])
            groups = [[int(Fraction(t, dt_ps)) for t in tobs]]       # int() truncates toward zero
        else:
            ev = chan_events(d, ch)
            groups = [[i for i, c in enumerate(ev) if c == t] for t in sorted(set(c for c in ev if c != 0))]
        r = []
        for idxs in groups:
            if not idxs or any(not (0 <= i + off and i + off + L <= n) for i in idxs):
                return None
            segs = [[y[i + off + k] for k in range(L)] for i in idxs]
            if bc:
                segs = [[x - sg[0] for x in sg] for sg in segs]
            m = len(segs)
            eta = [sum(sg[k] for sg in segs) / m for k in range(L)]
            sem2 = None if m < 2 else [sum((sg[k] - eta[k]) ** 2 for sg in segs) / (m * (m - 1)) for k in range(L)]
            r.append((eta, sem2))
        out.append(r)
    return out


def oracle_definition(d, o, dt_ps, key, sc):
    """eta / ets against the definition, for any data (planted or not) whose windows lie inside the series"""
    if d["kind"] not in ("eta", "ets", "eta_ev", "ets_ev") or o.get("t") != "arr" or not dt_ps:
        return None
    if d["kind"] in ("eta_ev", "ets_ev") and d.get("t0_in"):
        return None
    rows = definition_rows(d, dt_ps)
    if rows is None or len(set(len(r) for r in rows)) != 1:
        return None
    vals = unhex(o["vals"])
    L = d["len"]
    flat = [(ch, ti, k) for ch in range(len(rows)) for ti in range(len(rows[ch])) for k in range(L)]
    if len(flat) != len(vals):
        return Fail(key + "/definition", "size of the result", len(vals), len(flat))
    is_ets = d["kind"] in ("ets", "ets_ev")
    for (ch, ti, k), v in zip(flat, vals):
        eta, sem2 = rows[ch][ti]
        if is_ets:
            if sem2 is None:
                continue
            bad = not (v == v) or v < 0
            if not bad:
                diff = abs(Fraction(v) ** 2 - sem2[k])
                bad = diff > Fraction(TOL) ** 2 * sc * sc and diff > Fraction(1, 10 ** 9) * sem2[k]
            if bad:
                return Fail(key + "/definition", "standard error differs from sqrt(var/n) of the event-triggered windows "
                            "(channel %d, type index %d, lag index %d)" % (ch, ti, k), v, float(sem2[k]) ** 0.5)
        elif not (v == v) or not close(Fraction(v), eta[k], sc):
            return Fail(key + "/definition", "average differs from the mean of the event-triggered windows "
                        "(channel %d, type index %d, lag index %d)" % (ch, ti, k), v, float(eta[k]))
    return None


def oracle(d, o, dt_ps):
    """None when the property holds on this call (or demands nothing of it), else Fail"""
    k = d["kind"]
    key = "C19/%s" % {"fir": "FIR", "eta": "eta", "ets": "ets", "et_data": "et_data", "eta_ev": "eta-events",
                      "ets_ev": "ets-events", "design": "fir_design_matrix"}[k]
    claims = list(d.get("claims", []))
    if k == "design":
        return None
    sc = data_scale(d)
    if k in ("eta_ev", "ets_ev") and d.get("times_obs") is not None and d["times_obs"] != d["times_ps"]:
        claims = []       # the float form of the event times was rounded to other picoseconds (C01's matter)
    f = oracle_definition(d, o, dt_ps, key, sc)
    if f is not None:
        return f
    f = oracle_rescale(d, o, key)
    if f is not None:
        return f
    if not claims:
        return None
    if o["t"] != "arr" and o["t"] != "et":
        return Fail(key + "/no-result", "no estimate returned for a design inside the series: %s" % (o.get("e") or o.get("what")),
                    o, "an estimate")
    L, off = d["len"], d["offset"]
    nch = len(d["data"])
    # --- time axis
    if "axis" in claims:
        items = [(o["t0"], o["dt"])] if o["t"] == "arr" else [(it["t0"], it["dt"]) for ch in o["items"] for it in ch]
        for t0, dt in items:
            if t0 != off * dt_ps:
                return Fail(key + "/axis-t0", "output t0 is not offset * sampling interval", t0, off * dt_ps)
            if k != "fir" and dt != dt_ps:
                return Fail(key + "/axis-interval", "output sampling interval differs from the input's", dt, dt_ps)
    if o["t"] == "et":
        if "exact" in claims:
            want = planted_rows(d)
            for ch in range(nch):
                if len(o["items"][ch]) != len(want[ch]):
                    return Fail(key + "/types", "number of event types", len(o["items"][ch]), len(want[ch]))
                for ti, it in enumerate(o["items"][ch]):
                    for s in it["segs"]:
                        v = unhex(s)
                        if len(v) != L or any(not close(Fraction(x), w, sc) for x, w in zip(v, want[ch][ti])):
                            return Fail(key + "/segment", "an event-triggered segment differs from the planted response "
                                        "(channel %d, type index %d)" % (ch, ti), v, [float(w) for w in want[ch][ti]])
        return None
    vals = unhex(o["vals"])
    if "exact" in claims:
        bc = d.get("bc", False) and k in ("eta", "eta_ev")
        want = planted_rows(d, bc=bc)
        ntypes = len(want[0])
        sh = squeeze_shape([nch, ntypes, L]) if k not in ("eta_ev", "ets_ev") else squeeze_shape([nch, L])
        if o["shape"] != sh:
            return Fail(key + "/shape", "shape of the estimate", o["shape"], sh)
        flat = [(ch, ti, kk, w) for ch in range(nch) for ti in range(len(want[ch])) for kk, w in enumerate(want[ch][ti])]
        if len(flat) != len(vals):
            return Fail(key + "/shape", "size of the estimate", len(vals), len(flat))
        if k in ("ets", "ets_ev"):
            cnt = d["planted"]["counts"]
            for (ch, ti, kk, w), v in zip(flat, vals):
                if cnt[ch][ti] >= 2 and not (abs(v) <= TOL * float(sc)):
                    return Fail(key + "/nonzero", "standard error not zero for identical, non-overlapping responses "
                                "(channel %d, type index %d, lag %d)" % (ch, ti, kk), v, 0.0)
            return None
        negs = []
        for (ch, ti, kk, w), v in zip(flat, vals):
            if not (v == v) or not close(Fraction(v), w, sc):
                code = None
                if k == "fir":
                    code = sorted(set(c for c in chan_events(d, ch) if c != 0))[ti]
                if code is not None and code < 0 and close(Fraction(v), -w, sc):
                    negs.append((ch, ti, kk, v, float(w), code))
                    continue
                return Fail(key + "/response", "estimate differs from the planted response (channel %d, type index %d, "
                            "lag index %d)" % (ch, ti, kk), v, float(w))
        if negs:
            ch, ti, kk, v, w, code = negs[0]
            return Fail("C19/FIR/negative-code", "FIR returns the NEGATED response for event code %d (channel %d, "
                        "lag index %d)" % (code, ch, kk), v, w)
    if "equiv" in claims:
        p = d["partner"]
        if p["t"] != "arr":
            return Fail(key + "/events-vs-coded", "coded-series input gave no result", p, "a result")
        pv = unhex(p["vals"])
        if squeeze_shape(p["shape"]) != o["shape"] or len(pv) != len(vals) or \
                any(not (a == a and close(Fraction(a), Fraction(b), sc)) for a, b in zip(vals, pv)) or p["t0"] != o["t0"]:
            return Fail(key + "/events-vs-coded", "event-time input and event-coded input give different results",
                        {"times": vals, "t0": o["t0"]}, {"coded": pv, "t0": p["t0"]})
    if "linear" in claims:
        lin = d["linear"]
        r1, r2 = lin["r1"], lin["r2"]
        if r1["t"] != "arr" or r2["t"] != "arr":
            return Fail(key + "/linear", "no result for a summand", (r1, r2), "results")
        a, b = Fraction(lin["a"]), Fraction(lin["b"])
        for v, x1, x2 in zip(vals, unhex(r1["vals"]), unhex(r2["vals"])):
            w = a * Fraction(x1) + b * Fraction(x2)
            if not close(Fraction(v), w, sc + abs(a) * data_scale({"data": lin["y1"]}) + abs(b) * data_scale({"data": lin["y2"]})):
                return Fail(key + "/linear", "estimate of a*y1 + b*y2 is not a*est(y1) + b*est(y2)", v, float(w))
    return None


# ------------------------------------------------------------------ generators
def dyad(rng, lo=-64, hi=64, den=8):
    return rng.randint(lo, hi) / den


def pick_len(rng, ctx_big):
    r = rng.random()
    if r < 0.55:
        return rng.randint(2, 5)
    if r < 0.85:
        return rng.randint(6, 12)
    return rng.randint(13, ctx_big)


def pick_codes(rng, ntypes, allow_neg=True):
    pool = [1, 2, 3, 4, 5, 7, 9]
    codes = rng.sample(pool, ntypes)
    if allow_neg and rng.random() < 0.3:
        j = rng.randrange(ntypes)
        codes[j] = -rng.choice([1, 2, 3])
        if rng.random() < 0.3 and ntypes > 1:
            codes[(j + 1) % ntypes] = -rng.choice([5, 6])
    return codes


def synth(ev, resp, L, off, n):
    """the noise-free linear system: y[t] = sum over occurrences i of resp[code](t - i - off)"""
    y = [Fraction(0)] * n
    for i, c in enumerate(ev):
        if c != 0:
            for kk in range(L):
                t = i + off + kk
                if 0 <= t < n:
                    y[t] += Fraction(resp[c][kk])
    return [float(v) for v in y]


def place_overlapping(rng, n, L, off, codes, inside=True):
    hi = n - off - L if inside else n - 1
    ev = [0] * n
    nev = {c: rng.randint(1, 4) + (L // 3 if rng.random() < 0.7 else 0) for c in codes}
    free = list(range(0, hi + 1))
    rng.shuffle(free)
    for c in codes:
        for _ in range(nev[c]):
            if free:
                ev[free.pop()] = c
    return ev


def place_separated(rng, n, L, off, codes, lo=0):
    """all occurrences at least L apart, windows inside [0, n)"""
    ev = [0] * n
    pos = max(lo, -off if off < 0 else 0) + rng.randint(0, 2)
    order = []
    while pos + off + L <= n and pos < n:
        order.append(pos)
        pos += L + (rng.randint(0, 3) if rng.random() < 0.7 else 0)
    for j, p in enumerate(order):
        ev[p] = codes[j % len(codes)] if j < len(codes) else rng.choice(codes)
    return ev


def full_rank(ev, L, off):
    evp = np.concatenate([np.zeros(off), np.array(ev, dtype=float), np.zeros(L)])
    X = ref_design(np.roll(evp, off), L)
    return X.shape[1] > 0 and np.linalg.matrix_rank(X) == X.shape[1]


def base(rng, kind, nch, is1d):
    dt, unit = rng.choice(DTS)
    d = {"kind": kind, "is1d": is1d, "dt": dt, "unit": unit, "ev2d": False}
    if rng.random() < 0.15:
        d["t0_in"] = float(rng.randint(1, 40))
    # alternative but equivalent input forms (about a third of the cases)
    v = {}
    if rng.random() < 0.35:
        v["layout"] = rng.choice(["F", "strided", "derived", "C"])
        v["len_as"] = rng.choice(["int", "float", "npint"])
        v["off_as"] = rng.choice(["int", "npint"])
        v["call"] = rng.choice(["kw", "pos"])
        v["ev_dtype"] = rng.choice(["int", "float", "F"])
        v["ev_form"] = rng.choice(["ps", "sec_float", "timearray"])
    if rng.random() < 0.25:
        v["ts_by"] = "rate"
        d["rate"] = rng.choice(RATES)
        d["unit"] = "s"
    if v:
        d["variant"] = v
    return d


def pick_scale(rng):
    """data magnitude: 2^s with s in -60..40 (exact scaling of every planted value), mostly 2^0"""
    r = rng.random()
    if r < 0.55:
        return 0
    if r < 0.7:
        return rng.choice([-60, -40, -27, 40, 30, 17])
    return rng.randint(-60, 40)


def values(rng, n, s, integer=False, noise=False):
    f = 2.0 ** s
    if integer:
        return [float(rng.randint(-64, 64)) for _ in range(n)]
    if noise:
        dc = rng.choice([0.0, 0.0, 3.0, -1000.5, 64.0])
        return [(dyad(rng, -200, 200, 16) + dc) * f for _ in range(n)]
    return [dyad(rng) * f for _ in range(n)]


def set_int_layout(rng, d):
    """integer-valued data may also arrive as an int64 array"""
    d.setdefault("variant", {})["layout"] = "int"


def gen_fir(rng, big):
    L = pick_len(rng, big)
    ntypes = rng.choice([1, 1, 2, 2, 3]) if L <= 12 else rng.choice([1, 2])
    codes = pick_codes(rng, ntypes)
    off = rng.choice([0, 0, 0, 1, 2, 3, L + 1 if rng.random() < 0.3 else 1])
    nch = rng.choice([1, 1, 2, 3])
    is1d = nch == 1 and rng.random() < 0.8
    d = base(rng, "fir", nch, is1d)
    mode = rng.random()
    inside = mode < 0.85
    n = off + L * (ntypes + 1) + rng.randint(L, 4 * L) + rng.randint(0, 6)
    ev2d = nch > 1 and rng.random() < 0.35
    evs = [place_overlapping(rng, n, L, off, codes, inside) for _ in range(nch if ev2d else 1)]
    if ev2d and rng.random() < 0.1:
        evs[-1] = [0 if c == codes[0] and len(codes) > 1 else c for c in evs[-1]]   # ragged type count
    sexp = pick_scale(rng)
    isint = rng.random() < 0.07
    resp = [{c: values(rng, L, sexp, isint) for c in codes} for _ in range(nch)]
    planted = mode < 0.9
    data = []
    for ch in range(nch):
        ev = evs[ch] if ev2d else evs[0]
        if planted:
            data.append(synth(ev, resp[ch], L, off, n))
        else:
            data.append(values(rng, n, sexp, isint, noise=True))
    if isint:
        set_int_layout(rng, d)
    d["scale_exp"] = sexp
    d.update({"data": [hexs(r) for r in data], "events": evs if ev2d else evs[0], "ev2d": ev2d, "len": L, "offset": off,
              "bc": rng.random() < 0.3, "zs": rng.random() < 0.3})
    claims = []
    if inside:
        claims.append("axis")
    if planted and inside:
        d["planted"] = {"codes": codes, "resp": [{str(c): hexs(r[c]) for c in codes} for r in resp]}
        allc = [sorted(set(c for c in (evs[ch] if ev2d else evs[0]) if c != 0)) for ch in range(nch)]
        if all(full_rank(e, L, off) for e in evs):
            claims.append("exact")
    if len(set(len(set(c for c in e if c != 0)) for e in evs)) > 1:
        claims = []      # per-channel events with different numbers of types: np.array(h) refuses (not in the quantifier)
    d["claims"] = claims
    d["class"] = "fir/%s/%s/off%s/%s" % ("planted" if planted else "noise", "inside" if inside else "edge",
                                        "0" if off == 0 else "+", "neg" if any(c < 0 for c in codes) else "pos")
    return d


def gen_avg(rng, big, kind):
    """eta / ets / et_data on an event-coded series, separated occurrences"""
    L = pick_len(rng, big)
    ntypes = rng.choice([1, 2, 2, 3])
    codes = pick_codes(rng, ntypes)
    off = rng.choice([0, 0, 1, 2, 3])
    nch = rng.choice([1, 1, 2, 3])
    is1d = nch == 1 and rng.random() < 0.8
    d = base(rng, kind, nch, is1d)
    mode = rng.random()
    n = off + L * rng.randint(ntypes + 1, 3 * ntypes + 3) + rng.randint(0, 2 * L)
    ev2d = nch > 1 and rng.random() < 0.3
    if mode < 0.75:
        evs = [place_separated(rng, n, L, off, codes) for _ in range(nch if ev2d else 1)]
        sep = True
    else:
        evs = [place_overlapping(rng, n, L, off, codes, inside=mode < 0.9) for _ in range(nch if ev2d else 1)]
        sep = False
    sexp = pick_scale(rng)
    isint = rng.random() < 0.07
    resp = [{c: values(rng, L, sexp, isint) for c in codes} for _ in range(nch)]
    planted = rng.random() < 0.85
    data = []
    for ch in range(nch):
        ev = evs[ch] if ev2d else evs[0]
        data.append(synth(ev, resp[ch], L, off, n) if planted else values(rng, n, sexp, isint, noise=True))
    if isint:
        set_int_layout(rng, d)
    d["scale_exp"] = sexp
    d.update({"data": [hexs(r) for r in data], "events": evs if ev2d else evs[0], "ev2d": ev2d, "len": L, "offset": off,
              "bc": rng.random() < 0.4 and kind != "et_data", "zs": rng.random() < 0.3})
    claims = []
    if sep or mode < 0.9:
        claims.append("axis")
    allc = [sorted(set(c for c in (evs[ch] if ev2d else evs[0]) if c != 0)) for ch in range(nch)]
    if planted and sep and all(len(a) == len(allc[0]) and a for a in allc):
        cnt = [[sum(1 for c in (evs[ch] if ev2d else evs[0]) if c == t) for t in allc[ch]] for ch in range(nch)]
        d["planted"] = {"codes": codes, "resp": [{str(c): hexs(r[c]) for c in codes} for r in resp], "counts": cnt}
        claims.append("exact")
    if len(set(len(a) for a in allc)) > 1:
        claims = []
    d["claims"] = claims
    d["class"] = "%s/%s/%s/off%s%s" % (kind, "planted" if planted else "noise", "separated" if sep else "overlap",
                                      "0" if off == 0 else "+", "/bc" if d["bc"] else "")
    return d


def gen_events(rng, big, kind):
    """eta / ets with a list of event times; one event type"""
    L = pick_len(rng, big)
    off = rng.choice([0, 0, 1, 2, -1, -2, -L + 1 if L > 2 else -1])
    nch = rng.choice([1, 1, 2, 3])
    is1d = nch == 1
    d = base(rng, kind, nch, is1d)
    d.pop("t0_in", None)
    code = 1
    n = abs(off) + L * rng.randint(3, 6) + rng.randint(0, 2 * L)
    mode = rng.random()
    ev = place_separated(rng, n, L, off, [code])
    idx = [i for i, c in enumerate(ev) if c]
    if not idx:
        ev[max(0, -off)] = code
        idx = [max(0, -off)]
    sexp = pick_scale(rng)
    isint = rng.random() < 0.07
    resp = [{code: values(rng, L, sexp, isint)} for _ in range(nch)]
    planted = rng.random() < 0.85
    data = [synth(ev, resp[ch], L, off, n) if planted else values(rng, n, sexp, isint, noise=True) for ch in range(nch)]
    if isint:
        set_int_layout(rng, d)
    d["scale_exp"] = sexp
    d.update({"data": [hexs(r) for r in data], "len": L, "offset": off, "bc": rng.random() < 0.4, "zs": rng.random() < 0.3})
    d["events_coded"] = ev
    d["idx"] = idx
    d["mode"] = "multiple" if mode < 0.7 else ("fraction" if mode < 0.85 else ("unsorted" if mode < 0.93 else "edge"))
    claims = ["axis"]
    if planted:
        d["planted"] = {"codes": [code], "resp": [{str(code): hexs(r[code])} for r in resp], "counts": [[len(idx)]] * nch}
        claims.append("exact")
    if off >= 0 and d["mode"] in ("multiple", "fraction", "unsorted"):
        claims.append("equiv")
    if d["mode"] == "edge":
        claims = []
    if rng.random() < 0.08:
        # the series does not start at 0: the implementation ignores t0 when it turns event times into sample
        # indices (idx = time / interval).  Outside the property's quantifier; kept to tie the model.
        d["t0_in"] = float(rng.randint(1, 9))
        d["mode"] += "+series-t0"
        claims = []
    d["claims"] = claims
    d["class"] = "%s/%s/%s/off%s%s" % (kind, "planted" if planted else "noise", d["mode"],
                                      "0" if off == 0 else ("+" if off > 0 else "-"), "/bc" if d["bc"] else "")
    return d


def finish_events(rng, d, dt_ps):
    """event times (ps) from the sample indices, once the series' interval in ps is known"""
    idx = list(d["idx"])
    m = d["mode"].split("+")[0]
    if m == "multiple":
        t = [i * dt_ps for i in idx]
    elif m == "fraction":
        t = [i * dt_ps + rng.randint(0, dt_ps - 1) for i in idx]
    elif m == "unsorted":
        rng.shuffle(idx)
        t = [i * dt_ps for i in idx]
    else:
        n = len(d["data"][0])
        t = [i * dt_ps for i in idx] + [rng.choice([n - 1, n, 0]) * dt_ps]
    d["times_ps"] = t


def gen_large(rng, quick):
    """the far end of the quantifier: response lengths up to 32 with 3 event types, long series (lengths just
    above powers of two, primes), many events, event times beyond 2^53 ps.  FIR cases are checked by the
    planted-truth oracle only (oracle_only: no kernel evaluation); the averaging cases are cheap enough for K."""
    out = []
    ns = [1025, 2049, 4097, 1531, 509, 8193]
    # FIR, overlapping, 3 types x len 32 (96 columns) and other sizes
    for j, (L, nt) in enumerate([(32, 3), (31, 3), (17, 3), (32, 2), (2, 3), (23, 1)] if quick else
                                [(32, 3), (31, 3), (17, 3), (32, 2), (2, 3), (23, 1), (32, 3), (29, 3), (13, 2), (32, 1)]):
        n = ns[j % len(ns)]
        off = [0, 3, L + 1, 1][j % 4]
        codes = pick_codes(rng, nt, allow_neg=(j % 3 == 2))
        nch = 1 + (j % 2)
        d = base(rng, "fir", nch, nch == 1)
        sexp = pick_scale(rng)
        ev = [0] * n
        nev = max(4 * nt * L // 3, n // (2 + j % 3))       # many events (up to >2000), heavy overlap
        for p_ in rng.sample(range(0, n - off - L + 1), min(nev, n - off - L + 1)):
            ev[p_] = rng.choice(codes)
        for c in codes:
            if c not in ev:
                ev[rng.randrange(0, n - off - L)] = c
        resp = [{c: values(rng, L, sexp) for c in codes} for _ in range(nch)]
        data = [synth(ev, resp[ch], L, off, n) for ch in range(nch)]
        d.update({"data": [hexs(r) for r in data], "events": ev, "ev2d": False, "len": L, "offset": off, "bc": False,
                  "zs": bool(j % 2), "scale_exp": sexp, "oracle_only": True,
                  "planted": {"codes": codes, "resp": [{str(c): hexs(r[c]) for c in codes} for r in resp]}})
        d["claims"] = ["axis"] + (["exact"] if full_rank(ev, L, off) else [])
        d["class"] = "large/fir/len%d/types%d/n%d" % (L, nt, n)
        out.append(d)
    # eta / ets on coded series and on event times, separated, long
    for j, kind in enumerate(["eta", "ets", "eta_ev", "ets_ev", "eta_ev", "eta"] if quick else
                             ["eta", "ets", "eta_ev", "ets_ev", "eta_ev", "eta", "ets_ev", "ets", "eta_ev", "et_data"]):
        L = [32, 31, 32, 17, 2, 29][j % 6]
        n = [1025, 2049, 4097, 1531, 2049, 1025][j % 6]
        isev = kind.endswith("_ev")
        off = ([0, -1, 2, -L + 1] if isev else [0, 3, 1])[j % (4 if isev else 3)]
        codes = [1] if isev else pick_codes(rng, 3, allow_neg=(j % 2 == 1))
        d = base(rng, kind, 1, True)
        if isev:
            d.pop("t0_in", None)
            if j % 2 == 0:
                d["dt"], d["unit"] = 2.2, "m"            # event times far beyond 2^53 ps
                d.get("variant", {}).pop("ts_by", None)
        sexp = pick_scale(rng)
        ev = place_separated(rng, n, L, off, codes)
        resp = [{c: values(rng, L, sexp, integer=(j % 3 == 0)) for c in codes}]
        data = [synth(ev, resp[0], L, off, n)]
        d.update({"data": [hexs(r) for r in data], "len": L, "offset": off, "bc": bool(j % 2), "zs": False,
                  "scale_exp": sexp, "ev2d": False})
        types = sorted(set(c for c in ev if c != 0))
        cnt = [[sum(1 for c in ev if c == t) for t in types]]
        d["planted"] = {"codes": codes, "resp": [{str(c): hexs(resp[0][c]) for c in codes}], "counts": cnt}
        if isev:
            d["events_coded"] = ev
            d["idx"] = [i for i, c in enumerate(ev) if c]
            d["mode"] = "multiple" if j % 3 else "fraction"
            d["claims"] = ["axis", "exact"] + (["equiv"] if off >= 0 else [])
        else:
            d["events"] = ev
            d["claims"] = ["axis", "exact"]
            if kind == "et_data":
                d["bc"] = False
        d["class"] = "large/%s/len%d/n%d" % (kind, L, n)
        out.append(d)
    return out


def gen_design(rng, big):
    L = rng.randint(1, 8)
    n = rng.randint(L, 40)
    ntypes = rng.randint(1, 3)
    codes = pick_codes(rng, ntypes)
    inside = rng.random() < 0.8
    ev = place_overlapping(rng, n, L, 0, codes, inside)
    return {"kind": "design", "events": ev, "len": L, "claims": [],
            "class": "design/%s" % ("inside" if inside else "edge")}


def series_dt_ps(d):
    import nitime.timeseries as ts
    kw = series_kw(d)
    kw.pop("t0", None)
    T = ts.TimeSeries(np.zeros(2), **kw)
    return int(np.asarray(T.sampling_interval))


def series_dt_ps_safe(d):
    try:
        return series_dt_ps(d)
    except Exception:  # noqa
        return None


SEQ_KIND = {"FIR": "fir", "eta": "eta", "ets": "ets", "et_data": "et_data"}


def gen_seq(rng, big, events_repr):
    """read sequences on one analyzer object: shuffled orders of {et_data, eta, ets, FIR, xcorr_eta} (coded series) or
    {eta, ets} (event times); every result is judged when read, again after everything else was read (the object
    handed out earlier) and once more by re-reading the attribute"""
    out = []
    if events_repr:
        d0 = gen_events(rng, big, "eta_ev")
        d0["bc"] = rng.random() < 0.5
        d0["zs"] = rng.random() < 0.5
        finish_events(rng, d0, series_dt_ps(d0))
        order = rng.choice([["eta", "ets"], ["ets", "eta"], ["eta", "ets", "eta"], ["ets", "eta", "ets"]])
    else:
        d0 = gen_avg(rng, big, "eta")
        d0["bc"] = rng.random() < 0.5
        d0["zs"] = rng.random() < 0.5
        order = ["et_data", "eta", "ets", "FIR", "xcorr_eta"]
        rng.shuffle(order)
        if rng.random() < 0.3:
            order = order + [rng.choice(["eta", "ets", "et_data"])]
    fr = None
    for i, attr in enumerate(order):
        if attr == "xcorr_eta":
            continue
        for when in ("at_read", "at_end", "reread"):
            kind = SEQ_KIND[attr] + ("_ev" if events_repr else "")
            d = dict(d0, kind=kind, seq={"order": order, "step": i, "when": when})
            if "variant" in d0:
                d["variant"] = dict(d0["variant"])
            claims = list(d0.get("claims", []))
            if kind == "fir":
                if "exact" in claims:
                    if fr is None:
                        evs = d0["events"] if d0["ev2d"] else [d0["events"]]
                        fr = all(full_rank(e, d0["len"], d0["offset"]) for e in evs)
                    if not fr:
                        claims.remove("exact")
            d["claims"] = claims
            if when == "reread":
                d["oracle_only"] = True
            d["class"] = "seq/%s/%s/%s%s" % (kind, when, "bc" if d0["bc"] else "nobc", "/zs" if d0.get("zs") else "")
            out.append(d)
    return out


def add_linear(rng, d):
    """FIR / eta of a*y1 + b*y2 against the combination of the single estimates"""
    n = len(d["data"][0])
    a, b = rng.choice([2, -3, 0.5, 4]), rng.choice([1, -1, 0.25, 3])
    y1 = [[float.fromhex(x) for x in r] for r in d["data"]]
    f = 2.0 ** d.get("scale_exp", 0)
    y2 = [[dyad(rng, -100, 100, 8) * f for _ in range(n)] for _ in d["data"]]
    comb = [[a * u + b * v for u, v in zip(p, q)] for p, q in zip(y1, y2)]
    dd = dict(d, data=[hexs(r) for r in comb], claims=["linear"],
              linear={"a": a, "b": b, "y1": [hexs(r) for r in y1], "y2": [hexs(r) for r in y2]})
    dd.pop("planted", None)
    if dd.get("variant", {}).get("layout") == "int":
        dd["variant"] = dict(dd["variant"], layout="C")
    dd["class"] = d["class"] + "/linear"
    return dd


RESCALE_EXPS = [-45, 35, -33, 31, -52, 44]


def rescaled(d, exps):
    """the same case with channel ch of the data multiplied by 2^exps[ch] (exact); planted responses follow;
    integer data become float64"""
    r = dict(d)
    r["data"] = [hexs([float.fromhex(x) * 2.0 ** exps[ch] for x in row]) for ch, row in enumerate(d["data"])]
    if "planted" in d:
        pl = dict(d["planted"])
        pl["resp"] = [{c: hexs([float.fromhex(x) * 2.0 ** exps[ch] for x in h]) for c, h in rr.items()}
                      for ch, rr in enumerate(d["planted"]["resp"])]
        r["planted"] = pl
    if r.get("variant", {}).get("layout") == "int":
        r["variant"] = dict(r["variant"], layout="C")
    r["claims"] = [c for c in d.get("claims", []) if c not in ("linear", "equiv")]
    for k in ("linear", "partner", "rescale", "times_obs"):
        r.pop(k, None)
    r["scale_exp"] = d.get("scale_exp", 0) + exps[0]
    return r


def oracle_rescale(d, o, key):
    """the estimators are linear per channel: with channel ch of the data multiplied by 2^e[ch] every number of that
    channel's estimate is multiplied by 2^e[ch] (relative tolerance), shapes, t0, interval and error class unchanged.
    A hidden absolute threshold or a dtype truncation breaks this on any input."""
    rs = d.get("rescale")
    if not rs or d["kind"] == "design":
        return None
    o2, exps = rs["obs"], rs["exps"]
    nch = len(d["data"])
    k = key + "/rescaled"
    if o["t"] != o2["t"] or (o["t"] == "err" and o.get("e") != o2.get("e")):
        return Fail(k, "data rescaled by powers of two per channel %s: a different kind of outcome" % exps,
                    {x: o2.get(x) for x in ("t", "e", "msg", "what")}, {x: o.get(x) for x in ("t", "e", "msg", "what")})
    def cmp(v1, v2, e, where):
        f = Fraction(2) ** e
        a1 = [Fraction(x) if x == x else None for x in v1]
        a2 = [Fraction(x) if x == x else None for x in v2]
        if len(a1) != len(a2):
            return Fail(k, "size changed under rescaling (%s)" % where, len(a2), len(a1))
        mag = max([abs(x) for x in a1 if x is not None] + [Fraction(0)]) * f
        for x1, x2 in zip(a1, a2):
            if (x1 is None) != (x2 is None) or (x1 is not None and abs(x2 - x1 * f) > Fraction(1, 10 ** 9) * mag):
                return Fail(k, "estimate of the data times 2^%d is not 2^%d times the estimate (%s)" % (e, e, where),
                            None if x2 is None else float(x2), None if x1 is None else float(x1 * f))
        return None
    if o["t"] == "arr":
        if o["shape"] != o2["shape"] or o["t0"] != o2["t0"] or o["dt"] != o2["dt"]:
            return Fail(k, "shape / t0 / interval changed under rescaling of the data",
                        (o2["shape"], o2["t0"], o2["dt"]), (o["shape"], o["t0"], o["dt"]))
        v1, v2 = unhex(o["vals"]), unhex(o2["vals"])
        if len(v1) != len(v2) or len(v1) % nch:
            return Fail(k, "size changed under rescaling", len(v2), len(v1))
        m = len(v1) // nch
        for ch in range(nch):
            f = cmp(v1[ch * m:(ch + 1) * m], v2[ch * m:(ch + 1) * m], exps[ch], "channel %d" % ch)
            if f:
                return f
    elif o["t"] == "et":
        if [len(c) for c in o["items"]] != [len(c) for c in o2["items"]]:
            return Fail(k, "number of event types changed under rescaling", None, None)
        for ch in range(len(o["items"])):
            for i1, i2 in zip(o["items"][ch], o2["items"][ch]):
                if (i1["t0"], i1["dt"], len(i1["segs"])) != (i2["t0"], i2["dt"], len(i2["segs"])):
                    return Fail(k, "t0 / interval / number of segments changed under rescaling", None, None)
                for s1, s2 in zip(i1["segs"], i2["segs"]):
                    f = cmp(unhex(s1), unhex(s2), exps[ch], "et_data channel %d" % ch)
                    if f:
                        return f
    return None


def prepare(d, rng=None, force=False):
    """complete a case description with what depends on the implementation: event times in ps, the
    partner run (same events as a coded series), the runs on the two summands"""
    if d["kind"] in ("eta_ev", "ets_ev") and "times_ps" not in d:
        finish_events(rng, d, series_dt_ps(d))
    if "equiv" in d.get("claims", []) and (force or "partner" not in d):
        pd = dict(d, kind="eta" if d["kind"] == "eta_ev" else "ets", events=d["events_coded"], ev2d=False, claims=[])
        pd.pop("seq", None)
        d["partner"], _, _ = run_case(pd)
    if "linear" in d.get("claims", []) and (force or "r1" not in d["linear"]):
        lin = d["linear"]
        lin["r1"], _, _ = run_case(dict(d, claims=[], data=lin["y1"], seq=None))
        lin["r2"], _, _ = run_case(dict(d, claims=[], data=lin["y2"], seq=None))
    if d["kind"] != "design" and (force or "rescale" not in d):
        exps = (d.get("rescale") or {}).get("exps")
        if not exps:
            j = rng.randrange(len(RESCALE_EXPS)) if rng is not None else 0
            exps = [RESCALE_EXPS[(j + ch) % len(RESCALE_EXPS)] for ch in range(len(d["data"]))]
        o2, _, _ = run_case(rescaled(d, exps))
        d["rescale"] = {"exps": exps, "obs": o2}


def make_case(d, rng=None):
    prepare(d, rng)
    o, dt_ps, calls = run_case(d)
    coq = None if d.get("oracle_only") else case_coq(d, o, dt_ps, calls)
    rp = {"input": d, "observed": o, "dt_ps": dt_ps}
    c = Case(coq or "", rp, d.get("class", d["kind"]), nontrivial=(o["t"] in ("arr", "et", "design")))
    c.in_k = coq is not None
    return c


def retry_killed(ctx, prefix, kbad, shard, ncases):
    """a shard whose coqc ended without any Coq error message (killed by the OOM killer on an overloaded
    machine) is compiled once more, alone; a real disagreement always carries Coq's error text"""
    kbad = set(kbad)
    for b in list(ctx.broken):
        name = b["lemma"]
        if b["kind"] != "K" or not name.startswith(prefix + "_"):
            continue
        det = b["detail"]
        if "Error" in det or "TIMEOUT" in det:
            continue
        si = int(name.split(".v")[0].split("_")[1])
        path = ctx.build / ("%s_%d.v" % (prefix, si))
        if not path.exists():
            continue
        r = ctx.coqc("%s_%d" % (prefix, si), path.read_text(), timeout=1500)
        if not r.ok and "Error" not in r.out and "TIMEOUT" not in r.out:
            r = ctx.coqc("%s_%d" % (prefix, si), path.read_text(), timeout=1500)
        if r.ok:
            ctx.broken.remove(b)
            ctx.obligations = [(k, n, True if (k == "K" and n == name) else ok) for k, n, ok in ctx.obligations]
            kbad -= set(range(si * shard, min(ncases, (si + 1) * shard)))
            ctx.notes.append("%s: coqc was killed without output on the first attempt; recompiled alone, lemma holds" % name)
        else:
            b["detail"] = (r.out or det)[-1500:]
    return kbad


def corpus_inputs():
    p = core.VERIF / "harness" / "corpus" / "C19"
    out = []
    if p.exists():
        for f in sorted(p.glob("*.json")):
            out.append(json.loads(f.read_text())["input"])
    return out


def gen_flag_table():
    """G: which getters read the zscore / correct_baseline flags, by reflection on their code objects"""
    import nitime.analysis.event_related as er
    rows = []
    for n in ["FIR", "eta", "ets", "et_data", "xcorr_eta"]:
        d = er.EventRelatedAnalyzer.__dict__.get(n)
        f = getattr(d, "getter", None) or getattr(d, "fget", None) or d
        names = set(getattr(getattr(f, "__code__", None), "co_names", ()))
        rows.append((n, "_zscore" in names, "_correct_baseline" in names))
    src = ("From Coq Require Import List Bool String.\nFrom NT Require Import Lists C19K.\nImport ListNotations.\n"
           "Open Scope string_scope.\n"
           "Definition gen_flags : list flag_row := %s.\n"
           "Lemma flag_table_matches : flag_table_ok gen_flags = true.\nProof. vm_compute. reflexivity. Qed.\n"
           % llit(['("%s", %s, %s)' % (n, blit(z), blit(c)) for n, z, c in rows]))
    return src, rows


def run(ctx):
    core.import_nitime()
    ctx.check_props()
    src, rows = gen_flag_table()
    ctx.check_gen("G_flags", src, ["flag_table_matches"])
    ctx.extra["flag_table"] = rows
    rng = ctx.rng
    big = ctx.scale(20, 32)
    inputs = corpus_inputs()
    nf, na, ne, nd = ctx.scale(260, 1400), ctx.scale(130, 700), ctx.scale(130, 700), ctx.scale(120, 400)
    for _ in range(nf):
        d = gen_fir(rng, big)
        inputs.append(d)
        if rng.random() < 0.12 and "exact" in d["claims"]:
            inputs.append(add_linear(rng, d))
    for _ in range(na):
        for kind in ("eta", "ets"):
            d = gen_avg(rng, big, kind)
            inputs.append(d)
            if kind == "eta" and rng.random() < 0.12 and d["claims"]:
                inputs.append(add_linear(rng, d))
    for _ in range(na // 3):
        inputs.append(gen_avg(rng, big, "et_data"))
    for _ in range(ne):
        inputs.append(gen_events(rng, big, "eta_ev"))
        inputs.append(gen_events(rng, big, "ets_ev"))
    for _ in range(nd):
        inputs.append(gen_design(rng, big))
    inputs.extend(gen_large(rng, ctx.quick))
    for _ in range(ctx.scale(26, 120)):
        inputs.extend(gen_seq(rng, big, False))
    for _ in range(ctx.scale(12, 60)):
        inputs.extend(gen_seq(rng, big, True))
    extra = []
    for d in inputs:
        if d["kind"] != "design" and not d.get("oracle_only") and not d.get("seq") and "linear" not in d.get("claims", []) \
                and rng.random() < (0.2 if len(d["data"]) > 1 else 0.05):
            j = rng.randrange(len(RESCALE_EXPS))
            r = rescaled(d, [RESCALE_EXPS[(j + ch) % len(RESCALE_EXPS)] for ch in range(len(d["data"]))])
            r["class"] = d.get("class", d["kind"]) + "/rescaled-per-channel"
            extra.append(r)
    inputs.extend(extra)
    cases = [make_case(d, rng) for d in inputs]
    kcases = [c for c in cases if c.in_k]
    shard = ctx.scale(60, 160)
    kbad = ctx.check_cases("K", HEADER, kcases, "check", shard=shard, case_type="kcase", timeout=1500)
    kbad = retry_killed(ctx, "K", kbad, shard, len(kcases))
    bad = {id(kcases[i]) for i in kbad}
    for c in cases:
        if not c.in_k:
            ctx.count_case(c)
    nrec = sum(1 for c in cases if c.replay["input"].get("pinv_source") == "recorded")
    for c in cases:
        f = oracle(c.replay["input"], c.replay["observed"], c.replay["dt_ps"])
        if f is None and not c.in_k and not c.replay["input"].get("oracle_only"):
            f = Fail("C19/%s/unexpected-outcome" % c.replay["input"]["kind"],
                     "the call ended in a way the model has no counterpart for", c.replay["observed"],
                     "a result or ValueError/IndexError")
        if f is not None:
            f.replay = {"entry_point": "nitime.analysis.EventRelatedAnalyzer / nitime.utils.fir_design_matrix",
                        "model_disagrees": id(c) in bad}
            ctx.report_fail(f, c)
    ctx.extra["model_impl_disagreements"] = len(bad)
    ctx.extra["pinv_pairs_recorded_cases"] = nrec
    pc = [c.replay["input"].get("pinv_contract_ok") for c in cases if "pinv_contract_ok" in c.replay["input"]]
    ctx.extra["pinv_contract_validated"] = {"cases": len(pc), "holds": sum(1 for x in pc if x)}
    if any(x is False for x in pc):
        ctx.notes.append("scipy.linalg.pinv(G) G = I failed numerically on %d full-rank designs" % sum(1 for x in pc if not x))
    ctx.extra["rule"] = ("seeded designs: response length 2..%d, 1-3 event types (negative codes in ~30%%), offsets 0..3 and "
                         "> len_et (coded series) / negative (event times), 1-d / 2-3 channels with shared or per-channel "
                         "events, overlapping (FIR) or separated (eta/ets/et_data) placements inside the series plus "
                         "edge placements (cut responses, wrap of np.roll, IndexError/ValueError), planted dyadic responses "
                         "or noise data (with DC offsets), both flags; data magnitudes 2^-60..2^40 (tolerances relative to max|data|, in "
                         "Coq and in the oracle); alternative input forms (Fortran / strided / derived / int64 arrays, series built "
                         "by sampling_rate incl. rates with inexact seconds*Hz, event times as ps / float seconds / TimeArray, "
                         "float or numpy len_et and offset, positional call); oracle-only and K 'large' cases: len_et up to 32 with "
                         "3 types (96 columns), series of 509..8193 samples, up to ~2000 events, event times beyond 2^53 ps; "
                         "eta/ets are also compared with their definition computed in Fractions from the input data; "
                         "non-trivial = the call returned an estimate" % big)
    return ctx.finish(
        explanation=("P: Coq theorems over an executable model of fir_design_matrix / fir / EventRelatedAnalyzer "
                     "(FIR, eta, ets, et_data; coded series and event times) for all lengths, placements, type counts, "
                     "offsets: design_apply, least-squares recovery for an abstract pinv, exact average / zero standard "
                     "error for separated events, ordering by sorted code, equality of the two event representations, "
                     "linearity, t0 = offset*dt; negative codes refuted with a witness. K: every generated call is "
                     "evaluated on the model by the Coq kernel and compared with the implementation's output. "
                     "Search: planted responses vs outputs."),
        trusted=["scipy.linalg.pinv is a library oracle: its recorded output is handed to the model as data (contract in "
                 "the theorems: pinv(G) G = I for non-singular G)",
                 "scipy.stats.sem / np.mean are compared through their defining formulas (squared standard error) with "
                 "tolerance rtol 1e-9, atol 1e-12",
                 "(events.time / sampling_interval).astype(int) is modelled as truncating integer division of picoseconds"],
        assumptions=["the oracle demands exact recovery only for designs whose responses lie inside the series "
                     "(i + offset + len_et <= n) and, for FIR, of full column rank; other cases are still compared with the model",
                     "the output sampling interval of FIR (built through sampling_rate) is not compared (front-end matter of C15/C02)"])


def replay(ctx, path):
    core.import_nitime()
    d = json.loads(open(path).read())
    d = d.get("case") or d
    inp = d["input"]
    prepare(inp, ctx.rng, force=True)
    o, dt_ps, _ = run_case(inp)
    f = oracle(inp, o, dt_ps)
    print(json.dumps({"kind": inp["kind"], "class": inp.get("class"), "observed": o,
                      "fails": None if f is None else {"key": f.key, "what": f.what, "observed": f.observed,
                                                       "required": f.required}}, indent=1, default=str)[:4000])
    return 1 if f else 0
