"""C17 — a uniform time axis stays self-consistent through any sequence of operations.

P: coq/Props/C17.v (theorems over Model/UTimeOps.v: abstract (t0, dt, n) machine consistent for every
   history; the implementation model refines it for += -= (scalar, ramp), *=, copy; rejections leave the
   axis unchanged; refutations for slices, /=, operations ending with a non-positive interval)
K: exhaustive trees of operation histories (depth 3 quick / 4 thorough) over a generating set of axes;
   at every node the Coq kernel runs the model and compares samples, t0, interval, duration, rate,
   exception class and index_at(axis[i]) for every i with what the implementation showed
oracle: an independent Python (t0, dt, n) reference machine run along every history
"""
import json
import re
from fractions import Fraction

import numpy as np

from vt import core
from vt.props.ckretry import check_cases_retry
from vt.core import Case, Fail, zlit, blit, llit, zlist, flit, nlit

FACT = {"ps": 1, "ns": 10 ** 3, "us": 10 ** 6, "ms": 10 ** 9, "s": 10 ** 12, "m": 60 * 10 ** 12,
        "h": 3600 * 10 ** 12, "D": 86400 * 10 ** 12, "W": 7 * 86400 * 10 ** 12}

# generating set of initial axes: (unit, t0, interval, length), t0 / interval whole numbers of the unit
AXES_QUICK = [("ms", 2, 2, 4), ("s", -3, 1, 3), ("ps", 0, 6, 5), ("us", 5, 4, 1), ("m", 0, 2, 2), ("ms", -4, 3, 6),
              # magnitudes: days (8.64e16 ps per step, negative start), and picosecond values just above powers of two
              ("D", -2, 1, 5), ("ps", 2 ** 40 + 1, 2 ** 33 + 1, 3)]
AXES_THOROUGH = AXES_QUICK + [("ns", 7, 2, 8), ("h", -1, 1, 7)]
# the same axis reached through other paths: every one must start (and stay) as consistent as the constructed one
DERIVE = ["plus0", "copycopy", "npcopy", "view", "fullslice", "series_time", "positional", "from_duration", "from_axis",
          "copy_of_copy"]


def err_name(e):
    if e is None:
        return None
    for cls, name in ((ValueError, "ValueError"), (TypeError, "TypeError"), (AttributeError, "AttributeErr"),
                      (NotImplementedError, "NotImplementedErr")):
        if isinstance(e, cls):
            return name
    return "OtherError"


# ------------------------------------------------------------------ the alphabet
def alphabet(tier_quick):
    """operation *schemes*; array operands are made concrete against the current length"""
    ops = [
        {"k": "add", "kind": "int", "v": 3},
        {"k": "sub", "kind": "ta", "v": 2},                  # a 0-d TimeArray, v in the axis unit
        {"k": "addarr", "kind": "ut", "r0": 1, "dr": 1},     # a UniformTime ramp of the current length
        {"k": "subarr", "kind": "int64", "r0": 0, "dr": 1},  # a bare int64 ramp of the current length
        {"k": "mul", "v": 2},
        {"k": "div", "v": 2},
        {"k": "slice", "a": 1, "b": None, "c": 1},
        {"k": "slice", "a": None, "b": None, "c": 2},
        {"k": "slice", "a": None, "b": -1, "c": 1},
        {"k": "copy"},
        {"k": "addarr", "kind": "int64", "nonuniform": True},
        {"k": "setitem", "i": 0, "v": 5},
        # shifts by a time object READ FROM THE AXIS ITSELF (the operand may alias the samples being changed)
        {"k": "sub", "kind": "self_elem", "idx": 0},
        {"k": "add", "kind": "self_elem", "idx": -1},
    ]
    if not tier_quick:
        ops += [{"k": "mul", "v": -1}, {"k": "slice", "a": 1, "b": None, "c": 2}]
    return ops


# extra hand-written histories (schemes), run in every tier on every axis
EXTRA = [
    # operands that are, alias, or were copied from the target itself or another axis
    [{"k": "addarr", "kind": "self"}, {"k": "sub", "kind": "self_elem", "idx": 1}, {"k": "add", "kind": "int", "v": 1}],
    [{"k": "addarr", "kind": "self_view"}, {"k": "subarr", "kind": "copy_self_half"}],
    [{"k": "subarr", "kind": "self"}, {"k": "addarr", "kind": "copy_self"}, {"k": "sub", "kind": "copy_elem", "idx": -1}],
    [{"k": "add", "kind": "self_elem", "idx": 1}, {"k": "sub", "kind": "other_elem", "idx": 0}, {"k": "add", "kind": "copy_elem", "idx": 0}],
    [{"k": "slice", "a": 1, "b": None, "c": 1}, {"k": "sub", "kind": "self_elem", "idx": 0}, {"k": "addarr", "kind": "self"}],
    [{"k": "mul", "v": 0}, {"k": "add", "kind": "int", "v": 1}],
    [{"k": "mul", "v": -1}, {"k": "add", "kind": "npint", "v": 1}],
    [{"k": "subarr", "kind": "ut", "r0": 0, "dr": "same"}, {"k": "copy"}],          # interval becomes 0
    [{"k": "subarr", "kind": "list", "r0": 1, "dr": "more"}, {"k": "slice", "a": 1, "b": 3, "c": 1}],  # negative interval
    [{"k": "addarr", "kind": "int32", "r0": 2, "dr": 2}, {"k": "mul", "v": 3}, {"k": "subarr", "kind": "ta", "r0": 1, "dr": 1}],
    [{"k": "addarr", "kind": "int64", "r0": 1, "dr": 1, "len": 1}],                 # length-1 operand: IndexError
    [{"k": "addarr", "kind": "int64", "r0": 1, "dr": 1, "len": "+1"}],              # wrong length
    [{"k": "slice", "a": 1, "b": None, "c": 2}, {"k": "sub", "kind": "int", "v": 1}, {"k": "slice", "a": -2, "b": None, "c": 1}],
    [{"k": "slice", "a": 0, "b": None, "c": 1}, {"k": "add", "kind": "int", "v": 2}],  # full slice keeps consistency
    [{"k": "slice", "a": 2, "b": 1, "c": 1}, {"k": "add", "kind": "int", "v": 2}, {"k": "mul", "v": 2}],  # empty
    [{"k": "div", "v": 3}, {"k": "mul", "v": 3}],
    # NEARLY uniform time operands (round 11): steps that differ by one clock tick (1 ps) although the step itself is
    # >= 1e6 ps, i.e. a relative difference far below any float tolerance -- must be refused, axis unchanged, and the
    # axis must go on working afterwards
    [{"k": "addarr", "kind": "ut", "r0": 1, "dr": 1, "near": "mid-"}, {"k": "add", "kind": "int", "v": 1},
     {"k": "subarr", "kind": "ta", "r0": 0, "dr": "half", "near": "last+"}],
    [{"k": "subarr", "kind": "ut", "r0": 0, "dr": "half", "near": "mid+"}, {"k": "addarr", "kind": "ta", "r0": 2, "dr": 3, "near": "first-"},
     {"k": "mul", "v": 2}],
    [{"k": "addarr", "kind": "ta_sec3", "near": "thirds"}, {"k": "copy"}, {"k": "addarr", "kind": "ut", "r0": 0, "dr": 2, "near": "wobble"}],
    [{"k": "mul", "v": 3}, {"k": "addarr", "kind": "ta", "r0": -1, "dr": 1, "near": "last-"},
     {"k": "subarr", "kind": "ut", "r0": 1, "dr": "half", "near": "wobble"}],
    [{"k": "addarr", "kind": "ut", "r0": 1, "dr": 1}, {"k": "subarr", "kind": "ta", "r0": 1, "dr": 1, "near": "mid+3"},
     {"k": "addarr", "kind": "ta_sec3", "near": "thirds"}],
]


ELEM_KINDS = ("self_elem", "copy_elem", "other_elem")
SELF_ARR_KINDS = ("self", "self_view", "copy_self", "copy_self_half")


def concretize(sch, axis, cur_len, cur_dt_ps, cur=None):
    """turn a scheme into a concrete operation for an axis whose current length is cur_len (cur = its current samples)"""
    cf = FACT[axis[0]]
    op = dict(sch)
    k = op["k"]
    if k in ("add", "sub") and op["kind"] in ELEM_KINDS and "ps" not in op:
        if not -cur_len <= op["idx"] < cur_len:
            # the element does not exist (empty / too short axis): reading it raises IndexError before anything happens;
            # the same outcome is produced by an empty 1-d operand (IndexError, nothing touched)
            return {"k": "addarr" if k == "add" else "subarr", "kind": "int64", "l": []}
        op["ps"] = cur[op["idx"]]          # the value the operand has when it is read
        return op
    if k in ("addarr", "subarr") and op["kind"] in SELF_ARR_KINDS and "l" not in op:
        op["l"] = [x // 2 for x in cur] if op["kind"] == "copy_self_half" and all(x % 2 == 0 for x in cur) else list(cur)
        return op
    if k in ("addarr", "subarr") and "l" not in op:
        kind = op["kind"]
        n = cur_len
        if op.get("len") == "+1":
            n = cur_len + 1
        elif isinstance(op.get("len"), int):
            n = op["len"]
        if op.get("nonuniform"):
            n = max(3, cur_len)
            vals = [0, 1] + [3 + j for j in range(n - 2)]
        elif kind == "ta_sec3":
            # the instants of a 3 Hz clock written as float seconds: in whole ps the steps are 333333333333 / ...334
            from nitime.timeseries import TimeArray
            vals = [int(x) for x in np.asarray(TimeArray(np.arange(n) / 3., time_unit="s"))]
        elif op.get("near"):
            # a time operand (ps values) whose steps differ by a few ps only; the step is kept >= 1e6 ps where the
            # operation allows it ("half": half the current interval, so that -= would otherwise be permitted)
            near = op["near"]
            dr = op["dr"]
            dr_ps = max(cur_dt_ps // 2, 1) if dr == "half" else max(dr * cf, 10 ** 6)
            if near == "wobble":       # steps dr+1, dr-1, dr, dr+1, ... ps
                vals = [op["r0"] * cf + j * dr_ps + (1 if j % 3 == 1 else 0) for j in range(n)]
            else:
                vals = [op["r0"] * cf + j * dr_ps for j in range(n)]
                if n:
                    m = re.match(r"(first|mid|last)([+-])(\d*)$", near)
                    where, sg, mag = m.group(1), m.group(2), int(m.group(3) or 1)
                    i = {"first": 0, "mid": n // 2, "last": n - 1}[where]
                    vals[i] += mag if sg == "+" else -mag
        else:
            dr = op["dr"]
            if dr == "same":       # same interval as the axis has now (given in ps below)
                dr_ps = cur_dt_ps
            elif dr == "more":
                dr_ps = cur_dt_ps + cf
            else:
                dr_ps = dr * cf
            bare_kind = kind in ("int64", "int32", "list")
            if bare_kind:
                if dr_ps % cf:
                    dr_ps = (dr_ps // cf + 1) * cf
                vals = [op["r0"] + j * (dr_ps // cf) for j in range(n)]
            else:
                vals = [op["r0"] * cf + j * dr_ps for j in range(n)]
        op = {"k": k, "kind": kind, "l": vals}
    return op


def is_bare(kind):
    return kind in ("int", "npint", "int64", "int32", "list")


def operand(ts, op, axis, u=None):
    unit = axis[0]
    kind = op["kind"]
    if kind == "self_elem":
        return u[op["idx"]]                      # a 0-d time object read from the target itself
    if kind == "copy_elem":
        return u.copy()[op["idx"]]
    if kind == "other_elem":                     # the same instant read from another axis
        return ts.UniformTime(length=2, sampling_interval=1, t0=int(op["ps"]), time_unit="ps")[0]
    if kind == "self":
        return u                                 # u += u
    if kind == "self_view":
        return u[:]
    if kind == "copy_self":
        return u.copy()
    if kind == "copy_self_half":
        t = ts.TimeArray(np.array(op["l"], dtype=np.int64), time_unit="ps")
        t.convert_unit(unit)
        return t
    if "l" in op:
        l = op["l"]
        if kind == "ut":       # a genuine UniformTime ramp when it is one, else a TimeArray
            if len(l) >= 2 and len(set(b - a for a, b in zip(l, l[1:]))) == 1 and l[1] - l[0] > 0:
                u = ts.UniformTime(length=len(l), sampling_interval=int(l[1] - l[0]), t0=int(l[0]), time_unit="ps")
                assert [int(x) for x in np.asarray(u)] == list(l)
                return u
            return ts.TimeArray(np.array(l, dtype=np.int64), time_unit="ps")
        if kind == "ta":
            t = ts.TimeArray(np.array(l, dtype=np.int64), time_unit="ps")
            t.convert_unit(unit)
            return t
        if kind == "ta_sec3":
            t = ts.TimeArray(np.arange(len(l)) / 3., time_unit="s")
            assert [int(x) for x in np.asarray(t)] == list(l)
            return t
        if kind == "int64":
            return np.array(l, dtype=np.int64)
        if kind == "int32":
            return np.array(l, dtype=np.int32)
        if kind == "list":
            return list(l)
        raise KeyError(kind)
    v = op["v"]
    if kind == "int":
        return int(v)
    if kind == "npint":
        return np.int64(v)
    if kind == "ta":
        return ts.TimeArray(int(v), time_unit=unit)
    raise KeyError(kind)


def apply_op(ts, u, op, axis):
    """returns (axis object after the operation, exception or None)"""
    k = op["k"]
    try:
        if k == "add":
            u += operand(ts, op, axis, u)
        elif k == "sub":
            u -= operand(ts, op, axis, u)
        elif k == "addarr":
            u += operand(ts, op, axis, u)
        elif k == "subarr":
            u -= operand(ts, op, axis, u)
        elif k == "mul":
            u *= op["v"]
        elif k == "div":
            u /= op["v"]
        elif k == "slice":
            u = u[slice(op["a"], op["b"], op["c"])]
        elif k == "copy":
            u = u.copy()
        elif k == "setitem":
            u[op["i"]] = op["v"]
        else:
            raise KeyError(k)
    except Exception as e:  # noqa
        return u, e
    return u, None


def observe(u):
    try:
        return observe0(u)
    except Exception as e:  # noqa  (an axis that lost an attribute, e.g. on a derived object)
        return {"s": [int(x) for x in np.asarray(u)], "t0": 0, "dt": 0, "dur": 0, "rate": (0.0).hex(), "look": [],
                "cls": type(u).__name__, "unit": getattr(u, "time_unit", None),
                "broken": "%s: %s" % (type(e).__name__, str(e)[:100])}


def observe0(u):
    s = [int(x) for x in np.asarray(u)]
    look = []
    for i in range(len(s)):
        try:
            look.append(int(u.index_at(u[i])))
        except Exception as e:  # noqa
            look.append(err_name(e))
    return {"s": s, "t0": int(u.t0), "dt": int(u.sampling_interval), "dur": int(u.duration),
            "rate": float(u.sampling_rate).hex(), "look": look,
            "cls": type(u).__name__, "unit": u.time_unit}


def fresh(ts, axis):
    import copy
    unit, t0, dt, n = axis[:4]
    how = axis[4] if len(axis) > 4 else "ctor"
    if how == "series_time":
        return ts.TimeSeries(np.zeros(n), sampling_interval=dt, t0=t0, time_unit=unit).time
    if how == "positional":
        return ts.UniformTime(None, n, None, None, dt, t0, unit)
    if how == "from_duration":
        return ts.UniformTime(duration=n * dt, sampling_interval=dt, t0=t0, time_unit=unit)
    u = ts.UniformTime(length=n, sampling_interval=dt, t0=t0, time_unit=unit)
    if how == "ctor":
        return u
    if how == "plus0":
        return u + 0
    if how == "copycopy":
        return copy.copy(u)
    if how == "npcopy":
        return np.copy(u, subok=True)
    if how == "view":
        return u.view()
    if how == "fullslice":
        return u[:]
    if how == "copy_of_copy":
        return copy.copy(u.copy())
    if how == "from_axis":
        return ts.UniformTime(u)
    raise KeyError(how)


def run_history(ts, axis, ops):
    u = fresh(ts, axis)
    exc = None
    for op in ops:
        u, exc = apply_op(ts, u, op, axis)
    return u, exc


# ------------------------------------------------------------------ Coq terms
def op_coq(op, axis):
    cf = FACT[axis[0]]
    k = op["k"]
    if k in ("add", "sub"):
        bare = is_bare(op["kind"])
        v = op["ps"] if "ps" in op else (op["v"] if bare else op["v"] * cf)
        return "(%s %s %s)" % ("OpAddScalar" if k == "add" else "OpSubScalar", blit(bare), zlit(v))
    if k in ("addarr", "subarr"):
        return "(%s %s %s)" % ("OpAddArr" if k == "addarr" else "OpSubArr", blit(is_bare(op["kind"])), zlist(op["l"]))
    if k == "mul":
        return "(OpMul %s)" % zlit(op["v"])
    if k == "div":
        return "(OpDiv %s)" % zlit(op["v"])
    if k == "slice":
        o = lambda x: "None" if x is None else "(Some %s)" % zlit(x)
        return "(OpSlice %s %s %s)" % (o(op["a"]), o(op["b"]), zlit(op["c"]))
    if k == "copy":
        return "OpCopy"
    if k == "setitem":
        return "(OpSetItem %s %s)" % (zlit(op["i"]), zlit(op["v"]))
    raise KeyError(k)


def obs_coq(o, exc):
    if o.get("broken"):
        exc = "AttributeErr"        # cannot agree with the model: the correspondence lemma breaks on this node
    look = llit(["(Ok %s)" % zlit(x) if isinstance(x, int) else "(Err %s)" % x for x in o["look"]])
    return "(mk_obs %s %s %s %s %s %s %s)" % (
        zlist(o["s"]), zlit(o["t0"]), zlit(o["dt"]), zlit(o["dur"]), flit(float.fromhex(o["rate"])),
        "None" if exc is None else "(Some %s)" % exc, look)


def tree_coq(node, axis):
    return "(Node %s %s %s)" % (op_coq(node["op"], axis), obs_coq(node["obs"], node["exc"]),
                                llit([tree_coq(k, axis) for k in node["kids"]]))


def case_coq(axis, init, trees):
    unit, t0, dt, n = axis[:4]
    cf = FACT[unit]
    return "(mk_case %s %s %s %s %s %s)" % (zlit(t0 * cf), zlit(dt * cf), nlit(n), zlit(cf), obs_coq(init, None),
                                          llit([tree_coq(t, axis) for t in trees]))


# ------------------------------------------------------------------ building the trees (runs the implementation)
def build(ts, axis, prefix, schemes, depth, counter):
    nodes = []
    for sch in schemes:
        u, _ = run_history(ts, axis, prefix)
        op = concretize(sch, axis, len(u), int(u.sampling_interval), [int(x) for x in np.asarray(u)])
        u2, exc = apply_op(ts, u, op, axis)
        node = {"op": op, "obs": observe(u2), "exc": err_name(exc), "kids": []}
        counter[0] += 1
        if depth > 1:
            node["kids"] = build(ts, axis, prefix + [op], schemes, depth - 1, counter)
        nodes.append(node)
    return nodes


def build_path(ts, axis, schemes, counter):
    """a single history given as a list of schemes -> a degenerate tree"""
    prefix = []
    root = None
    cur = None
    for sch in schemes:
        u, _ = run_history(ts, axis, prefix)
        op = concretize(sch, axis, len(u), int(u.sampling_interval), [int(x) for x in np.asarray(u)])
        u2, exc = apply_op(ts, u, op, axis)
        node = {"op": op, "obs": observe(u2), "exc": err_name(exc), "kids": []}
        counter[0] += 1
        if root is None:
            root = node
        else:
            cur["kids"].append(node)
        cur = node
        prefix.append(op)
    return root


# ------------------------------------------------------------------ exact reference machine (the oracle)
def spec_step(a, op, cf):
    """a = (t0, dt, n) in ps; returns (a', None) when performed, (None, reason) when to be rejected"""
    t0, dt, n = a
    k = op["k"]
    if k in ("add", "sub"):
        # bare numbers and the 0-d TimeArray are given in the axis unit; an element read from an axis is what it is (ps)
        v = op["ps"] if "ps" in op else op["v"] * cf
        return (t0 + v if k == "add" else t0 - v, dt, n), None
    if k in ("addarr", "subarr"):
        l = [x * cf for x in op["l"]] if is_bare(op["kind"]) else list(op["l"])
        if len(l) != n:
            return None, "shape"
        if len(l) < 2:
            return None, "short"
        d = l[1] - l[0]
        if any(y - x != d for x, y in zip(l, l[1:])):
            return None, "nonuniform"
        sg = 1 if k == "addarr" else -1
        if dt + sg * d <= 0:
            return None, "nonpositive-interval"
        return (t0 + sg * l[0], dt + sg * d, n), None
    if k == "mul":
        if op["v"] < 1:
            return None, "nonpositive-interval"
        return (t0 * op["v"], dt * op["v"], n), None
    if k == "div":
        v = op["v"]
        if v < 1 or t0 % v or dt % v:
            return None, "not-whole-ps"
        return (t0 // v, dt // v, n), None
    if k == "slice":
        idx = range(n)[slice(op["a"], op["b"], op["c"])]
        if op["c"] < 1:
            return None, "step"
        return (t0 + idx.start * dt, dt * op["c"], len(idx)), None
    if k == "copy":
        return a, None
    if k == "setitem":
        return None, "setitem"
    raise KeyError(k)


def describes(a, o):
    """does the observed state o describe exactly the abstract axis a?  returns a reason or None"""
    t0, dt, n = a
    if o.get("broken"):
        return "attributes (%s)" % o["broken"]
    if o["s"] != [t0 + i * dt for i in range(n)]:
        return "samples"
    if o["t0"] != t0:
        return "t0"
    if o["dt"] != dt:
        return "sampling_interval"
    if o["dur"] != n * dt:
        return "duration"
    r = Fraction(float.fromhex(o["rate"]))
    want = Fraction(10 ** 12, dt)
    if abs(r - want) > abs(want) * Fraction(1, 10 ** 9):
        return "sampling_rate"
    if o["look"] != list(range(n)):
        return "index_at"
    return None


def same_state(o1, o2):
    return all(o1[k] == o2[k] for k in ("s", "t0", "dt", "dur", "rate"))


def judge(a, prev_obs, node, cf):
    """oracle for one node whose ancestors all conformed. returns (a', Fail|None)"""
    op = node["op"]
    k = op["k"]
    a2, why = spec_step(a, op, cf)
    o = node["obs"]
    if a2 is None:
        if node["exc"] is None or not same_state(prev_obs, o):
            if why == "nonpositive-interval":
                key = "C17/%s/nonpositive-interval" % k
                what = "an operation that leaves a zero or negative sampling interval is carried out instead of being refused"
            else:
                key = "C17/%s/not-rejected-%s" % (k, why)
                what = "operation that must be refused (%s) was %s" % (
                    why, "carried out" if node["exc"] is None else "refused but changed the axis")
            return a, Fail(key, what, {"exc": node["exc"], "state": o}, "an exception and the axis unchanged")
        return a, None
    if node["exc"] is not None:
        if k == "div":
            return a, Fail("C17/div/not-implemented", "/= by a divisor of t0 and interval raises %s" % node["exc"],
                           node["exc"], {"t0": a2[0], "dt": a2[1], "n": a2[2]})
        return a, Fail("C17/%s/refused" % k, "permitted operation raised %s" % node["exc"], node["exc"],
                       {"t0": a2[0], "dt": a2[1], "n": a2[2]})
    why = describes(a2, o)
    if why is not None:
        why = why.split(" ")[0]
        if k == "slice" and why != "samples":
            key = "C17/slice/metadata-inherited"
        else:
            key = "C17/%s/%s" % (k, why)
        return a2, Fail(key, "after the operation the %s does not describe the samples" % why, o,
                        {"t0": a2[0], "dt": a2[1], "n": a2[2]})
    return a2, None


def walk(ctx, axis, a, prev_obs, nodes, prefix, stats):
    cf = FACT[axis[0]]
    for node in nodes:
        stats["judged"] += 1
        a2, f = judge(a, prev_obs, node, cf)
        if f is not None:
            stats["fail"] += 1
            f.replay = {"entry_point": "nitime.timeseries.UniformTime", "axis": list(axis), "ops": prefix + [node["op"]]}
            ctx.report_fail(f)
            continue            # descendants start from a state that no longer conforms: left to K
        walk(ctx, axis, a2, node["obs"], node["kids"], prefix + [node["op"]], stats)


# ------------------------------------------------------------------ run
HEADER = ("From Coq Require Import ZArith List Bool QArith PrimFloat.\n"
          "From NT Require Import F2Z Lists TimeArray UTimeOps C17K.\nImport ListNotations.\nOpen Scope Z_scope.\n")


def corpus_histories():
    p = core.VERIF / "harness" / "corpus" / "C17"
    out = []
    if p.exists():
        for f in sorted(p.glob("*.json")):
            d = json.loads(f.read_text())
            out.append((tuple(d["axis"]), d["ops"]))
    return out


def run(ctx):
    core.import_nitime()
    import nitime.timeseries as ts
    ctx.check_props()
    # (axes, alphabet, depth): quick = depth 3 everywhere; thorough = depth 4 on four axes (lengths 1, 3, 4, 6) with the
    # basic alphabet and depth 3 with the extended alphabet on all eight axes (lengths 1..8)
    if ctx.quick:
        plans = [(AXES_QUICK, alphabet(True), 3)]
    else:
        plans = [(AXES_QUICK[:4], alphabet(True), 4), (AXES_THOROUGH, alphabet(False), 3)]
    base_axes = AXES_QUICK if ctx.quick else AXES_THOROUGH
    def derived(axes):
        return [ax + (how,) for ax in axes for how in DERIVE]
    if ctx.quick:
        plans.append((derived(AXES_QUICK[::2]), alphabet(True), 2))
    else:
        plans.append((derived(base_axes), alphabet(True), 2))
        plans.append((derived([AXES_QUICK[0], AXES_QUICK[6]]), alphabet(True), 3))
    cases = []
    stats = {"judged": 0, "fail": 0}
    counter = [0]

    def emit(axis, init, a0, t, kl, replay):
        cases.append(Case(case_coq(axis, init, [t]), replay, kl, True))
        walk(ctx, axis, a0, init, [t], [], stats)      # the tree is dropped afterwards: memory stays bounded

    for axes, schemes, depth in plans:
        for axis in axes:
            cf = FACT[axis[0]]
            init = observe(fresh(ts, axis))
            a0 = (axis[1] * cf, axis[2] * cf, axis[3])
            why = describes(a0, init)
            if why is not None:
                ctx.report_fail(Fail("C17/construct/%s/%s" % (axis[4] if len(axis) > 4 else "ctor", why.split(" ")[0]),
                                     "axis obtained by %s is not self-consistent: %s" % (axis[4] if len(axis) > 4 else "the constructor", why),
                                     init, a0, {"axis": list(axis), "ops": []}))
            for sch in schemes:
                t = build(ts, axis, [], [sch], 1, counter)[0]
                if depth > 1:
                    t["kids"] = build(ts, axis, [t["op"]], schemes, depth - 1, counter)
                emit(axis, init, a0, t, "%s/%s/%s/depth%d" % (axis[0], axis[4] if len(axis) > 4 else "ctor", t["op"]["k"], depth),
                     {"axis": list(axis), "first_op": t["op"]})
    for axis in AXES_QUICK if ctx.quick else AXES_THOROUGH:
        cf = FACT[axis[0]]
        init = observe(fresh(ts, axis))
        a0 = (axis[1] * cf, axis[2] * cf, axis[3])
        for h in EXTRA:
            t = build_path(ts, axis, h, counter)
            emit(axis, init, a0, t, "%s/extra" % axis[0], {"axis": list(axis), "history": h})
    for cax, cops in corpus_histories():        # minimised histories kept from development (fixed defects)
        cf = FACT[cax[0]]
        init = observe(fresh(ts, cax))
        t = build_path(ts, cax, cops, counter)
        emit(cax, init, (cax[1] * cf, cax[2] * cf, cax[3]), t, "corpus", {"axis": list(cax), "ops": cops})
    nshard = max(1, (len(cases) + core.NCPU - 1) // core.NCPU)
    bad = check_cases_retry(ctx, "K", HEADER, cases, "check", shard=nshard, case_type="case", timeout=2400)
    ctx.cases_total = counter[0]
    ctx.extra["histories_nodes"] = counter[0]
    ctx.extra["oracle_nodes_judged"] = stats["judged"]
    ctx.extra["oracle_nodes_failing"] = stats["fail"]
    ctx.extra["plans"] = [{"axes": [list(a) for a in axes], "operations": len(schemes), "depth": depth} for axes, schemes, depth in plans]
    ctx.extra["model_impl_disagreements"] = len(bad)
    ctx.extra["rule"] = ("exhaustive: every sequence of length <= depth over the operation alphabet (12 basic / 14 extended schemes; "
                         "array operands rebuilt for the current length) from each axis of the generating set, plus hand-written "
                         "histories (zero / negative factors, operands of wrong length, int32 / list / TimeArray operands, time operands whose steps differ by 1-3 ps only or "
                         "come from float seconds at 3 Hz) and the corpus; "
                         "evaluations = nodes of the history trees; a K case = (axis, first operation) subtree")
    return ctx.finish(
        trusted=["numpy int64 in-place arithmetic, basic slicing and floor division as modelled in Model/UTimeOps.v (no wrap-around: small axes)"],
        assumptions=["the rate attribute is compared within rtol 1e-9 (float64 in the implementation, exact rational in the model)",
                     "after a node that violates the property (known finding) the oracle does not judge its descendants; the "
                     "model/implementation comparison (K) still covers them"])


def replay(ctx, path):
    core.import_nitime()
    import nitime.timeseries as ts
    d = json.loads(open(path).read())
    d = d.get("case") or d
    axis = tuple(d["axis"])
    ops = d["ops"]
    cf = FACT[axis[0]]
    a = (axis[1] * cf, axis[2] * cf, axis[3])
    prev = observe(fresh(ts, axis))
    fail = None
    for i in range(len(ops)):
        u, exc = run_history(ts, axis, ops[:i + 1])
        node = {"op": ops[i], "obs": observe(u), "exc": err_name(exc), "kids": []}
        a, f = judge(a, prev, node, cf)
        print(json.dumps({"step": i, "op": ops[i], "exc": node["exc"], "observed": node["obs"],
                          "fails": None if f is None else f.what, "key": None if f is None else f.key}))
        if f is not None:
            fail = f
            break
        prev = node["obs"]
    return 1 if fail else 0
