"""C10 — autoregressive estimates solve the Yule-Walker equations of the data.

P: coq/Props/C10.v (Levinson-Durbin solves the Hermitian Toeplitz normal equations for every order,
   sigma identities, YW = LD for a non-singular system, exact recovery, AR_psd formula, generator recursion)
K: seeded calls of AR_est_LD / AR_est_YW / AR_psd / ar_generator; the Coq kernel evaluates the model
   (Model/AR.v) in exact Q[i] arithmetic on the same inputs and compares with what the implementation
   returned.  Library kernels are data: R = utils.autocorr(x) (C20's job), scipy.linalg.solve's output,
   sigma ** 0.5, e^{-jw}; their contracts are validated inside Coq on each case.
oracle (search): independent float64 check of every clause of the statement on the implementation's
   results (normal-equation residual against a directly summed autocorrelation, agreement of the two
   estimators, sigma identity and sign, root moduli, exact recovery, spectrum formula, recursion).
"""
import json

import numpy as np

from vt import core
from vt.core import Case, Fail, flit, blit, llit, nlit

CORPUS = core.VERIF / "harness" / "corpus" / "C10"


# ------------------------------------------------------------------ encoding
def hx(x):
    return float(x).hex()


def hxc(z):
    z = complex(z)
    return [z.real.hex(), z.imag.hex()]


def uhx(s):
    return float.fromhex(s)


def uhxc(p):
    return complex(float.fromhex(p[0]), float.fromhex(p[1]))


def cfl(z):
    z = complex(z)
    return "(%s, %s)" % (flit(z.real), flit(z.imag))


def cfl_list(a):
    return llit([cfl(z) for z in a])


# ------------------------------------------------------------------ running the implementation
def build_est_inputs(spec):
    """x / rxx arrays of an estimator spec.  spec["variant"]: plain | strided (non-contiguous view) |
    int (integer dtype signal) | kw (keyword call) — the values are the same in every form."""
    var = spec.get("variant", "plain")
    x = None
    if spec.get("x") is not None:
        xs = [uhxc(p) for p in spec["x"]]
        x = np.array(xs, dtype=complex) if spec["complex"] else np.array([z.real for z in xs], dtype=float)
        if var == "int":
            x = np.array([int(round(z.real)) for z in xs], dtype=np.int64)
        elif var == "strided":
            buf = np.zeros(2 * len(x) + 1, dtype=x.dtype)
            buf[1::2] = x
            buf[0::2] = 12345.0
            x = buf[1::2]
    rxx = None
    if spec.get("rxx") is not None:
        r = [uhxc(p) for p in spec["rxx"]]
        dt = spec.get("rxx_dtype", "complex")
        if dt == "complex":
            rxx = np.array(r, dtype=complex)
        elif dt == "float":
            rxx = np.array([z.real for z in r], dtype=float)
        elif dt == "int":
            rxx = np.array([int(round(z.real)) for z in r], dtype=np.int64)
        else:
            raise ValueError(dt)
        if var == "strided":
            buf = np.zeros(2 * len(rxx), dtype=rxx.dtype)
            buf[0::2] = rxx
            rxx = buf[0::2]
    return x, rxx


def run_est(spec):
    """AR_est_LD and AR_est_YW on the same input.  Returns the observation dict."""
    import nitime.algorithms as tsa
    import nitime.utils as utils
    x, rxx = build_est_inputs(spec)
    order = spec["order"]
    obs = {}
    # the autocorrelation sequence the estimators work from (library/C20 side, handed to the model as data)
    if rxx is not None:
        R = np.asarray(rxx)[:order + 1]
    else:
        R = utils.autocorr(x)[:order + 1]
    obs["R"] = [hxc(z) for z in np.asarray(R, dtype=complex)]
    for name, fn in (("ld", tsa.AR_est_LD), ("yw", tsa.AR_est_YW)):
        try:
            if spec.get("variant") == "kw":
                ak, s = fn(x=x, order=order, rxx=rxx)
            else:
                ak, s = fn(x, order, rxx)
            ak = np.asarray(ak)
            obs[name] = {"ak": [hxc(z) for z in ak.astype(complex)], "sigma": hx(np.real(s)),
                         "dtype": str(ak.dtype), "sigma_imag": hx(np.imag(s))}
        except Exception as e:  # noqa
            obs[name] = {"err": type(e).__name__, "msg": str(e)[:200]}
    return obs


def run_psd(spec):
    import nitime.algorithms as tsa
    ak = np.array([uhxc(p) for p in spec["ak"]], dtype=complex)
    if not spec["complex"]:
        ak = ak.real.copy()
    sigma = uhx(spec["sigma"])
    try:
        w, psd = tsa.AR_psd(ak, sigma, n_freqs=spec["n_freqs"], sides=spec["sides"])
        return {"w": [hx(v) for v in w], "psd": [hx(v) for v in psd], "psd_dtype": str(np.asarray(psd).dtype)}
    except Exception as e:  # noqa
        return {"err": type(e).__name__, "msg": str(e)[:200]}


def run_gen(spec):
    import nitime.utils as utils
    coefs = np.array([uhxc(p) for p in spec["coefs"]], dtype=complex)
    if not spec["complex"]:
        coefs = coefs.real.copy()
    sigma = uhx(spec["sigma"])
    try:
        if spec.get("v") is not None:
            v = np.array([uhxc(p) for p in spec["v"]], dtype=complex)
            if not spec["complex"]:
                v = v.real.copy()
            u, vo, c = utils.ar_generator(N=spec["N"], sigma=sigma, coefs=coefs, drop_transients=spec["drop"], v=v)
        else:
            np.random.seed(spec["seed"])
            u, vo, c = utils.ar_generator(N=spec["N"], sigma=sigma, coefs=coefs, drop_transients=spec["drop"])
        return {"u": [hxc(z) for z in np.asarray(u, dtype=complex)], "v": [hxc(z) for z in np.asarray(vo, dtype=complex)],
                "c": [hxc(z) for z in np.asarray(c, dtype=complex)]}
    except Exception as e:  # noqa
        return {"err": type(e).__name__, "msg": str(e)[:200]}


# ------------------------------------------------------------------ reference quantities (oracle side)
def toep_ref(R, p):
    T = np.empty((p, p), dtype=complex)
    for i in range(p):
        for j in range(p):
            T[i, j] = R[i - j] if j <= i else np.conj(R[j - i])
    return T


def autocorr_ref(x, p):
    """R[k] = (1/N) sum_n x[n+k] conj(x[n]) by direct summation (independent of fftconvolve)."""
    x = np.asarray(x, dtype=complex)
    N = len(x)
    return np.array([np.dot(x[k:], np.conj(x[:N - k])) / N for k in range(p + 1)])


def cond_of(R, p):
    T = toep_ref(np.asarray(R, dtype=complex), p)
    try:
        c = float(np.linalg.cond(T))
    except Exception:  # noqa
        c = float("inf")
    return c if np.isfinite(c) else 1e300


def oracle_est(spec, obs):
    """every clause of the statement about the two estimators, on the implementation's results"""
    p = spec["order"]
    x, rxx = build_est_inputs(spec)
    if rxx is not None:
        R = np.asarray(rxx, dtype=complex)[:p + 1]
    else:
        R = autocorr_ref(x, p)
    cls = spec.get("rxx_kind", "computed")
    if abs(R[0].imag) > 1e-9 * abs(R[0]) or R[0].real == 0:
        return None   # outside the quantifier: R(0) of an autocorrelation sequence is real and non-zero
    cond = cond_of(R, p)
    T = toep_ref(R, p)
    y = R[1:p + 1]
    tol_res = min(1e-3, max(1e-8, 1e-12 * cond))
    tol_fwd = min(1e-2, max(1e-8, 1e-11 * cond))
    sols = {}
    for name, label in (("ld", "AR_est_LD"), ("yw", "AR_est_YW")):
        o = obs[name]
        if "err" in o:
            return Fail("C10/%s/raises/%s" % (label, cls), "%s raised %s: %s" % (label, o["err"], o["msg"]), o, "a result")
        a = np.array([uhxc(q) for q in o["ak"]])
        s = uhx(o["sigma"])
        if len(a) != p:
            return Fail("C10/%s/shape/%s" % (label, cls), "%d coefficients returned for order %d" % (len(a), p), len(a), p)
        if not (np.all(np.isfinite(a)) and np.isfinite(s)):
            return Fail("C10/%s/non-finite/%s" % (label, cls), "non-finite coefficients or variance", o, "finite values")
        sols[name] = (a, s)
        scale = np.abs(T) @ np.abs(a) + np.abs(y)
        rel = float(np.max(np.abs(T @ a - y) / np.where(scale > 0, scale, 1)))
        if rel > tol_res:
            return Fail("C10/%s/normal-equations/%s" % (label, cls),
                        "%s coefficients do not satisfy the Yule-Walker equations (relative residual %.3g, tolerance %.3g, cond %.3g)"
                        % (label, rel, tol_res, cond), {"ak": o["ak"], "residual": rel}, "residual <= %.3g" % tol_res)
        sf = (R[0] - np.dot(a, np.conj(y))).real
        ssc = abs(R[0]) + float(np.dot(np.abs(a), np.abs(y)))
        if abs(s - sf) > max(tol_res, 1e-9) * ssc:
            return Fail("C10/%s/sigma/%s" % (label, cls),
                        "%s innovation variance %.17g differs from R(0) - sum a_k conj(R(k)) = %.17g" % (label, s, sf),
                        s, sf)
        if spec.get("pd"):
            if not s > 0:
                return Fail("C10/%s/sigma-positive/%s" % (label, cls), "%s innovation variance %.3g is not positive" % (label, s), s, "> 0")
            rts = np.roots(np.r_[1, -a])
            m = float(np.max(np.abs(rts))) if len(rts) else 0.0
            if not m < 1 + 1e-7:
                return Fail("C10/%s/stability/%s" % (label, cls), "%s model has a root of modulus %.9g" % (label, m), m, "< 1")
        if spec.get("alpha") is not None:
            al = np.array([uhxc(q) for q in spec["alpha"]])
            if cond < 1e9 and np.max(np.abs(a - al)) > max(tol_fwd, 1e-7) * max(1.0, float(np.max(np.abs(al)))):
                return Fail("C10/%s/exact-recovery/%s" % (label, cls),
                            "%s does not recover the coefficients of the process whose exact autocovariance was supplied (max error %.3g)"
                            % (label, float(np.max(np.abs(a - al)))), o["ak"], spec["alpha"])
    (a1, s1), (a2, s2) = sols["ld"], sols["yw"]
    if cond < 1e9:
        d = float(np.max(np.abs(a1 - a2)))
        if d > tol_fwd * max(1.0, float(np.max(np.abs(a2)))):
            return Fail("C10/estimators-agree/%s" % cls,
                        "AR_est_LD and AR_est_YW coefficients differ by %.3g (cond %.3g)" % (d, cond),
                        {"ld": obs["ld"]["ak"], "yw": obs["yw"]["ak"]}, "equal")
        if abs(s1 - s2) > tol_fwd * (abs(R[0]) + float(np.dot(np.abs(a2), np.abs(y)))):
            return Fail("C10/estimators-agree-sigma/%s" % cls, "innovation variances differ: LD %.17g YW %.17g" % (s1, s2),
                        s1, s2)
    return None


def oracle_psd(spec, obs):
    key = "C10/AR_psd/%s" % spec["sides"]
    if "err" in obs:
        return Fail(key + "/raises", "AR_psd raised %s: %s" % (obs["err"], obs["msg"]), obs, "a result")
    ak = np.array([uhxc(p) for p in spec["ak"]])
    sigma = uhx(spec["sigma"])
    w = np.array([uhx(v) for v in obs["w"]])
    psd = np.array([uhx(v) for v in obs["psd"]])
    if len(w) != len(psd):
        return Fail(key + "/shape", "grid has %d points, spectrum %d" % (len(w), len(psd)), len(psd), len(w))
    den = 1 - sum(ak[k] * np.exp(-1j * w * (k + 1)) for k in range(len(ak)))
    ref = sigma / np.abs(den) ** 2 * (2 if spec["sides"] == "onesided" else 1)
    rel = float(np.max(np.abs(psd - ref) / np.abs(ref))) if len(ref) else 0.0
    if not rel < 1e-8:
        return Fail(key + "/formula", "AR_psd differs from sigma^2/|1 - sum a_k e^{-iwk}|^2%s on the returned grid (max rel. error %.3g)"
                    % (" doubled" if spec["sides"] == "onesided" else "", rel), obs["psd"][:4], [hx(v) for v in ref[:4]])
    return None


def oracle_gen(spec, obs):
    key = "C10/ar_generator/%s" % ("v-supplied" if spec.get("v") is not None else "v-drawn")
    if "err" in obs:
        return Fail(key + "/raises", "ar_generator raised %s: %s" % (obs["err"], obs["msg"]), obs, "a result")
    coefs = np.array([uhxc(p) for p in spec["coefs"]])
    s = uhx(spec["sigma"]) ** 0.5
    u = np.array([uhxc(p) for p in obs["u"]])
    v = np.array([uhxc(p) for p in obs["v"]])
    c = np.array([uhxc(p) for p in obs["c"]])
    P = len(coefs)
    if len(u) != len(v):
        return Fail(key + "/shape", "u has %d samples, v %d" % (len(u), len(v)), len(u), len(v))
    if len(c) != P or np.max(np.abs(c - coefs)) > 0:
        return Fail(key + "/coefs", "returned coefficients differ from the ones passed in", obs["c"], spec["coefs"])
    if spec.get("v") is not None:
        vin = np.array([uhxc(p) for p in spec["v"]])[spec["drop"]:]
        if len(vin) != len(v) or (len(v) and np.max(np.abs(vin - v)) > 0):
            return Fail(key + "/innovations", "returned innovations are not v[drop_transients:]", obs["v"][:4], [hxc(z) for z in vin[:4]])
    start = 0 if spec["drop"] == 0 else P
    for n in range(start, len(u)):
        acc = s * v[n]
        sc = abs(s * v[n])
        for k in range(P):
            if n - 1 - k >= 0:
                acc += coefs[k] * u[n - 1 - k]
                sc += abs(coefs[k] * u[n - 1 - k])
        if abs(u[n] - acc) > 1e-9 * (sc + abs(u[n])) + 1e-300:
            return Fail(key + "/recursion", "u[%d] = %r but sum_k coefs[k] u[n-1-k] + sqrt(sigma) v[n] = %r" % (n, complex(u[n]), complex(acc)),
                        hxc(u[n]), hxc(acc))
    return None


# ------------------------------------------------------------------ Coq cases
def tol_for(cond, p):
    return min(1e-4, max(1e-9, 1e-13 * cond * p))


def est_cases(spec, obs):
    """KLD and KYW cases of one estimator input (empty when a call raised)."""
    import scipy.linalg as la
    out = []
    p = spec["order"]
    R = np.array([uhxc(q) for q in obs["R"]])
    if len(R) < p + 1 or not np.all(np.isfinite(R)) or R[0].real == 0:
        return out
    if spec.get("tie_autocorr") and spec.get("x") is not None and spec.get("rxx") is None:
        # the sequence AR_est_* get from utils.autocorr, against the lagged-sum contract (small-integer data)
        x, _ = build_est_inputs(spec)
        out.append(Case("(KAC %s %s %s)" % (cfl_list(x), nlit(p), cfl_list(R)), {"spec": spec, "which": "autocorr"},
                        "AC/%s/N%s" % ("complex" if spec["complex"] else "real", "<=130" if len(x) <= 130 else ">130")))
    if spec.get("oracle_only"):
        return out
    cond = cond_of(R, p)
    cheap = spec.get("rxx_kind") in ("supplied-short", "supplied-int-dtype")
    fwd = cond < 1e8 and (p <= 4 or (cheap and p <= 6))     # exact evaluation of the whole loop is costly for high orders
    tol = tol_for(cond, p)
    kl = "%s/%s/order%d" % ("complex" if spec["complex"] else "real", spec.get("rxx_kind", "computed"), min(p, 9))
    if "err" not in obs["ld"]:
        o = obs["ld"]
        coq = "(KLD %s %s %s %s %s %s)" % (cfl_list(R), nlit(p), blit(fwd), flit(tol),
                                          cfl_list([uhxc(q) for q in o["ak"]]), flit(uhx(o["sigma"])))
        out.append(Case(coq, {"spec": spec, "which": "ld"}, "LD/" + kl + ("" if fwd else "/residual-only")))
        if p >= 2 and cond < 1e8 and not spec.get("no_step"):
            # the last loop pass alone: orders p-2, p-1, p of the implementation on the same input
            import nitime.algorithms as tsa
            x, rxx = build_est_inputs(spec)
            try:
                a1, _ = tsa.AR_est_LD(x, p - 1, rxx)
                b2 = R[0].real if p == 2 else tsa.AR_est_LD(x, p - 2, rxx)[1]
                coq = "(KLDS %s %s %s %s %s %s)" % (cfl_list(R), nlit(p), cfl_list(np.asarray(a1, dtype=complex)), flit(float(np.real(b2))),
                                                   cfl_list([uhxc(q) for q in o["ak"]]), flit(uhx(o["sigma"])))
                out.append(Case(coq, {"spec": spec, "which": "ld-step"}, "LDstep/" + kl))
            except Exception:  # noqa
                pass
    if "err" not in obs["yw"]:
        o = obs["yw"]
        try:
            xs = la.solve(la.toeplitz(R[:p]), R[1:p + 1])
        except Exception:  # noqa
            return out
        coq = "(KYW %s %s %s %s %s %s %s)" % (cfl_list(R), nlit(p), blit(fwd), flit(tol), cfl_list(xs),
                                             cfl_list([uhxc(q) for q in o["ak"]]), flit(uhx(o["sigma"])))
        out.append(Case(coq, {"spec": spec, "which": "yw"}, "YW/" + kl + ("" if fwd else "/residual-only")))
    return out


def psd_case(spec, obs):
    if "err" in obs or spec.get("oracle_only"):
        return None
    sigma = uhx(spec["sigma"])
    s = sigma ** 0.5
    w = np.array([uhx(v) for v in obs["w"]])
    zs = np.exp(-1j * w)
    coq = "(KPSD %s %s %s %s %s %s %s)" % (flit(s), flit(sigma), cfl_list([uhxc(p) for p in spec["ak"]]),
                                          blit(spec["sides"] == "onesided"), nlit(spec["n_freqs"]), cfl_list(zs),
                                          llit([flit(uhx(v)) for v in obs["psd"]]))
    return Case(coq, {"spec": spec}, "PSD/%s/%s/n%s" % ("complex" if spec["complex"] else "real", spec["sides"],
                                                        "even" if spec["n_freqs"] % 2 == 0 else "odd"))


def gen_case(spec, obs):
    if "err" in obs or spec.get("oracle_only"):
        return None
    sigma = uhx(spec["sigma"])
    s = sigma ** 0.5
    coefs = [uhxc(p) for p in spec["coefs"]]
    u = [uhxc(p) for p in obs["u"]]
    v = [uhxc(p) for p in obs["v"]]
    if spec.get("v") is not None:
        coq = "(KGENV %s %s %s %s %s %s %s %s)" % (flit(s), flit(sigma), cfl_list(coefs), nlit(spec["drop"]),
                                                  cfl_list([uhxc(p) for p in spec["v"]]), cfl_list(u), cfl_list(v),
                                                  cfl_list([uhxc(p) for p in obs["c"]]))
        kl = "GEN/v-supplied"
    else:
        coq = "(KGENR %s %s %s %s %s %s)" % (flit(s), flit(sigma), cfl_list(coefs), nlit(spec["drop"]), cfl_list(u), cfl_list(v))
        kl = "GEN/v-drawn"
    return Case(coq, {"spec": spec}, "%s/%s/drop%s" % (kl, "complex" if spec["complex"] else "real", "0" if spec["drop"] == 0 else "+"))


# ------------------------------------------------------------------ generators
def stable_coefs(rng, p, cplx, rmax):
    """coefficients a_1..a_p of 1 - sum a_k z^-k with all poles of modulus <= rmax"""
    poles = []
    if cplx:
        for _ in range(p):
            poles.append(rng.uniform(0.2, rmax) * np.exp(1j * rng.uniform(-np.pi, np.pi)))
    else:
        while len(poles) < p:
            if p - len(poles) >= 2 and rng.random() < 0.7:
                z = rng.uniform(0.2, rmax) * np.exp(1j * rng.uniform(0.1, np.pi - 0.1))
                poles += [z, np.conj(z)]
            else:
                poles.append(rng.choice([-1, 1]) * rng.uniform(0.1, rmax))
    poly = np.poly(poles)            # 1, -a_1, ..., -a_p
    a = -poly[1:]
    return a if cplx else a.real


def short(x, bits):
    """round to a short dyadic so that exact arithmetic in Coq stays small"""
    if x == 0:
        return 0.0
    m, e = np.frexp(x)
    return float(np.ldexp(np.round(m * 2 ** bits) / 2 ** bits, e))


def shortc(z, bits, cplx=True):
    z = complex(z)
    return complex(short(z.real, bits), short(z.imag, bits) if cplx else 0.0)


def gen_signal(rng, N, cplx, rmax):
    import scipy.signal as sig
    p = rng.randint(1, 6)
    a = stable_coefs(rng, p, cplx, rmax)
    nprng = np.random.RandomState(rng.randint(0, 2 ** 31 - 1))
    e = nprng.standard_normal(N + 200)
    if cplx:
        e = e + 1j * nprng.standard_normal(N + 200)
    x = sig.lfilter([1.0], np.r_[1, -a], e)[200:]
    if rng.random() < 0.3:
        x = x + rng.uniform(-2, 2) + (1j * rng.uniform(-2, 2) if cplx else 0)   # not zero-mean
    return x


def exact_acov(a, sigma2, nlags):
    """exact autocovariance R[0..nlags] of the stable process x_n = sum a_k x_{n-k} + e_n (float64 solve)"""
    a = np.asarray(a, dtype=complex)
    p = len(a)
    n = max(p, nlags) + 1
    # unknowns R_0..R_{n-1} (complex: solve for real and imaginary parts); equations
    # R_k = sum_j a_j R_{k-j} (k >= 1), R_0 = sum_j a_j conj(R_j) + sigma2, with R_{-m} = conj(R_m)
    M = np.zeros((2 * n, 2 * n))
    b = np.zeros(2 * n)

    def add(row, coef, idx, conj):
        # coef * (R_idx or conj(R_idx)) contributes to complex equation `row`
        cr, ci = coef.real, coef.imag
        s = -1.0 if conj else 1.0
        M[2 * row, 2 * idx] += cr
        M[2 * row, 2 * idx + 1] += -ci * s
        M[2 * row + 1, 2 * idx] += ci
        M[2 * row + 1, 2 * idx + 1] += cr * s
    for k in range(n):
        add(k, 1.0 + 0j, k, False)
        for j in range(1, p + 1):
            m = k - j
            if m >= 0:
                add(k, -a[j - 1], m, False)
            elif -m < n:
                add(k, -a[j - 1], -m, True)
        if k == 0:
            b[0] = sigma2
    sol = np.linalg.solve(M, b)
    R = sol[0::2] + 1j * sol[1::2]
    return R[:nlags + 1]


def int_signal(rng, N, cplx):
    """coloured small-integer signal (moving sum of integer noise): sums of products are exact in float64"""
    nprng = np.random.RandomState(rng.randint(0, 2 ** 31 - 1))
    e = nprng.randint(-9, 10, size=N + 2).astype(float)
    x = e[2:] + 2 * e[1:-1] + e[:-2]
    if cplx:
        f = nprng.randint(-9, 10, size=N + 2).astype(float)
        x = x + 1j * (f[2:] - f[:-2])
    if not np.any(x):
        x[0] = 1
    return x


def gen_length_sweep(ctx):
    """the quantifier's size range for signal-based calls: EVERY length 16..130 once per run, plus lengths up to
    4096 around powers of two, 5-smooth numbers, primes and seeded draws; orders up to min(16, N/4); real and
    complex.  Checked by the oracle against directly summed autocorrelations (independent of nitime's FFT route);
    a few of them also tie utils.autocorr inside Coq (KAC)."""
    rng = ctx.rng
    out = []
    big = [1000, 1023, 1024, 1025, 1080, 1125, 1215, 1999, 2025, 2047, 2048, 2049, 3125, 3645, 4000, 4050, 4093, 4095, 4096]
    big += [rng.randint(131, 4096) for _ in range(ctx.scale(12, 60))]
    lengths = list(range(16, 131)) + big
    tie = set(rng.sample(range(16, 131), ctx.scale(10, 40)) + [21, 37, 61, 113] + rng.sample(big, ctx.scale(2, 8)))
    for N in lengths:
        for cplx in ([False, True] if (N % 3 == 0 or N > 130) else [False]):
            integer = rng.random() < 0.6 or N in tie
            if integer:
                x = int_signal(rng, N, cplx)
            else:
                x = gen_signal(rng, N, cplx, rng.choice([0.6, 0.9, 0.97])) * 2.0 ** rng.choice([0, 0, -60, 40])
            p = rng.randint(1, max(1, min(16, N // 4)))
            s = {"kind": "est", "complex": cplx, "order": p, "x": [hxc(z) for z in x], "N": N, "rxx": None,
                 "rxx_kind": "computed-sweep", "pd": True, "oracle_only": True,
                 "variant": "int" if (integer and not cplx and rng.random() < 0.3) else rng.choice(["plain", "strided", "kw"])}
            if N in tie and integer:
                s["tie_autocorr"] = True
                s["order"] = min(p, 8)
            out.append(s)
    return out


def gen_est_specs(ctx):
    rng = ctx.rng
    specs = []
    n_sig = ctx.scale(60, 300)
    for i in range(n_sig):
        cplx = rng.random() < 0.55
        N = rng.choice([16, 17, 24, 31, 32, 50, 64, 100, 128] + ([255, 256, 512] if ctx.quick else [255, 256, 1000, 1024, 2048, 4096]))
        rmax = rng.choice([0.6, 0.8, 0.9, 0.97, 0.995])
        x = gen_signal(rng, N, cplx, rmax)
        sexp = rng.choice([0, 0, 0, -60, -31, -7, 13, 40])
        x = x * 2.0 ** sexp                      # magnitude range: exact power-of-two scaling
        pmax = max(1, min(8 if ctx.quick else 16, N // 4))
        p = rng.randint(1, pmax)
        base = {"kind": "est", "complex": cplx, "order": p, "x": [hxc(z) for z in x], "N": N, "scale_exp": sexp,
                "variant": rng.choice(["plain", "plain", "strided", "kw"])}
        r = rng.random()
        if r < 0.5:
            s = dict(base, rxx=None, rxx_kind="computed", pd=True)
        elif r < 0.7:
            import nitime.utils as utils
            rx = utils.autocorr(x)
            s = dict(base, rxx=[hxc(z) for z in rx[:p + 1 + rng.randint(0, 3)]], rxx_dtype="complex" if cplx else "float",
                     rxx_kind="supplied-biased", pd=True)
        elif r < 0.85:
            # unbiased estimate: may be indefinite -> positivity/stability are not demanded
            rx = autocorr_ref(x, p + 2) * N / (N - np.arange(p + 3))
            if not cplx:
                rx = rx.real
            s = dict(base, rxx=[hxc(z) for z in rx], rxx_dtype="complex" if cplx else "float", rxx_kind="supplied-unbiased", pd=False)
        else:
            # supplied autocovariance (mean removed)
            import nitime.utils as utils
            rx = utils.autocov(x)
            s = dict(base, rxx=[hxc(z) for z in rx[:p + 1]], rxx_dtype="complex" if cplx else "float", rxx_kind="supplied-autocov", pd=True)
        specs.append(s)
    specs += gen_length_sweep(ctx)
    # exact autocovariance of known stable processes (exact recovery)
    for i in range(ctx.scale(30, 150)):
        cplx = rng.random() < 0.5
        p = rng.randint(1, 6 if ctx.quick else 10)
        a = stable_coefs(rng, p, cplx, rng.choice([0.5, 0.7, 0.85]))
        sig2 = rng.choice([0.5, 1.0, 2.0, 3.7]) * 2.0 ** rng.choice([0, 0, -60, 40, 17])
        R = exact_acov(a, sig2, p + 1)
        if not cplx:
            R = R.real
        specs.append({"kind": "est", "complex": cplx, "order": p, "x": None, "rxx": [hxc(z) for z in R],
                      "rxx_dtype": "complex" if cplx else "float", "rxx_kind": "supplied-exact", "pd": True,
                      "alpha": [hxc(z) for z in a], "sigma2": hx(sig2)})
    # short dyadic positive definite sequences (autocorrelation of short integer signals), incl. integer dtype
    for i in range(ctx.scale(30, 100)):
        cplx = rng.random() < 0.5
        L = rng.randint(4, 10)
        xs = np.array([rng.randint(-4, 4) + (1j * rng.randint(-4, 4) if cplx else 0) for _ in range(L)], dtype=complex)
        if not np.any(xs):
            xs[0] = 1
        p = rng.randint(1, min(6, L - 1))
        R = autocorr_ref(xs, p) * L          # integer-valued
        intd = (not cplx) and rng.random() < 0.4
        specs.append({"kind": "est", "complex": cplx, "order": p, "x": None, "rxx": [hxc(z) for z in R],
                      "rxx_dtype": "int" if intd else ("complex" if cplx else "float"),
                      "rxx_kind": "supplied-int-dtype" if intd else "supplied-short", "pd": True})
    return specs


def gen_psd_specs(ctx):
    rng = ctx.rng
    out = []
    for i in range(ctx.scale(60, 250)):
        cplx = rng.random() < 0.5
        p = rng.randint(1, 6 if ctx.quick else 8)
        a = stable_coefs(rng, p, cplx, rng.choice([0.5, 0.8, 0.95]))
        nf = rng.choice([1, 2, 3, 4, 5, 6, 7, 8, 9, 12, 13] + ([] if ctx.quick else [16, 17, 31, 32, 33, 64]))
        out.append({"kind": "psd", "complex": cplx, "ak": [hxc(z) for z in a],
                    "sigma": hx(rng.choice([0.25, 1.0, 2.0, 0.731, 5.3]) * 2.0 ** rng.choice([0, 0, 0, -60, 40, -13])),
                    "n_freqs": nf, "sides": rng.choice(["onesided", "twosided"])})
    # the documented default and large grids of both parities, orders up to 16: oracle only
    for nf in [511, 512, 1023, 1024, 1025, 2048, 4097] + [rng.randint(18, 5000) for _ in range(ctx.scale(4, 20))]:
        for sides in ("onesided", "twosided"):
            cplx = rng.random() < 0.5
            a = stable_coefs(rng, rng.randint(1, 16), cplx, rng.choice([0.5, 0.8, 0.95]))
            out.append({"kind": "psd", "complex": cplx, "ak": [hxc(z) for z in a], "sigma": hx(rng.choice([1.0, 0.731]) * 2.0 ** rng.choice([0, -60, 40])),
                        "n_freqs": nf, "sides": sides, "oracle_only": True})
    return out


def gen_gen_specs(ctx):
    rng = ctx.rng
    out = []
    for i in range(ctx.scale(50, 200)):
        cplx = rng.random() < 0.4
        p = rng.randint(1, 5)
        a = stable_coefs(rng, p, cplx, rng.choice([0.5, 0.8, 0.9]))
        a = np.array([shortc(z, 20, cplx) for z in a])
        drop = rng.choice([0, 0, 1, 2, 3, 5, 8])
        n = rng.randint(p + 2, 24 if ctx.quick else 48)
        sigma = rng.choice([1.0, 2.0, 0.5, 0.37, 4.0]) * 4.0 ** rng.choice([0, 0, 0, -30, 20])
        s = {"kind": "gen", "complex": cplx, "coefs": [hxc(z) for z in a], "sigma": hx(sigma), "drop": drop}
        if rng.random() < 0.6:
            vsc = 2.0 ** rng.choice([0, 0, 0, -60, 40])
            v = [shortc(rng.gauss(0, 1) + (1j * rng.gauss(0, 1) if cplx else 0), 24, cplx) * vsc for _ in range(n + drop)]
            s.update(v=[hxc(z) for z in v], N=n)
        else:
            s.update(v=None, N=n, seed=rng.randint(0, 2 ** 31 - 1))
        out.append(s)
    # long runs (default N = 512 and beyond): oracle only
    for N in (512, 1025, 4096):
        a = stable_coefs(rng, rng.randint(1, 8), False, 0.9)
        out.append({"kind": "gen", "complex": False, "coefs": [hxc(z) for z in a], "sigma": hx(2.0), "drop": rng.choice([0, 100]),
                    "v": None, "N": N, "seed": rng.randint(0, 2 ** 31 - 1), "oracle_only": True})
    return out



# ------------------------------------------------------------------ call histories on one buffer object
def run_seq(spec):
    """fits interleaved with in-place changes of ONE ndarray object; every fit records the contents it saw"""
    import nitime.algorithms as tsa
    N = spec["N"]
    buf = np.zeros(N, dtype=complex if spec["complex"] else float)
    fits = []
    for st in spec["steps"]:
        op = st["op"]
        if op == "fill":
            v = np.array([uhxc(q) for q in st["x"]])
            buf[:] = v if spec["complex"] else v.real
        elif op == "scale":
            buf *= st["k"]
        elif op == "demean":
            buf -= buf.mean()
        elif op == "fit":
            fn = tsa.AR_est_LD if st["est"] == "ld" else tsa.AR_est_YW
            try:
                ak, s = fn(buf, st["order"])
                r = {"ak": [hxc(z) for z in np.asarray(ak, dtype=complex)], "sigma": hx(np.real(s))}
            except Exception as e:  # noqa
                r = {"err": type(e).__name__, "msg": str(e)[:200]}
            fits.append({"est": st["est"], "order": st["order"], "x": [hxc(z) for z in buf], "res": r})
    return {"fits": fits}


def seq_as_est(spec, f):
    """one fit of a history as a stand-alone estimator input (current contents of the buffer)"""
    import nitime.utils as utils
    es = {"kind": "est", "complex": spec["complex"], "order": f["order"], "x": f["x"], "N": spec["N"], "rxx": None,
          "rxx_kind": "computed-history", "pd": True}
    x, _ = build_est_inputs(es)
    R = utils.autocorr(x.copy())[:f["order"] + 1]
    other = {"err": "not-called", "msg": ""}
    obs = {"R": [hxc(z) for z in np.asarray(R, dtype=complex)],
           "ld": f["res"] if f["est"] == "ld" else other, "yw": f["res"] if f["est"] == "yw" else other}
    return es, obs


def judge_one(spec, p, x, res, label, cls):
    """normal equations / sigma / positivity / stability of ONE estimator result against the directly summed
    autocorrelation of x"""
    if "err" in res:
        return Fail("C10/%s/raises/%s" % (label, cls), "%s raised %s: %s" % (label, res["err"], res["msg"]), res, "a result")
    R = autocorr_ref(x, p)
    if R[0].real == 0:
        return None
    cond = cond_of(R, p)
    T = toep_ref(R, p)
    y = R[1:p + 1]
    tol_res = min(1e-3, max(1e-8, 1e-12 * cond))
    a = np.array([uhxc(q) for q in res["ak"]])
    s = uhx(res["sigma"])
    if len(a) != p or not (np.all(np.isfinite(a)) and np.isfinite(s)):
        return Fail("C10/%s/shape/%s" % (label, cls), "bad shape or non-finite result", res, "order %d" % p)
    scale = np.abs(T) @ np.abs(a) + np.abs(y)
    rel = float(np.max(np.abs(T @ a - y) / np.where(scale > 0, scale, 1)))
    if rel > tol_res:
        return Fail("C10/%s/normal-equations/%s" % (label, cls),
                    "%s coefficients do not satisfy the Yule-Walker equations of the data passed in (relative residual %.3g, tolerance %.3g)"
                    % (label, rel, tol_res), {"ak": res["ak"], "residual": rel}, "residual <= %.3g" % tol_res)
    sf = (R[0] - np.dot(a, np.conj(y))).real
    ssc = abs(R[0]) + float(np.dot(np.abs(a), np.abs(y)))
    if abs(s - sf) > max(tol_res, 1e-9) * ssc:
        return Fail("C10/%s/sigma/%s" % (label, cls), "%s innovation variance %.17g, required %.17g" % (label, s, sf), s, sf)
    if not s > 0:
        return Fail("C10/%s/sigma-positive/%s" % (label, cls), "innovation variance %.3g not positive" % s, s, "> 0")
    return None


def oracle_seq(spec, obs):
    for k, f in enumerate(obs["fits"]):
        xs = np.array([uhxc(q) for q in f["x"]])
        label = "AR_est_LD" if f["est"] == "ld" else "AR_est_YW"
        fl = judge_one(spec, f["order"], xs, f["res"], label, "buffer-reuse")
        if fl is not None:
            fl.what = "fit %d of a history on one array object: %s" % (k, fl.what)
            return fl
    return None


def seq_cases(spec, obs):
    out = []
    for f in obs["fits"][1:]:            # fits after the first: the ones a history can spoil
        if f["order"] > 4 or "err" in f["res"]:
            continue
        es, eo = seq_as_est(spec, f)
        for c in est_cases(dict(es, no_step=True), eo):
            c.klass = "HIST/" + c.klass
            out.append(c)
    return out[:4]


def gen_seq_specs(ctx):
    rng = ctx.rng
    out = []
    for i in range(ctx.scale(14, 60)):
        cplx = rng.random() < 0.4
        N = rng.choice([16, 21, 32, 50, 64, 100, 128, 257])
        steps = [{"op": "fill", "x": [hxc(z) for z in gen_signal(rng, N, cplx, rng.choice([0.6, 0.9]))]}]
        pmax = max(1, min(8, N // 4))
        for _ in range(rng.randint(3, 6)):
            steps.append({"op": "fit", "est": rng.choice(["ld", "yw"]), "order": rng.randint(1, pmax)})
            r = rng.random()
            if r < 0.35:
                steps.append({"op": "fill", "x": [hxc(z) for z in gen_signal(rng, N, cplx, rng.choice([0.6, 0.9, 0.97]))]})
            elif r < 0.55:
                steps.append({"op": "scale", "k": rng.choice([3.0, -0.5, 2.0 ** 20])})
            elif r < 0.7:
                steps.append({"op": "demean"})
            # else: no change, the same object goes to the next estimator
        steps.append({"op": "fit", "est": rng.choice(["ld", "yw"]), "order": rng.randint(1, pmax)})
        out.append({"kind": "seq", "complex": cplx, "N": N, "steps": steps})
    return out



# ------------------------------------------------------------------ homogeneity: re-run on rescaled input
def scaled_spec(spec, e):
    """the same call with the data multiplied by the exact power of two 2^e (signals, innovations) and
    autocorrelations / variances by 2^(2e); None when the spec has no scalable form"""
    c, f = 2.0 ** e, 4.0 ** e
    k = spec["kind"]
    sp = dict(spec)

    def sc(lst, g):
        return [hxc(uhxc(q) * g) for q in lst]
    if k == "est":
        if spec.get("variant") == "int" or spec.get("rxx_dtype") == "int":
            if e < 0:
                return None
            c, f = 2.0 ** 8, 4.0 ** 8         # integer dtypes: an integer factor
        if spec.get("x") is not None:
            sp["x"] = sc(spec["x"], c)
        if spec.get("rxx") is not None:
            sp["rxx"] = sc(spec["rxx"], f)
        return sp, f
    if k == "psd":
        sp["sigma"] = hx(uhx(spec["sigma"]) * f)
        return sp, f
    if k == "gen":
        sp["sigma"] = hx(uhx(spec["sigma"]) * f)
        return sp, c
    return None


def rel_close(a, b, tol=1e-11):
    a, b = np.asarray(a), np.asarray(b)
    if a.shape != b.shape:
        return False
    m = float(np.max(np.abs(b))) if b.size else 0.0
    return bool(np.all(np.isfinite(a))) and float(np.max(np.abs(a - b))) <= tol * m if b.size else True


def oracle_homog(spec, obs, e):
    """what the property implies under rescaling: coefficients unchanged, sigma and the spectrum scale with the
    variance, the simulated signal with sqrt(sigma).  An absolute threshold anywhere in the code fails this."""
    r = scaled_spec(spec, e)
    if r is None:
        return None
    sp, g = r
    o2 = RUN[spec["kind"]](sp)
    k = spec["kind"]
    key = "C10/homogeneity/%s" % {"est": "AR_est", "psd": "AR_psd", "gen": "ar_generator"}[k]
    what = None
    if k == "est":
        for name in ("ld", "yw"):
            a, b = obs[name], o2[name]
            if ("err" in a) != ("err" in b):
                what = "%s raises on one scale only" % name
            elif "err" not in a:
                ak1 = np.array([uhxc(q) for q in a["ak"]]); ak2 = np.array([uhxc(q) for q in b["ak"]])
                if not rel_close(ak2, ak1):
                    what = "%s coefficients change when the data are multiplied by 2^%d (max diff %.3g)" % (name, e, float(np.max(np.abs(ak2 - ak1))))
                elif not rel_close(uhx(b["sigma"]), uhx(a["sigma"]) * g):
                    what = "%s sigma does not scale with the variance (x 2^%d): %.17g vs %.17g" % (name, e, uhx(b["sigma"]), uhx(a["sigma"]) * g)
            if what:
                break
    elif k == "psd":
        if ("err" in obs) != ("err" in o2):
            what = "raises on one scale only"
        elif "err" not in obs:
            p1 = np.array([uhx(v) for v in obs["psd"]]); p2 = np.array([uhx(v) for v in o2["psd"]])
            if obs["w"] != o2["w"] or not rel_close(p2, p1 * g):
                what = "spectrum does not scale with sigma (x 4^%d)" % e
    else:
        if ("err" in obs) != ("err" in o2):
            what = "raises on one scale only"
        elif "err" not in obs:
            u1 = np.array([uhxc(q) for q in obs["u"]]); u2 = np.array([uhxc(q) for q in o2["u"]])
            if obs["v"] != o2["v"] or not rel_close(u2, u1 * g):
                what = "simulated signal does not scale with sqrt(sigma) (x 2^%d)" % e
    if what:
        f = Fail(key, what, None, "scale-equivariant result")
        f.replay = {"entry_point": key, "scale_exponent": e}
        return f
    return None


RUN = {"est": run_est, "psd": run_psd, "gen": run_gen, "seq": run_seq}
ORACLE = {"est": oracle_est, "psd": oracle_psd, "gen": oracle_gen, "seq": oracle_seq}


def light(spec):
    """spec for the evidence samples: long arrays abbreviated (violation replay files keep the full input)"""
    return {k: (v if not isinstance(v, list) or len(v) <= 40 else {"len": len(v), "head": v[:4]}) for k, v in spec.items()}


def cases_of(spec, obs):
    k = spec["kind"]
    if k == "est":
        cs = est_cases(spec, obs)
    elif k == "seq":
        cs = seq_cases(spec, obs)
    else:
        c = psd_case(spec, obs) if k == "psd" else gen_case(spec, obs)
        cs = [c] if c is not None else []
    for c in cs:
        c.replay = dict(c.replay, spec=light(spec))
    return cs


def corpus_specs():
    out = []
    if CORPUS.exists():
        for f in sorted(CORPUS.glob("*.json")):
            d = json.loads(f.read_text())
            out.append(d.get("spec") or d["case"]["spec"])
    return out


HEADER = ("From Coq Require Import QArith List Bool Arith PrimFloat.\n"
          "From NT Require Import F2Z Lists Close QC AR C10K.\nImport ListNotations.\n")


def run(ctx):
    core.import_nitime()
    ctx.check_props()
    specs = corpus_specs() + gen_est_specs(ctx) + gen_seq_specs(ctx) + gen_psd_specs(ctx) + gen_gen_specs(ctx)
    cases, owners, results = [], [], []
    for si, spec in enumerate(specs):
        obs = RUN[spec["kind"]](spec)
        results.append((spec, obs))
        for c in cases_of(spec, obs):
            cases.append(c)
            owners.append(si)
    bad = ctx.check_cases("K", HEADER, cases, "check", shard=ctx.scale(28, 60), case_type="case", timeout=1500)
    bad_specs = {owners[i] for i in bad}
    nfail = 0
    order = sorted(range(len(results)), key=lambda i: (i not in bad_specs, i))   # disagreeing cases first
    for i in order:
        spec, obs = results[i]
        f = ORACLE[spec["kind"]](spec, obs)
        if f is not None:
            f.replay = {"entry_point": {"est": "nitime.algorithms.AR_est_LD / AR_est_YW", "psd": "nitime.algorithms.AR_psd",
                                        "gen": "nitime.utils.ar_generator",
                                        "seq": "AR_est_LD / AR_est_YW called repeatedly on one ndarray object changed in place"}[spec["kind"]],
                        "model_disagrees": i in bad_specs}
            lite = dict(spec)
            if lite.get("x") is not None and len(lite["x"]) > 64:
                pass
            if ctx.report_fail(f, Case("", {"spec": spec, "observed": obs})):
                nfail += 1
    # homogeneity: every call re-run on the input rescaled by 2^-45 and 2^+35 (variances by the square)
    nh = 0
    for i, (spec, obs) in enumerate(results):
        if spec["kind"] == "seq":
            continue
        for e in (-45, 35):
            if abs(spec.get("scale_exp", 0) + e) > 70:
                continue
            nh += 1
            f = oracle_homog(spec, obs, e)
            if f is not None:
                ctx.report_fail(f, Case("", {"spec": spec, "scale_exponent": e}))
    ctx.extra["homogeneity_reruns"] = nh
    # purity: a sample of earlier calls repeated at the end of the run must give bit-identical results
    idx = [i for i, (sp, _) in enumerate(results) if not (sp["kind"] == "gen" and sp.get("v") is None and False)]
    sample = ctx.rng.sample(idx, min(len(idx), ctx.scale(60, 200)))
    nrep = 0
    for i in sample:
        spec, obs = results[i]
        again = RUN[spec["kind"]](spec)
        nrep += 1
        if json.dumps(again, sort_keys=True) != json.dumps(obs, sort_keys=True):
            f = Fail("C10/purity/%s" % spec["kind"], "the same call repeated later in the process returned a different result "
                     "(the result depends on the call history)", None, "bit-identical results")
            f.replay = {"entry_point": spec["kind"], "first": obs if spec["kind"] != "est" else {k: obs[k] for k in ("ld", "yw")},
                        "second": again if spec["kind"] != "est" else {k: again[k] for k in ("ld", "yw")}}
            ctx.report_fail(f, Case("", {"spec": spec}))
    ctx.extra["purity_reruns"] = nrep
    ctx.extra["model_impl_disagreements"] = len(bad)
    ctx.extra["oracle_checked_inputs"] = len(results)
    ctx.extra["oracle_only_inputs"] = sum(1 for sp, _ in results if sp.get("oracle_only"))
    ctx.extra["signal_lengths_checked_by_oracle"] = "every N in 16..130 + %d lengths in 131..4096 (powers of two +-1, 5-smooth, primes, seeded)" % len(
        {sp["N"] for sp, _ in results if sp["kind"] == "est" and sp.get("N", 0) > 130})
    ctx.extra["rule"] = ("homogeneity: every call re-run with the data multiplied by 2^-45 and 2^+35 (rxx / sigma by the square): "
                         "coefficients unchanged, sigma / spectrum / simulated signal scale exactly; call histories: fits interleaved with in-place refill / scaling / de-meaning of one array object, both estimators, "
                         "each judged against the current contents; a sample of all calls repeated at the end must be bit-identical; "
                         "oracle (independent: directly summed autocorrelation) on every signal length 16..130 and ~30 lengths up to 4096, "
                         "orders up to min(16, N/4), data scaled by 2^-60..2^40, strided / integer-dtype / keyword-call variants, "
                         "n_freqs up to 5000, generator runs up to 4096; Coq cases: utils.autocorr tied to the lagged-sum contract on "
                         "small-integer signals (KAC), real/complex AR-coloured signals (pole radius 0.6..0.995, N 16..512 quick / ..4096 thorough, "
                         "some not zero-mean), orders 1..8 (..16 thorough), autocorrelation computed / supplied (biased, unbiased, autocov, "
                         "exact autocovariance of a known stable process, short integer-valued sequences incl. integer dtype); AR_psd for "
                         "n_freqs of both parities and both sides; ar_generator with supplied and drawn innovations, drop_transients 0..8. "
                         "A case is one call compared inside Coq; all are non-trivial (distinct by hash of the Coq term).")
    return ctx.finish(
        trusted=["utils.autocorr (FFT convolution) is tied to its lagged-sum contract inside Coq on ~15 small-integer signals per run (KAC) "
                 "and otherwise taken as data (property C20); the oracle recomputes it by direct summation for every signal-based call",
                 "scipy.linalg.solve / toeplitz, scipy.signal.freqz / lfilter, numpy sqrt and exp: library kernels; their outputs are "
                 "data of the cases and their contracts (Toeplitz residual, s*s = sigma, direct-form recursion) are checked inside Coq per case",
                 "per-case forward tolerance (<= 1e-4, chosen from the condition number by the harness) when comparing float64 results "
                 "with the exact rational model; ill-conditioned systems (cond >= 1e8) are compared through the residual only"],
        assumptions=["partial: positivity of the innovation variance is proved given |k_q| < 1 (C10_sigma_pos); that data-derived "
                     "autocorrelations give |k_q| < 1 and that the fitted model is stable is only checked numerically by the oracle",
                     "R(0) is assumed real (the estimators read rxx[0].real); non-singularity of the Toeplitz system is a hypothesis of YW = LD"],
        explanation="Coq proves, for every order and every complex autocorrelation sequence, that the Levinson-Durbin loop as written "
                    "returns a solution of the Hermitian Toeplitz normal equations with the stated innovation variance, hence equals "
                    "the direct solve and recovers a known process; the kernel-evaluated cases tie that model to the code.")


def replay(ctx, path):
    core.import_nitime()
    d = json.loads(open(path).read())
    spec = d.get("spec") or (d.get("case") or {}).get("spec")
    if spec is None:
        print("replay file has no input (broken-lemma report): %s" % json.dumps(d)[:600])
        return 1
    obs = RUN[spec["kind"]](spec)
    f = ORACLE[spec["kind"]](spec, obs)
    small = {k: (v if not isinstance(v, list) or len(v) <= 12 else v[:12] + ["..."]) for k, v in spec.items()}
    print(json.dumps({"spec": small, "fails": None if f is None else {"key": f.key, "what": f.what}}, indent=1))
    return 1 if f else 0
