"""C01 — time values are exact and independent of the unit they are expressed in.

P: coq/Props/C01.v (theorems over Model/TimeArray.v, all inputs)
G: the unit table read from the imported nitime.timeseries equals the model's `factor`
K: seeded calls of the TimeArray constructor / operators / reductions; the Coq kernel
   evaluates the model on each call and compares with what the implementation returned
oracle: Fraction arithmetic on picoseconds, run on the implementation's results
"""
import json
from fractions import Fraction

import numpy as np

from vt import core
from vt.core import Case, Fail, zlit, flit, blit, llit, zlist, flist

UNITS = ["ps", "ns", "us", "ms", "s", "m", "h", "D", "W"]
UCOQ = dict(zip(UNITS, ["Ups", "Uns", "Uus", "Ums", "Us", "Um", "Uh", "UD", "UW"]))
FACT = {"ps": 1, "ns": 10 ** 3, "us": 10 ** 6, "ms": 10 ** 9, "s": 10 ** 12, "m": 60 * 10 ** 12,
        "h": 3600 * 10 ** 12, "D": 86400 * 10 ** 12, "W": 7 * 86400 * 10 ** 12}  # SI (the spec)
LIM = 2 ** 62

ERR = {"ValueError": "ValueError", "TypeError": "TypeError", "NotImplementedError": "NotImplementedErr",
       "AttributeError": "AttributeErr"}


def err_coq(e):
    return ERR.get(type(e).__name__, "OtherError")


# ------------------------------------------------------------------ describing values
def tarr_coq(t):
    return "(mk_tarr %s %s %s)" % (zlist(t["p"]), UCOQ[t["u"]], blit(t["sc"]))


def mk_time(ts, t):
    """build the implementation object for a tarr description; `via` selects a derived form of the
    same time object (view of a longer array, strided view, ufunc result, copy) - the property does
    not care how a time object came about"""
    via = t.get("via", "direct")
    if via == "uniform":
        # the same instants held by a UniformTime (the other time class): t0 + i*dt, built from ps time objects
        p = t["p"]
        dt = (p[1] - p[0]) if len(p) > 1 else 7
        a = ts.UniformTime(t0=ts.TimeArray(np.int64(p[0]), time_unit="ps"),
                           sampling_interval=ts.TimeArray(np.int64(dt), time_unit="ps"),
                           length=len(p), time_unit=t["u"])
        assert [int(x) for x in np.asarray(a)] == [int(x) for x in p], "harness: UniformTime construction"
        return a
    if t["sc"] and via == "elem":
        b = ts.TimeArray(np.array([t["p"][0], 5], dtype=np.int64), time_unit="ps")
        b.convert_unit(t["u"])
        return ts.TimeArray(b[0])            # an element, re-wrapped without a unit
    if t["sc"]:
        a = ts.TimeArray(np.int64(t["p"][0]), time_unit="ps")
    elif via == "slice":
        a = ts.TimeArray(np.array([7] + list(t["p"]) + [9], dtype=np.int64), time_unit="ps")[1:-1]
    elif via == "stride":
        b = np.zeros(2 * len(t["p"]), dtype=np.int64)
        b[::2] = t["p"]
        a = ts.TimeArray(b, time_unit="ps")[::2]
    elif via == "ufunc":
        a = ts.TimeArray(np.array(t["p"], dtype=np.int64), time_unit="ps") + 0
    elif via == "copy":
        import copy as _copy
        a = _copy.copy(ts.TimeArray(np.array(t["p"], dtype=np.int64), time_unit="ps"))
    elif via in ("rewrap", "rewrap_nocopy", "rewrap_list"):
        # the same instants re-wrapped WITHOUT naming a unit (the unit is inherited from the wrapped object):
        # re-wrapping must not change how the object reads bare numbers afterwards
        b = ts.TimeArray(np.array(t["p"], dtype=np.int64), time_unit="ps")
        b.convert_unit(t["u"])
        if via == "rewrap":
            return ts.TimeArray(b)
        if via == "rewrap_nocopy":
            return ts.TimeArray(b, copy=False)
        return ts.TimeArray([b[i] for i in range(len(t["p"]))])
    else:
        a = ts.TimeArray(np.array(t["p"], dtype=np.int64), time_unit="ps")
    a.convert_unit(t["u"])
    return a


def mk_bare(d):
    k = d["kind"]
    if k == "int":
        return d["v"][0] if d["sc"] else list(d["v"])
    if k == "int64":
        if not d["sc"] and d.get("via") == "stride":      # a non-contiguous view as operand
            b = np.zeros(2 * len(d["v"]), dtype=np.int64)
            b[1::2] = d["v"]
            return b[1::2]
        return np.int64(d["v"][0]) if d["sc"] else np.array(d["v"], dtype=np.int64)
    if k == "int32":
        return np.int32(d["v"][0]) if d["sc"] else np.array(d["v"], dtype=np.int32)
    if k == "float":
        v = [float.fromhex(x) for x in d["v"]]
        return v[0] if d["sc"] else v
    if k == "float64":
        v = [float.fromhex(x) for x in d["v"]]
        if not d["sc"] and d.get("via") == "stride":
            b = np.zeros(2 * len(v), dtype=np.float64)
            b[::2] = v
            return b[::2]
        return np.float64(v[0]) if d["sc"] else np.array(v, dtype=np.float64)
    raise ValueError(k)


def bare_vals(d):
    if d["kind"].startswith("float"):
        return [float.fromhex(x) for x in d["v"]]
    return list(d["v"])


def bare_coq(d, ctor):
    if d["kind"].startswith("float"):
        return "(%sFloats %s %s)" % (ctor, blit(d["sc"]), flist(bare_vals(d)))
    return "(%sInts %s %s)" % (ctor, blit(d["sc"]), zlist(d["v"]))


def observe(r):
    """canonical outcome of an implementation result"""
    import nitime.timeseries as ts
    if isinstance(r, ts.TimeInterface):
        a = np.asarray(r)
        if a.dtype != np.int64:
            return {"t": "other", "what": "time array of dtype %s" % a.dtype,
                    "vals": [float(x).hex() for x in a.ravel()[:8]], "u": r.time_unit}
        if a.ndim > 1:
            return {"t": "other", "what": "ndim %d" % a.ndim}
        return {"t": "time", "p": [int(x) for x in a.ravel()], "u": r.time_unit, "sc": a.ndim == 0}
    a = np.asarray(r)
    if a.dtype == bool:
        return {"t": "bools", "l": [bool(x) for x in a.ravel()], "sc": a.ndim == 0}
    return {"t": "other", "what": "%s dtype %s" % (type(r).__name__, a.dtype)}


def outcome_coq(o):
    if o.get("operand_changed"):
        return '(OutOther "a time operand was modified by the call")'
    if o["t"] == "time":
        if o["u"] not in UCOQ:
            return '(OutOther "unit")'
        return "(OutTime %s %s %s)" % (zlist(o["p"]), UCOQ[o["u"]], blit(o["sc"]))
    if o["t"] == "bools":
        return "(OutBools %s %s)" % (llit([blit(b) for b in o["l"]]), blit(o["sc"]))
    if o["t"] == "err":
        return "(OutErr %s)" % o["e"]
    return '(OutOther "%s")' % o["what"].replace('"', "'")


# ------------------------------------------------------------------ running one action
def run_action(a):
    """run the described call on the implementation; returns the outcome description"""
    import nitime.timeseries as ts
    try:
        k = a["act"]
        if k == "ctor":
            d = a["data"]
            if d["kind"] == "time":
                data = mk_time(ts, d["t"])
            elif d["kind"] == "timelist":
                data = [mk_time(ts, t) for t in d["l"]]
            else:
                data = mk_bare(d)
            r = ts.TimeArray(data, time_unit=a["unit"])
        elif k in ("arith", "cmp"):
            s = mk_time(ts, a["self"])
            o = a["o"]
            v = mk_time(ts, o["t"]) if o["kind"] == "time" else mk_bare(o)
            op = a["op"]
            if op == "Add": r = s + v
            elif op == "Sub": r = s - v
            elif op == "RAdd": r = v + s
            elif op == "RSub": r = v - s
            elif op == "Lt": r = s < v
            elif op == "Le": r = s <= v
            elif op == "Gt": r = s > v
            elif op == "Ge": r = s >= v
            elif op == "Eq": r = s == v
            else: raise KeyError(op)
        elif k == "reduce":
            s = mk_time(ts, a["self"])
            r = {"RMin": s.min, "RMax": s.max, "RSum": s.sum, "RPtp": s.ptp}[a["r"]]()
        elif k == "convert":
            s = mk_time(ts, a["self"])
            s.convert_unit(a["unit"])
            r = s
        else:
            raise KeyError(k)
    except Exception as e:  # noqa
        return {"t": "err", "e": err_coq(e), "cls": type(e).__name__, "msg": str(e)[:120]}
    out = observe(r)            # snapshot of the result (python ints), taken before anything else
    # the time operands must still denote the same instants after the call (a reduction / operator that
    # hands back or rewrites its operand in place would make every later use of that object wrong)
    if k in ("arith", "cmp", "reduce"):
        changed = []
        for name, obj, desc in (("self", s, a["self"]),) + ((("other", v, a["o"]["t"]),) if k != "reduce" and a["o"]["kind"] == "time" else ()):
            now = [int(x) for x in np.asarray(obj).ravel()]
            if now != [int(x) for x in desc["p"]] or obj.time_unit != desc["u"] or (np.asarray(obj).ndim == 0) != desc["sc"]:
                changed.append({"which": name, "before": desc["p"][:8], "after": now[:8], "unit_after": obj.time_unit})
        if changed:
            out = dict(out)
            out["operand_changed"] = changed
    return out


def np_left(a):
    """reflected operator with a numpy scalar on the left (numpy never calls __radd__/__rsub__)"""
    return (a["act"] == "arith" and a["op"] in ("RAdd", "RSub") and a["o"]["kind"] in ("int64", "int32", "float64")
            and a["o"]["sc"])


def action_coq(a):
    k = a["act"]
    if np_left(a):
        return "(AReflNp %s %s %s)" % (a["op"], tarr_coq(a["self"]), zlit(a["o"]["v"][0]))
    if k == "ctor":
        u = a["unit"]
        ua = "UArgNone" if u is None else ("(UArg %s)" % UCOQ[u] if u in UCOQ else "UArgBad")
        d = a["data"]
        if d["kind"] == "time":
            dc = "(DTime %s)" % tarr_coq(d["t"])
        elif d["kind"] == "timelist":
            dc = "(DTimeList %s %s)" % (tarr_coq(d["l"][0]), llit([tarr_coq(t) for t in d["l"][1:]]))
        else:
            dc = bare_coq(d, "D")
        return "(ACtor %s %s)" % (ua, dc)
    if k in ("arith", "cmp"):
        o = a["o"]
        oc = "(OTime %s)" % tarr_coq(o["t"]) if o["kind"] == "time" else bare_coq(o, "O")
        return "(%s %s %s %s)" % ("AArith" if k == "arith" else "ACmp", a["op"], tarr_coq(a["self"]), oc)
    if k == "reduce":
        return "(AReduce %s %s)" % (a["r"], tarr_coq(a["self"]))
    if k == "convert":
        return "(AConvert %s %s)" % (tarr_coq(a["self"]), UCOQ[a["unit"]])
    raise KeyError(k)


# ------------------------------------------------------------------ exact oracle
def rne_frac(q):
    """nearest integers to q (a set: both neighbours on a tie)"""
    fl = q.numerator // q.denominator
    r = q - fl
    if r < Fraction(1, 2):
        return {fl}
    if r > Fraction(1, 2):
        return {fl + 1}
    return {fl, fl + 1}


def bare_ps_sets(d, unit):
    """for a bare operand: list of admissible picosecond values (sets)"""
    f = FACT[unit]
    if d["kind"].startswith("float"):
        out = []
        for x in bare_vals(d):
            p = x * float(f)          # the 64-bit float product the statement allows
            out.append(rne_frac(Fraction(p)))
        return out
    return [{v * f} for v in d["v"]]


def bc(a, sa, b, sb):
    """broadcast two 0-d/1-d operands, returns list of pairs and scalar flag, or None"""
    if len(a) == 1:
        return [(a[0], y) for y in b], (sa and sb)
    if len(b) == 1:
        return [(x, b[0]) for x in a], False
    if len(a) == len(b):
        return list(zip(a, b)), False
    return None, None


def in_scope(vals):
    return all(abs(v) < LIM for v in vals)


def oracle(a, o):
    """None when the property holds on this call, else Fail"""
    k = a["act"]
    if o.get("operand_changed"):
        what = a.get("op") or a.get("r") or k
        return Fail("C01/%s/operand-modified" % str(what).lower(),
                    "the call changed a time operand in place (it no longer denotes the same instants afterwards)",
                    o["operand_changed"], "operands unchanged")
    if k == "ctor":
        d = a["data"]
        u = a["unit"]
        kind = d["kind"]
        key = "C01/ctor/%s" % kind
        if u is not None and u not in FACT:
            if o["t"] == "err" and o["e"] == "ValueError":
                return None
            return Fail(key + "/bad-unit", "invalid unit not rejected with ValueError", o, "ValueError")
        if kind == "time":
            want = [{v} for v in d["t"]["p"]]
            wu = u or d["t"]["u"]
            wsc = d["t"]["sc"]
        elif kind == "timelist":
            want = [{t["p"][0]} for t in d["l"]]
            wu = u or d["l"][0]["u"]
            wsc = False
        else:
            wu = u or "s"
            want = bare_ps_sets(d, wu)
            wsc = d["sc"]
        if not all(in_scope(s) for s in want):
            return None  # outside the quantifier
        return cmp_time(key, o, want, wu, wsc)
    if k in ("arith", "cmp"):
        s = a["self"]
        od = a["o"]
        okind = od["kind"]
        key = "C01/%s/%s" % (a["op"].lower(), "time" if okind == "time" else ("bare-float" if okind.startswith("float") else "bare-int"))
        if np_left(a):
            key = "C01/reflected/numpy-scalar-left"
        if okind == "time":
            b = [{v} for v in od["t"]["p"]]
            sb = od["t"]["sc"]
        else:
            b = bare_ps_sets(od, s["u"])
            sb = od["sc"]
        if not (in_scope(s["p"]) and all(in_scope(x) for x in b)):
            return None
        pairs, sc = bc(s["p"], s["sc"], b, sb)
        if pairs is None:
            if o["t"] == "err":
                return None
            return Fail(key + "/shape", "shape mismatch not refused", o, "an exception")
        op = a["op"]
        if k == "arith":
            f = {"Add": lambda x, y: x + y, "RAdd": lambda x, y: x + y, "Sub": lambda x, y: x - y,
                 "RSub": lambda x, y: y - x}[op]
            want = [{f(x, y) for y in ys} for x, ys in pairs]
            if not all(in_scope(w) for w in want):
                return None
            return cmp_time(key, o, want, s["u"], sc)
        f = {"Lt": lambda x, y: x < y, "Le": lambda x, y: x <= y, "Gt": lambda x, y: x > y,
             "Ge": lambda x, y: x >= y, "Eq": lambda x, y: x == y}[op]
        want = [{f(x, y) for y in ys} for x, ys in pairs]
        if o["t"] != "bools":
            return Fail(key, "comparison did not return booleans", o, "booleans")
        if len(o["l"]) != len(want) or any(v not in w for v, w in zip(o["l"], want)) or o["sc"] != sc:
            return Fail(key, "comparison differs from rational arithmetic on picoseconds", o,
                        [sorted(w) for w in want])
        return None
    if k == "reduce":
        s = a["self"]
        key = "C01/reduce/%s" % a["r"]
        if not s["p"]:
            return None
        if not in_scope(s["p"]):
            return None
        v = {"RMin": min(s["p"]), "RMax": max(s["p"]), "RSum": sum(s["p"]), "RPtp": max(s["p"]) - min(s["p"])}[a["r"]]
        if abs(v) >= LIM:
            return None
        return cmp_time(key, o, [{v}], s["u"], True)
    if k == "convert":
        s = a["self"]
        return cmp_time("C01/convert_unit", o, [{v} for v in s["p"]], a["unit"], s["sc"])
    return None


def cmp_time(key, o, want, wu, wsc):
    if o["t"] != "time":
        return Fail(key, "result is not a whole-picosecond (int64) time array: %s" % (o.get("what") or o.get("cls")),
                    o, {"ps": [sorted(w) for w in want], "unit": wu})
    if len(o["p"]) != len(want) or any(v not in w for v, w in zip(o["p"], want)):
        return Fail(key, "picosecond values differ from exact arithmetic", o,
                    {"ps": [sorted(w) for w in want], "unit": wu})
    if o["u"] != wu:
        return Fail(key + "/unit", "result unit %s, required %s" % (o["u"], wu), o, wu)
    if o["sc"] != wsc:
        return Fail(key + "/shape", "0-d/1-d shape not kept", o, wsc)
    return None


# ------------------------------------------------------------------ generators
def gen_int_for(rng, f, lim=LIM):
    """an integer n with |n*f| < lim, from several regimes"""
    m = (lim - 1) // f
    r = rng.random()
    if r < 0.35:
        n = rng.randint(-20, 20)
    elif r < 0.55:
        n = rng.choice([-1, 1]) * (2 ** 53 + rng.randint(-3, 3)) // max(1, f // rng.choice([1, f]))
    elif r < 0.75:
        n = rng.choice([-1, 1]) * (m - rng.randint(0, 3))
    else:
        n = rng.randint(-m, m)
    return max(-m, min(m, n))


def gen_float_for(rng, f):
    m = (2 ** 61) / f
    r = rng.random()
    if r < 0.25:
        x = rng.randint(-50, 50) / rng.choice([1, 2, 4, 8, 10, 3, 7])
    elif r < 0.35:
        # a value whose product with f is near a tie k + 1/2
        k = rng.randint(-10 ** 6, 10 ** 6)
        x = (k + 0.5) / f
    elif r < 0.6:
        # a value whose product with f has a generic fractional part (rounding vs truncation vs floor)
        k = rng.randint(-10 ** 6, 10 ** 6) if rng.random() < 0.7 else rng.randint(-3, 3)
        x = (k + rng.random()) / f
    elif r < 0.7:
        x = rng.uniform(-m, m)
    elif r < 0.8:
        x = rng.choice([-1, 1]) * (2 ** 53 + rng.randint(-5, 5) * 2) / f
    else:
        x = rng.uniform(-1, 1) * 10 ** rng.randint(-14, 3)
    if abs(x * f) >= 2 ** 61:
        x = rng.uniform(-1, 1)
    return float(x)


def gen_tarr(rng, maxlen=4, lim=LIM // 4, scalar=None):
    u = rng.choice(UNITS)
    sc = rng.random() < 0.3 if scalar is None else scalar
    n = 1 if sc else rng.randint(1, maxlen)
    if not sc and scalar is None and rng.random() < 0.012:
        n = rng.choice([255, 257, 1023, 1025, 2049, 4097, 5000])     # long arrays (size-dependent paths)
    f = FACT[u]
    p = []
    for _ in range(n):
        r = rng.random()
        if r < 0.5:
            p.append(gen_int_for(rng, f, lim) * f)       # a whole number of its unit
        else:
            p.append(gen_int_for(rng, 1, lim))           # any picosecond count
    t = {"p": p, "u": u, "sc": sc}
    if not sc and rng.random() < 0.4:
        t["via"] = rng.choice(["slice", "stride", "ufunc", "copy", "rewrap", "rewrap_nocopy", "rewrap_list"])
    elif sc and rng.random() < 0.25:
        t["via"] = "elem"
    return t


def gen_bare(rng, unit, n=None, sc=None, lim=LIM // 4):
    f = FACT[unit]
    kind = rng.choice(["int", "int64", "int32", "float", "float", "float64"])
    sc = (rng.random() < 0.4) if sc is None else sc
    n = 1 if sc else (n or rng.randint(1, 4))
    via = "stride" if (not sc and rng.random() < 0.2) else "direct"
    if kind.startswith("float"):
        return {"kind": kind, "sc": sc, "via": via, "v": [gen_float_for(rng, f).hex() for _ in range(n)]}
    v = [gen_int_for(rng, f, lim) for _ in range(n)]
    if kind == "int32":
        v = [max(-2 ** 31, min(2 ** 31 - 1, x)) for x in v]
    return {"kind": kind, "sc": sc, "via": via, "v": v}


def gen_action(rng):
    r = rng.random()
    if r < 0.3:
        u = rng.choice(UNITS + [None, None, "x", "sec"])
        r2 = rng.random()
        if r2 < 0.55:
            d = gen_bare(rng, u if u in FACT else "s", lim=LIM)
        elif r2 < 0.8:
            d = {"kind": "time", "t": gen_tarr(rng, lim=LIM)}
        else:
            d = {"kind": "timelist", "l": [gen_tarr(rng, scalar=True, lim=LIM) for _ in range(rng.randint(1, 4))]}
        return {"act": "ctor", "unit": u, "data": d}
    if r < 0.85:
        s = gen_tarr(rng)
        n = len(s["p"])
        r2 = rng.random()
        if r2 < 0.5:
            t = gen_tarr(rng)
            if rng.random() < 0.8 and not t["sc"] and not s["sc"]:
                # mostly shape-compatible
                t["p"] = (t["p"] * n)[:n]
            o = {"kind": "time", "t": t}
            # the other time class: a UniformTime holding the same kind of instants, on either side
            for side in (s, t):
                if not side["sc"] and rng.random() < 0.12:
                    m = len(side["p"])
                    f = FACT[side["u"]]
                    t0 = gen_int_for(rng, 1, LIM // 8)
                    dt = rng.choice([1, 7, f, 3 * f, rng.randint(1, 10 ** 6)])
                    if abs(t0) + m * dt < LIM // 4:
                        side["p"] = [t0 + i * dt for i in range(m)]
                        side["via"] = "uniform"
        else:
            o = gen_bare(rng, s["u"], n=n if rng.random() < 0.85 else n + 1)
        if rng.random() < 0.5:
            ops = ["Add", "Sub"] + (["RAdd", "RSub"] if o["kind"] != "time" else [])
            return {"act": "arith", "op": rng.choice(ops), "self": s, "o": o}
        if o["kind"] == "time" and rng.random() < 0.5:
            # make comparisons meet equal instants in different units
            t = o["t"]
            m = min(len(t["p"]), n)
            t["p"][:m] = [x + rng.choice([0, 0, 1, -1]) for x in s["p"][:m]]
            if t.get("via") == "uniform":
                # the payload was just perturbed: keep the UniformTime form only if it is still a uniform ramp
                d = [b - a for a, b in zip(t["p"], t["p"][1:])]
                if len(set(d)) > 1 or (d and d[0] <= 0):
                    del t["via"]
        return {"act": "cmp", "op": rng.choice(["Lt", "Le", "Gt", "Ge", "Eq"]), "self": s, "o": o}
    if r < 0.95:
        return {"act": "reduce", "r": rng.choice(["RMin", "RMax", "RSum", "RPtp"]),
                "self": gen_tarr(rng, maxlen=6, lim=LIM // 16384)}
    return {"act": "convert", "self": gen_tarr(rng), "unit": rng.choice(UNITS)}


def klass(a):
    k = a["act"]
    if k == "ctor":
        return "ctor/%s/%s" % (a["data"]["kind"], a["unit"] if a["unit"] in FACT or a["unit"] is None else "bad-unit")
    if k in ("arith", "cmp"):
        return "%s/%s" % (a["op"], a["o"]["kind"])
    if k == "reduce":
        return "reduce/%s" % a["r"]
    return k


def make_case(a):
    o = run_action(a)
    in_k = not (np_left(a) and a["o"]["kind"] == "float64")   # float result: not expressible in the model
    coq = "(%s, %s)" % (action_coq(a), outcome_coq(o)) if in_k else ""
    c = Case(coq, {"action": a, "observed": o}, klass(a), nontrivial=(o["t"] != "err"))
    c.in_k = in_k
    return c


HEADER = ("From Coq Require Import ZArith List Bool String PrimFloat.\n"
          "From NT Require Import F2Z Lists TimeArray C01K.\nImport ListNotations.\nOpen Scope Z_scope.\n")


def gen_unit_table():
    import nitime.timeseries as ts
    tab = ts.time_unit_conversion
    ent = sorted(((k, v) for k, v in tab.items() if k is not None), key=lambda kv: kv[1])
    none = tab.get(None, -1)
    src = HEADER + "Definition gen_units : list (string * Z) := %s.\n" % llit(
        ['("%s"%%string, %s)' % (k, zlit(v)) for k, v in ent])
    src += "Definition gen_none : Z := %s.\nDefinition gen_base : string := \"%s\"%%string.\n" % (zlit(none), ts.base_unit)
    src += ("Lemma unit_table_ok : unit_table_matches gen_units gen_none gen_base = true.\n"
            "Proof. vm_compute. reflexivity. Qed.\n")
    return src, {str(k): v for k, v in tab.items()}


def corpus_actions():
    p = core.VERIF / "harness" / "corpus" / "C01"
    out = []
    if p.exists():
        for f in sorted(p.glob("*.json")):
            out.append(json.loads(f.read_text())["action"])
    return out


def run(ctx):
    core.import_nitime()
    ctx.check_props()
    src, tab = gen_unit_table()
    g = ctx.check_gen("G_units", src, ["unit_table_ok"])
    if not g.ok:
        # search: which unit has a factor that is not the SI value
        for k, v in tab.items():
            want = FACT.get(k if k != "None" else "s")
            if want is None or v != want:
                ctx.report_fail(Fail("C01/unit-table/%s" % k, "unit table entry %s = %s, SI value %s" % (k, v, want),
                                     v, want, {"entry_point": "nitime.timeseries.time_unit_conversion", "key": k}))
    n = ctx.scale(5000, 60000)
    actions = corpus_actions() + [gen_action(ctx.rng) for _ in range(n)]
    cases = [make_case(a) for a in actions]
    kcases = [c for c in cases if c.in_k]
    kbad = ctx.check_cases("K", HEADER, kcases, "check", shard=ctx.scale(400, 1500), case_type="(action * outcome)")
    bad = {id(kcases[i]) for i in kbad}
    for c in cases:
        if not c.in_k:
            ctx.count_case(c)
    nfail = 0
    for i, c in enumerate(cases):
        f = oracle(c.replay["action"], c.replay["observed"])
        if f is not None:
            f.replay = {"entry_point": "nitime.timeseries.TimeArray", "model_disagrees": id(c) in bad}
            if ctx.report_fail(f, c):
                nfail += 1
    ctx.extra["model_impl_disagreements"] = len(bad)
    ctx.extra["rule"] = ("seeded generator over constructor (int/int32/int64/float/time/list-of-time x 9 units + None + invalid), "
                         "17 operators x operand kinds x 9x9 unit pairs, reductions, convert_unit; values small, near 2^53, "
                         "near the 2^62 ps limit, float ties; non-trivial = the call returned a value (not an exception)")
    return ctx.finish(
        trusted=["numpy int64 arithmetic is two's complement and float64 multiplication is IEEE binary64 (modelled by wrap64 / PrimFloat.mul)"],
        assumptions=["inputs with |ps| >= 2^62 are outside the property's quantifier and skipped by the oracle (still compared with the model)"])


def replay(ctx, path):
    core.import_nitime()
    d = json.loads(open(path).read())
    a = (d.get("case") or d)["action"]
    o = run_action(a)
    f = oracle(a, o)
    print(json.dumps({"action": a, "observed": o, "fails": None if f is None else f.what}, indent=1))
    return 1 if f else 0
