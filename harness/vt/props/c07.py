"""vt.props.c07 — Slepian tapers (dpss_windows), the tridiagonal solver underneath, low_bias selection.

PARTIAL PROOF.  What is proved (coq/Props/C07.v, over the Gallina models Model/Tridi.v, Model/Dpss.v):
  tridisolve solves T(d,e) x = b for every n when all pivots are non-zero (+ uniqueness), the reversal of the
  ascending LAPACK eigenvalues is non-increasing, the sign flips, concentration-through-autocorrelation = v^T S v
  for the sinc kernel, low_bias selection, rescaling of interpolated tapers.
What is NOT proved and runs here as numerical TESTS (and as the search oracle): that LAPACK eigvals_banded +
  tridi_inverse_iteration converge to the eigenvectors: orthonormality 1e-8, eigenvalues in (0,1] non-increasing,
  residual of S v - lambda v for the dense sinc kernel, agreement with dense eigh / scipy.signal.windows.dpss.

Tie (K): the Q model of tridisolve is evaluated by the Coq kernel on random dyadic systems and compared with up
  to three implementations: (a) the pure-Python fallback of utils.py (utils.py re-executed with the import of
  nitime._utils blocked), (b) the body of _utils.pyx executed as Python after stripping cdef/type declarations
  (fail-closed), (c) the built extension nitime._utils as found (there is no Cython in the sandbox: a changed .pyx
  cannot be recompiled, (c) is whatever binary is present).  Also K for the discrete steps of dpss_windows on the
  implementation's own vectors (set-up, ordering, sign flips, concentration formula, interpolation rescale,
  low_bias selection)."""
import concurrent.futures
import importlib.util
import json
import re
import sys
from fractions import Fraction
from pathlib import Path

import numpy as np

from vt import core
from vt.core import Case, Fail, flit, flist, llit, nlit

HEADER = ("From Coq Require Import QArith List Bool Arith PrimFloat.\n"
          "From NT Require Import F2Z Close Lists Sums Tridi Dpss C07K.\nImport ListNotations.\n")

NWS = [1 + 0.5 * i for i in range(15)]          # 1, 1.5, ..., 8
KINDS = ["linear", "nearest", "zero", "slinear", "quadratic", "cubic"]
ZP_SOLVER = "C07/tridisolve/zero-pivot"
ZP_DPSS = "C07/dpss_windows/zero-pivot"


def admissible(N, NW):
    return 2 * NW <= N / 2.0 and 4 * NW != N


def rows_lit(rows):
    return llit([flist(r) for r in rows])


def hexl(a):
    return [float(x).hex() for x in a]


def unhex(l):
    return np.array([float.fromhex(x) for x in l], dtype="d")


# ============================================================================ implementations of the solver
class Impls:
    """the forms of tridisolve that exist on this tree"""

    def __init__(self, ctx):
        import nitime.utils as U
        self.U = U
        self.solvers = {}        # name -> callable
        self.info = {}
        repo = core.REPO
        # (a) pure-Python fallback: re-execute utils.py with the extension import blocked
        missing = object()
        saved = sys.modules.get("nitime._utils", missing)
        sys.modules["nitime._utils"] = None         # makes `from nitime._utils import ...` raise ImportError
        try:
            spec = importlib.util.spec_from_file_location("nitime_utils_purepy_c07", str(repo / "nitime" / "utils.py"))
            P = importlib.util.module_from_spec(spec)
            spec.loader.exec_module(P)
        finally:
            if saved is missing:
                del sys.modules["nitime._utils"]
            else:
                sys.modules["nitime._utils"] = saved
        self.P = P
        ok_a = getattr(P.tridisolve, "__module__", None) == "nitime_utils_purepy_c07"
        ctx.obligation("G", "tie:pure-python tridisolve obtained from utils.py with nitime._utils blocked", ok_a,
                       "tridisolve of the re-executed utils.py comes from %r" % getattr(P.tridisolve, "__module__", None))
        if ok_a:
            self.solvers["pure-python"] = P.tridisolve
        self.info["pure-python"] = "utils.py re-executed with the import of nitime._utils blocked" if ok_a else "NOT OBTAINED"
        # (b) the .pyx body as Python
        pyx = repo / "nitime" / "_utils.pyx"
        try:
            f, stripped = pyx_as_python(pyx.read_text())
            # smoke test: must run on a 2x2 system
            x = f(np.array([2.0, 2.0]), np.array([1.0, 0.0]), np.array([3.0, 3.0]), overwrite_b=False)
            assert x is not None and len(x) == 2
            self.solvers["pyx-as-python"] = f
            self.info["pyx-as-python"] = "body of _utils.pyx executed as Python after stripping cdef/type declarations"
            ctx.obligation("G", "tie:_utils.pyx strips to runnable Python", True)
        except Exception as ex:  # fail closed: a broken tie, not a pass
            self.info["pyx-as-python"] = "BROKEN TIE: %r" % (ex,)
            ctx.obligation("G", "tie:_utils.pyx strips to runnable Python", False, repr(ex))
        # (c) the built extension, as found
        try:
            import nitime._utils as X
            self.solvers["extension"] = X.tridisolve
            where = "in this tree" if Path(X.__file__).resolve().parent == (repo / "nitime").resolve() else \
                "OUTSIDE this tree (the editable-install finder resolves nitime._utils to it; it is what utils.py imports)"
            self.info["extension"] = ("built extension %s as found %s; NO Cython in the sandbox: it cannot be rebuilt, so an edit "
                                      "of _utils.pyx is visible only through pyx-as-python" % (X.__file__, where))
        except ImportError:
            self.info["extension"] = "absent in this tree (utils.py falls back to pure Python); nothing to compare"
        self.as_found = "extension" if getattr(U.tridisolve, "__module__", "") == "nitime._utils" else "pure-python"
        self.info["nitime.utils.tridisolve as found"] = self.as_found

    def modules(self):
        """(label, module) pairs whose dpss_windows run through different solver forms"""
        out = [("as-found:" + self.as_found, self.U)]
        if self.as_found != "pure-python":
            out.append(("pure-python", self.P))
        return out

    def module(self, label):
        return self.P if label == "pure-python" else self.U


def pyx_as_python(src):
    """strip Cython-only syntax from _utils.pyx and exec it; returns (tridisolve, python source)"""
    out = []
    for line in src.splitlines():
        s = line.strip()
        if s.startswith("cimport ") or re.match(r"from\s+\S+\s+cimport\b", s) or s.startswith("@cython"):
            continue
        m = re.match(r"^(\s*)cdef\s+(.*)$", line)
        if m:
            ind, rest = m.group(1), m.group(2)
            depth, cut = 0, -1
            for i, ch in enumerate(rest):                 # first '=' outside [...] (buffer types contain ndim=1)
                if ch in "[(":
                    depth += 1
                elif ch in "])":
                    depth -= 1
                elif ch == "=" and depth == 0:
                    cut = i
                    break
            if cut >= 0:
                name = re.sub(r"\[[^\]]*\]", "", rest[:cut]).strip().split()[-1]
                out.append("%s%s = %s" % (ind, name, rest[cut + 1:].strip()))
            continue                                  # bare declaration
        out.append(line)
    txt = "\n".join(out)
    # typed arguments in def headers:  cnp.ndarray[cnp.npy_double, ndim=1] d  ->  d ;  int n -> n
    def fix_header(m):
        h = m.group(0)
        h = re.sub(r"[\w\.]+\[[^\]]*\]\s+(\w+)", r"\1", h)
        h = re.sub(r"\b(?:unsigned\s+)?(?:int|long|double|float|bint|Py_ssize_t|size_t)\s+(\w+)", r"\1", h)
        return h
    txt = re.sub(r"^def\s+\w+\s*\(.*?\)\s*:", fix_header, txt, flags=re.S | re.M)
    ns = {"xrange": range, "__name__": "nitime_utils_pyx_as_python"}
    exec(compile(txt, "_utils.pyx(as python)", "exec"), ns)
    return ns["tridisolve"], txt


def _lay(a, layout):
    """the same values as a fresh array of the requested memory layout"""
    a = np.asarray(a)
    if layout == "strided":
        big = np.zeros(2 * len(a) + 1, a.dtype)
        big[1::2] = a
        return big[1::2]
    if layout == "reversed":                      # negative stride
        r = a[::-1].copy()
        return r[::-1]
    return a.copy()


def run_solver(f, d, e, b, overwrite, layout="contig", dtype=None, positional=False):
    if dtype is not None:
        d, e, b = d.astype(dtype), e.astype(dtype), b.astype(dtype)
    d1, e1, b1 = _lay(d, layout), _lay(e, layout), _lay(b, layout)
    try:
        with np.errstate(all="ignore"):
            r = f(d1, e1, b1, overwrite) if positional else f(d1, e1, b1, overwrite_b=overwrite)
        x = b1 if overwrite else r
        x = np.asarray(x, dtype="d")
        if x.shape != b.shape:
            return {"t": "bad", "what": "shape %s" % (x.shape,)}
        mod = [nm for nm, a0, a1 in (("d", d, d1), ("e", e, e1)) + ((("b", b, b1),) if not overwrite else ())
               if not np.array_equal(a0, a1, equal_nan=True)]
        out = {"t": "ok", "x": hexl(x)}
        if mod:
            out["modified"] = mod                 # the caller's arrays were written to
        return out
    except Exception as ex:
        return {"t": "exc", "cls": type(ex).__name__}


# ============================================================================ exact arithmetic
def exact_solve(d, e, b):
    """Fraction LDL^T as the code does it; returns (pivots, lmax, x) or (pivots_so_far, None, None) on a zero pivot"""
    n = len(b)
    D = [Fraction(float(v)) for v in d]
    E = [Fraction(float(v)) for v in e]
    x = [Fraction(float(v)) for v in b]
    lmax = Fraction(0)
    for k in range(1, n):
        if D[k - 1] == 0:
            return D[:k], None, None
        t = E[k - 1]
        E[k - 1] = t / D[k - 1]
        D[k] = D[k] - t * E[k - 1]
        lmax = max(lmax, abs(E[k - 1]))
    if D[n - 1] == 0:
        return D, None, None
    for k in range(1, n):
        x[k] = x[k] - E[k - 1] * x[k - 1]
    x[n - 1] = x[n - 1] / D[n - 1]
    for k in range(n - 2, -1, -1):
        x[k] = x[k] / D[k] - E[k] * x[k + 1]
    return D, lmax, x


def exact_nonsingular(d, e, n):
    """det T(d,e) != 0, by the three-term recurrence in Fractions"""
    D = [Fraction(float(v)) for v in d]
    E = [Fraction(float(v)) for v in e]
    p0, p1 = Fraction(1), D[0]
    for k in range(1, n):
        p0, p1 = p1, D[k] * p1 - E[k - 1] ** 2 * p0
    return p1 != 0


def residual_rel(d, e, b, x):
    """max_k |(T x - b)_k| / (||T||_inf ||x||_inf + ||b||_inf), exact"""
    n = len(b)
    D = [Fraction(float(v)) for v in d]
    E = [Fraction(float(v)) for v in e]
    B = [Fraction(float(v)) for v in b]
    X = [Fraction(float(v)) for v in x]
    rmax = Fraction(0)
    tn = Fraction(0)
    for k in range(n):
        r = D[k] * X[k] - B[k]
        rs = abs(D[k])
        if k > 0:
            r += E[k - 1] * X[k - 1]
            rs += abs(E[k - 1])
        if k + 1 < n:
            r += E[k] * X[k + 1]
            rs += abs(E[k])
        rmax = max(rmax, abs(r))
        tn = max(tn, rs)
    den = tn * max(abs(v) for v in X) + max(abs(v) for v in B)
    return float(rmax / den) if den else float(rmax)


# ============================================================================ generator: tridiagonal systems
def dy(rng, lim=8, bits=4):
    return rng.randint(-lim * 2 ** bits, lim * 2 ** bits) / float(2 ** bits)


def gen_system(rng):
    u = rng.random()
    n = rng.choice([1, 1, 2, 2, 3, 3, 4, 5]) if u < 0.3 else (rng.randint(1, 16) if u < 0.85 else rng.randint(17, 40))
    r = rng.random()
    small = n > 16                                  # keep the exact rationals of the Coq evaluation short for large n
    elen = n if rng.random() < 0.8 else max(n - 1, 0)
    for _ in range(200):
        e = [dy(rng, 4, 2) if small else dy(rng) for _ in range(n)]
        if rng.random() < 0.2:
            e[rng.randrange(n)] = 0.0                      # a decoupled block
        b = [dy(rng, 4, 1) if small else dy(rng, 16) for _ in range(n)]
        if r < 0.45:
            kind = "diag-dominant"
            d = []
            for k in range(n):
                s = (abs(e[k - 1]) if k > 0 else 0) + (abs(e[k]) if k + 1 < n else 0)
                d.append(rng.choice([-1, 1]) * (s + 1 + abs(dy(rng, 2, 1) if small else dy(rng, 4))))
        elif r < 0.8 or (r < 0.9 and n > 10):
            kind = "indefinite"
            d = [dy(rng, 4, 2) if small else dy(rng) for _ in range(n)]
        elif r < 0.9:
            kind = "slepian-shifted"
            # the matrix of the eigenproblem, shifted by a value well between two eigenvalues
            N = max(n, 2)
            NW = rng.choice([1.0, 1.5, 2.0, 2.5])
            idx = np.arange(N, dtype="d")
            dg = ((N - 1 - 2 * idx) / 2.) ** 2 * np.cos(2 * np.pi * NW / N)
            od = np.zeros(N)
            od[:-1] = idx[1:] * (N - idx[1:]) / 2.
            T = np.diag(dg) + np.diag(od[:-1], 1) + np.diag(od[:-1], -1)
            w = np.linalg.eigvalsh(T)
            j = rng.randrange(N)
            shift = w[j] + (0.37 * (w[j] - w[j - 1]) if j > 0 else 0.5)
            d = [round(float(v) * 1024) / 1024. for v in (dg - shift)[:n]]
            e = list(od[:n])
        else:
            kind = "zero-pivot"
            d = [(dy(rng, 4, 2) if small else dy(rng)) or 1.0 for _ in range(n)]
            j = rng.randrange(n)
            if j == 0 or rng.random() < 0.3:
                d[0] = 0.0
            else:
                piv, lmax, _ = exact_solve(d, e, b)
                if len(piv) < j or piv[j - 1] == 0:
                    continue
                want = Fraction(e[j - 1]) ** 2 / piv[j - 1]
                if Fraction(float(want)) != want:
                    d[0] = 0.0
                else:
                    d[j] = float(want)
        e_used = e[:elen] if elen >= max(n - 1, 0) else e
        piv, lmax, x = exact_solve(d, e, b)
        zero = x is None
        if kind == "zero-pivot":
            if not zero:
                continue
        else:
            if zero:
                continue
            # keep only systems on which a float LDL^T without pivoting is accurate to ~1e-10
            xm = max(abs(v) for v in x)
            bm = max(abs(Fraction(v)) for v in b) or 1
            if lmax > 8 or min(abs(p) for p in piv) < Fraction(1, 16) or xm > 64 * bm:
                continue
        # magnitude range: matrix scaled by 2^s, right-hand side by 2^t (exact in binary64; the solution scales by 2^(t-s))
        sm = rng.randint(-40, 40) if rng.random() < 0.45 else 0
        sb = rng.randint(-40, 40) if rng.random() < 0.45 else 0
        d = [float(v) * 2.0 ** sm for v in d]
        e_used = [float(v) * 2.0 ** sm for v in e_used]
        b = [float(v) * 2.0 ** sb for v in b]
        return {"fam": "solve", "kind": kind, "n": n, "d": hexl(d), "e": hexl(e_used), "b": hexl(b),
                "scale": [sm, sb], "overwrite": rng.random() < 0.5,
                "layout": rng.choice(["contig", "contig", "strided", "reversed"]), "positional": rng.random() < 0.25}
    return gen_system(rng)


def gen_big_system(rng, n):
    """a LARGE system whose exact LDL^T stays in small dyadics (pivots in {+-1/2,+-1,+-2,+-4}, multipliers in {0,+-1},
    integer right-hand side): cheap for the Q model inside Coq and exact in float64"""
    D = [rng.choice([-1, 1]) * rng.choice([0.5, 1.0, 1.0, 2.0, 4.0]) for _ in range(n)]
    l = [rng.choice([-1, 0, 1, 1, -1]) for _ in range(n)]
    e = [l[k] * D[k] for k in range(n)]
    d = [D[0]] + [D[k] + e[k - 1] * l[k - 1] for k in range(1, n)]
    b = [float(rng.randint(-3, 3)) for _ in range(n)]
    return {"fam": "solve", "kind": "large-dyadic", "n": n, "d": hexl(d), "e": hexl(e), "b": hexl(b), "scale": [0, 0],
            "overwrite": rng.random() < 0.5, "layout": rng.choice(["contig", "strided"]), "positional": False}


def gen_float_system(rng, n):
    """a large diagonally dominant float system for the float oracle only (no Coq evaluation)"""
    r = np.random.RandomState(rng.randint(0, 2 ** 31 - 1))
    e = r.randn(n)
    e[-1] = r.randn()
    d = (np.abs(e) + np.abs(np.r_[0, e[:-1]]) + 0.5 + r.rand(n)) * r.choice([-1, 1], n)
    b = r.randn(n)
    sm, sb = rng.randint(-40, 40), rng.randint(-40, 40)
    return {"fam": "solve-float", "kind": "large-float", "n": n, "d": hexl(d * 2.0 ** sm), "e": hexl(e * 2.0 ** sm),
            "b": hexl(b * 2.0 ** sb), "scale": [sm, sb], "overwrite": rng.random() < 0.5,
            "layout": rng.choice(["contig", "strided", "reversed"]), "positional": False}


def gen_alt_dtype_system(rng):
    """integer-valued diagonally dominant system handed over as int64 / int32 / float32 arrays (oracle only)"""
    n = rng.randint(1, 12)
    e = [float(rng.randint(-3, 3)) for _ in range(n)]
    d = [float(rng.choice([-1, 1]) * (abs(e[k - 1] if k else 0) + abs(e[k] if k + 1 < n else 0) + rng.randint(1, 4)))
         for k in range(n)]
    b = [float(rng.randint(-8, 8)) for _ in range(n)]
    return {"fam": "solve-alt", "kind": "alt-dtype", "n": n, "d": hexl(d), "e": hexl(e), "b": hexl(b),
            "dtype": rng.choice(["int64", "int32", "float32"]), "overwrite": rng.random() < 0.5,
            "layout": rng.choice(["contig", "strided"]), "positional": False}


def make_solve_case(impls, a):
    d, e, b = unhex(a["d"]), unhex(a["e"]), unhex(a["b"])
    res = {name: run_solver(f, d, e, b, a["overwrite"], a.get("layout", "contig"), None, a.get("positional", False))
           for name, f in impls.solvers.items()}
    a = dict(a)
    a["observed"] = res
    piv, lmax, x = exact_solve(d, e, b)
    if x is None:
        a["zero_pivot"] = True
        coq = "KZero %s %s %s" % (flist(d), flist(e), flist(b))
    else:
        a["zero_pivot"] = False
        # an implementation that raised, or that wrote into the caller's d / e (the model's work vectors are copies),
        # contributes no output: the K lemma then fails
        outs = [flist(unhex(r["x"])) if r["t"] == "ok" and not r.get("modified") else "[]" for r in res.values()]
        coq = "KSolve %s %s %s %s" % (flist(d), flist(e), flist(b), llit(outs))
    return Case(coq, a, "solve/%s/n=%s" % (a["kind"], a["n"] if a["n"] <= 3 else ("4-10" if a["n"] <= 10 else
                                                                                   ("11-40" if a["n"] <= 40 else ">1000"))),
                nontrivial=(a["n"] >= 2))


def oracle_solve(a):
    """the solver output must solve the system (exact residual) and agree with a dense solve"""
    d, e, b = unhex(a["d"]), unhex(a["e"]), unhex(a["b"])
    n = len(b)
    fails = []
    for name, r in a["observed"].items():
        if a.get("zero_pivot"):
            # nonsingular? then the failure to solve is the known zero-pivot finding
            if exact_nonsingular(d, e, n):
                good = r["t"] == "ok" and np.isfinite(unhex(r["x"])).all() and residual_rel(d, e, b, unhex(r["x"])) < 1e-7
                if not good:
                    fails.append(Fail(ZP_SOLVER, "tridisolve (%s) does not solve a nonsingular system with a zero pivot" % name,
                                      r, "x with T x = b"))
            continue
        if r["t"] != "ok":
            fails.append(Fail("C07/tridisolve/%s/exception" % name, "tridisolve (%s) failed: %s" % (name, r), r, "solution"))
            continue
        x = unhex(r["x"])
        if r.get("modified"):
            fails.append(Fail("C07/tridisolve/%s/inputs-modified" % name,
                              "tridisolve (%s) wrote into the caller's %s (work vectors must be copies; the inverse "
                              "iteration re-uses d and e)" % (name, "/".join(r["modified"])), r["modified"], "d, e%s unchanged"
                              % ("" if a["overwrite"] else ", b")))
            continue
        if not np.isfinite(x).all():
            fails.append(Fail("C07/tridisolve/%s/non-finite" % name, "non-finite output", r, "solution"))
            continue
        rr = residual_rel(d, e, b, x)
        if rr > 1e-7:
            fails.append(Fail("C07/tridisolve/%s/residual" % name,
                              "T x - b is not zero: relative residual %.3g (n=%d)" % (rr, n), rr, "<= 1e-7"))
            continue
        if n > 200:
            continue
        T = np.diag(d) + (np.diag(e[:n - 1], 1) + np.diag(e[:n - 1], -1) if n > 1 else 0)
        xd = np.linalg.solve(T, b)
        if np.abs(xd - x).max() > 1e-6 * max(1e-300, np.abs(xd).max()):
            fails.append(Fail("C07/tridisolve/%s/dense-solve" % name, "differs from numpy.linalg.solve by %.3g"
                              % np.abs(xd - x).max(), hexl(x), hexl(xd)))
    return fails


INT_DTYPE = "C07/tridisolve/pure-python/integer-dtype"


def float_residual_rel(d, e, b, x):
    """max |T x - b| / (||T|| ||x|| + ||b||) in float64 (vectorised tridiagonal product) — for large n"""
    n = len(b)
    r = d * x - b
    rs = np.abs(d).copy()
    if n > 1:
        r[1:] += e[:n - 1] * x[:-1]
        r[:-1] += e[:n - 1] * x[1:]
        rs[1:] += np.abs(e[:n - 1])
        rs[:-1] += np.abs(e[:n - 1])
    den = rs.max() * np.abs(x).max() + np.abs(b).max()
    return float(np.abs(r).max() / den) if den else float(np.abs(r).max())


def run_float_case(impls, a):
    """large / alternative-dtype systems: every solver form, judged by the float oracle only"""
    d, e, b = unhex(a["d"]), unhex(a["e"]), unhex(a["b"])
    dt = a.get("dtype")
    res = {}
    for name, f in impls.solvers.items():
        if dt and name == "pyx-as-python":
            continue          # the .pyx declares double buffers; its stripped body has no dtype semantics of its own
        res[name] = run_solver(f, d, e, b, a["overwrite"], a.get("layout", "contig"), dt, a.get("positional", False))
    a = dict(a)
    a["observed"] = res
    return a


def oracle_float_case(a):
    d, e, b = unhex(a["d"]), unhex(a["e"]), unhex(a["b"])
    n = len(b)
    dt = a.get("dtype")
    tol = 1e-9 if not dt else (2e-4 if dt == "float32" else 1e-9)
    fails = []
    ref = None
    if n > 1:
        try:
            from scipy.linalg import solve_banded
            ab = np.zeros((3, n))
            ab[0, 1:] = e[:n - 1]
            ab[1] = d
            ab[2, :-1] = e[:n - 1]
            ref = solve_banded((1, 1), ab, b)
        except Exception:
            ref = None
    for name, r in a["observed"].items():
        if r["t"] == "exc":
            if dt and r["cls"] in ("ValueError", "TypeError"):
                continue                          # a clean rejection of a dtype it does not support
            fails.append(Fail("C07/tridisolve/%s/exception" % name, "tridisolve (%s) failed: %s" % (name, r), r, "solution"))
            continue
        if r["t"] != "ok":
            fails.append(Fail("C07/tridisolve/%s/exception" % name, "tridisolve (%s): %s" % (name, r), r, "solution"))
            continue
        if r.get("modified"):
            fails.append(Fail("C07/tridisolve/%s/inputs-modified" % name, "tridisolve (%s) wrote into the caller's %s"
                              % (name, "/".join(r["modified"])), r["modified"], "inputs unchanged"))
            continue
        x = unhex(r["x"])
        rr = float_residual_rel(d, e, b, x) if np.isfinite(x).all() else float("inf")
        bad = rr > tol
        if not bad and ref is not None and np.abs(ref - x).max() > max(tol, 1e-7) * 100 * max(np.abs(ref).max(), 1e-300):
            bad = True
            rr = float(np.abs(ref - x).max() / max(np.abs(ref).max(), 1e-300))
        if bad:
            if dt and dt.startswith("int") and name == "pure-python":
                fails.append(Fail(INT_DTYPE, "pure-Python tridisolve on integer-dtype arrays: the work vectors inherit the integer "
                                  "dtype and every quotient is truncated (relative residual %.3g)" % rr, hexl(x), "solution or a TypeError"))
            else:
                fails.append(Fail("C07/tridisolve/%s/residual" % name, "T x - b is not zero: relative residual / difference to "
                                  "scipy solve_banded %.3g (n=%d, dtype=%s)" % (rr, n, dt or "float64"), rr, "<= %g" % tol))
    return fails


# ============================================================================ dpss_windows: observation
class Recorder:
    """wraps tridi_inverse_iteration and the interpolate namespace of one utils module"""

    def __init__(self, mod, flip=0):
        self.mod = mod
        self.flip = flip     # bit k set: hand the k-th inverse-iteration result back NEGATED (drives the sign-flip branches)
        self.calls = []      # dicts d, e, w, ret
        self.interp = []     # arrays returned by the interp1d objects

    def __enter__(self):
        mod = self.mod
        self.orig_tii = mod.tridi_inverse_iteration
        self.orig_interp = mod.interpolate
        rec = self

        def tii(d, e, w, *a, **k):
            c = {"d": np.array(d, dtype="d", copy=True), "e": np.array(e, dtype="d", copy=True), "w": float(w), "ret": None}
            rec.calls.append(c)
            r = rec.orig_tii(d, e, w, *a, **k)
            if (rec.flip >> (len(rec.calls) - 1)) & 1:
                r = -np.asarray(r)
            c["ret"] = np.array(r, dtype="d", copy=True)
            return r

        class Interp1d:
            def __init__(self, *a, **k):
                self._I = rec.orig_interp.interp1d(*a, **k)

            def __call__(self, x):
                y = self._I(x)
                rec.interp.append(np.array(y, dtype="d", copy=True))
                return y

        class Proxy:
            interp1d = Interp1d

            def __getattr__(self, n):
                return getattr(rec.orig_interp, n)

        mod.tridi_inverse_iteration = tii
        mod.interpolate = Proxy()
        return self

    def __exit__(self, *a):
        self.mod.tridi_inverse_iteration = self.orig_tii
        self.mod.interpolate = self.orig_interp


def float_zero_pivot(d, e, w):
    """does the LDL^T of (d - w, e) hit an exactly zero pivot in float64 (same operations as the code)"""
    dw = (np.asarray(d, dtype="d") - w).copy()
    ew = np.asarray(e, dtype="d").copy()
    n = len(dw)
    with np.errstate(all="ignore"):
        for k in range(1, n):
            if dw[k - 1] == 0:
                return True
            t = ew[k - 1]
            ew[k - 1] = t / dw[k - 1]
            dw[k] = dw[k] - t * ew[k - 1]
    return bool(dw[n - 1] == 0) or not np.isfinite(dw).all()


class CallTimeout(Exception):
    pass


_TIMEOUTS = {"n": 0}


def with_timeout(seconds, fn):
    """run fn() in the main thread with a wall-clock limit (a broken inverse iteration may never stop)"""
    import signal

    def handler(signum, frame):
        raise CallTimeout()

    if _TIMEOUTS["n"] >= 5:
        seconds = min(seconds, 2.0)          # after repeated time-outs do not spend the budget again and again
    old = signal.signal(signal.SIGALRM, handler)
    signal.setitimer(signal.ITIMER_REAL, seconds)
    try:
        return fn()
    except CallTimeout:
        _TIMEOUTS["n"] += 1
        raise
    finally:
        signal.setitimer(signal.ITIMER_REAL, 0)
        signal.signal(signal.SIGALRM, old)


def run_dpss(mod, a, keep_raw=False):
    """run dpss_windows under observation; returns a dict (JSON-able apart from arrays kept under '_').
    keep_raw: also keep the very objects dpss_windows returned (out['_raw']) — the harness otherwise works on copies"""
    N, NW, K = a["N"], a["NW"], a["Kmax"]
    kw = {}
    if a.get("interp_from") is not None:
        kw = {"interp_from": a["interp_from"], "interp_kind": a.get("interp_kind", "linear")}
    form = a.get("argform")
    cN, cNW, cK = N, NW, K
    if form == "np-int":
        cN, cK = np.int64(N), np.int64(K)
        if "interp_from" in kw:
            kw["interp_from"] = np.int64(kw["interp_from"])
    elif form == "int-NW" and float(NW).is_integer():
        cNW = int(NW)
    elif form == "float-Kmax":
        cK = float(K)
    if form == "keywords":
        call = lambda: mod.dpss_windows(N=cN, NW=cNW, Kmax=cK, **kw)
    else:
        call = lambda: mod.dpss_windows(cN, cNW, cK, **kw)
    with Recorder(mod, flip=a.get("flip", 0)) as rec:
        try:
            with np.errstate(all="ignore"):
                v, lam = with_timeout(20.0, call)
            out = {"t": "ok", "v": np.array(v, dtype="d"), "lam": np.array(lam, dtype="d")}
            if keep_raw:
                out["_raw"] = (v, lam)
        except Exception as ex:
            out = {"t": "exc", "cls": type(ex).__name__, "msg": str(ex)[:200]}
    out["calls"] = rec.calls
    out["interp"] = rec.interp
    # classification of a breakdown
    if out["t"] == "exc" and out["cls"] == "ZeroDivisionError":
        out["zero_pivot"] = True          # the only divisions that can raise are those by a pivot
    elif out["t"] == "ok" and not (np.isfinite(out["v"]).all() and np.isfinite(out["lam"]).all()):
        bad = [c for c in rec.calls if c["ret"] is not None and not np.isfinite(c["ret"]).all()]
        out["zero_pivot"] = bool(bad) and all(float_zero_pivot(c["d"], c["e"], c["w"]) for c in bad)
    else:
        out["zero_pivot"] = False
    return out


def sinc_kernel_dense(N, W):
    n = np.arange(N)
    dd = n[:, None] - n[None, :]
    with np.errstate(all="ignore"):
        S = np.sin(2 * np.pi * W * dd) / (np.pi * dd)
    S[dd == 0] = 2 * W
    return S


def sinc_matvec(N, W, V):
    """S @ V.T for the sinc kernel without forming it (large N)"""
    from scipy.linalg import matmul_toeplitz
    n = np.arange(N)
    with np.errstate(all="ignore"):
        c = np.sin(2 * np.pi * W * n) / (np.pi * n)
    c[0] = 2 * W
    return matmul_toeplitz((c, c), V.T)


_EIGH_CACHE = {}


def validate_dpss(a, out, stats, dense_limit=1100):
    """NUMERICAL TESTS (not proofs) of the part of C07 that no theorem carries; also the search oracle.
    Returns a list of Fail."""
    N, NW, K = a["N"], a["NW"], a["Kmax"]
    key = "C07/dpss_windows/"
    fails = []
    if out["t"] == "exc" or (out["t"] == "ok" and not (np.isfinite(out["v"]).all() and np.isfinite(out["lam"]).all())):
        obs = {"exception": out.get("cls"), "msg": out.get("msg")} if out["t"] == "exc" else "non-finite tapers"
        if out.get("zero_pivot"):
            return [Fail(ZP_DPSS, "dpss_windows breaks down (exactly zero pivot in tridisolve during inverse iteration)",
                         obs, "finite orthonormal tapers")]
        if out["t"] == "exc" and out.get("cls") == "CallTimeout":
            return [Fail(key + "no-termination", "dpss_windows did not return within the time limit (inverse iteration not converging)",
                         obs, "finite orthonormal tapers")]
        return [Fail(key + ("exception" if out["t"] == "exc" else "non-finite"), "dpss_windows failed", obs,
                     "finite orthonormal tapers")]
    v, lam = out["v"], out["lam"]
    if v.shape != (K, N) or lam.shape != (K,):
        return [Fail(key + "shape", "shapes %s %s" % (v.shape, lam.shape), None, [(K, N), (K,)])]
    interp = a.get("interp_from") is not None

    def upd(name, val):
        stats[name] = max(stats.get(name, 0.0), float(val))

    if interp:
        nrm = np.abs((v ** 2).sum(axis=1) - 1).max()
        upd("interp_unit_norm_err", nrm)
        if nrm > 1e-12:
            fails.append(Fail(key + "interp-unit-norm", "interpolated tapers are not unit-norm: |sum v^2 - 1| = %.3g" % nrm,
                              float(nrm), "<= 1e-12"))
        try:
            from scipy.signal import windows as _w
            ref = np.atleast_2d(_w.dpss(N, NW, K))
            cs = np.abs((v * ref).sum(axis=1))
            upd("interp_1-|cos|_to_exact", 1 - cs.min())
            if cs.min() < 0.5:
                fails.append(Fail(key + "interp-not-close", "interpolated taper %d does not resemble the exact taper of the same order "
                                  "(|cos| with scipy.signal.windows.dpss = %.3f)" % (int(np.argmin(cs)), cs.min()), float(cs.min()), ">= 0.5"))
        except ImportError:
            pass
        return fails
    G = v @ v.T
    orth = np.abs(G - np.eye(K)).max()
    upd("orthonormality_err", orth)
    if orth > 1e-8:
        fails.append(Fail(key + "orthonormal", "tapers not orthonormal: max |V V^T - I| = %.3g" % orth, float(orth), "<= 1e-8"))
    if lam.min() <= 0 or lam.max() > 1 + 1e-9:
        fails.append(Fail(key + "range", "concentrations outside (0,1]: min %.6g max-1 %.3g" % (lam.min(), lam.max() - 1),
                          hexl(lam), "(0,1)"))
    if K > 1 and np.diff(lam).max() > 1e-9:
        fails.append(Fail(key + "order", "concentrations not non-increasing (largest increase %.3g)" % np.diff(lam).max(),
                          hexl(lam), "non-increasing"))
    W = float(NW) / N
    if N <= dense_limit:
        S = sinc_kernel_dense(N, W)
        SV = S @ v.T
    else:
        S = None
        SV = sinc_matvec(N, W, v)
    res = np.abs(SV - v.T * lam).max()
    upd("eigen_residual", res)
    if res > 1e-7:
        fails.append(Fail(key + "eigen-residual", "max |S v - lambda v| = %.3g for the dense sinc kernel" % res, float(res), "<= 1e-7"))
    if S is not None:
        if _EIGH_CACHE.get("key") != (N, NW):
            mu, Uv = np.linalg.eigh(S)
            _EIGH_CACHE.update(key=(N, NW), val=(mu[::-1], Uv[:, ::-1]))
        mu, Uv = _EIGH_CACHE["val"]
        dl = np.abs(mu[:K] - lam).max()
        upd("eigh_eigenvalue_diff", dl)
        if dl > 1e-8:
            fails.append(Fail(key + "reference-eigh", "concentration k is not the k-th largest eigenvalue of the sinc kernel "
                              "(max diff %.3g)" % dl, hexl(lam), hexl(mu[:K])))
        for k in range(K):
            gap = min(abs(mu[k] - mu[k - 1]) if k > 0 else 1.0, abs(mu[k] - mu[k + 1]) if k + 1 < N else 1.0)
            if gap > 1e-5:
                c = abs(float(v[k] @ Uv[:, k]))
                upd("eigh_vector_1-|cos|", 1 - c)
                if c < 1 - 1e-6:
                    fails.append(Fail(key + "reference-eigh", "taper %d is not the eigenvector of dense eigh (|cos| = %.9f)" % (k, c),
                                      c, ">= 1 - 1e-6"))
                    break
    # runs in which the harness handed inverse-iteration results back negated (flip bits) put dpss_windows into an
    # artificial internal state: they exist only for the K tie of the sign code (model vs code).  The oracle does
    # NOT judge the sign convention on them: the reference comparison is made up to the sign of each row and the
    # sign checks below are skipped.  Signs are judged only on tapers returned by un-tampered calls.
    tampered = bool(a.get("flip", 0))
    vcmp = v.copy()
    try:
        from scipy.signal import windows as _w
        ref, ratios = _w.dpss(N, NW, K, return_ratios=True)
        ref = np.atleast_2d(ref)
        ratios = np.atleast_1d(ratios)
        if tampered:
            for k in range(K):
                if float(ref[k] @ v[k]) < 0:
                    vcmp[k] = -v[k]
        dv = np.abs(ref - vcmp).max()
        dr = np.abs(ratios - lam).max()
        upd("scipy_dpss_vector_diff", dv)
        upd("scipy_dpss_ratio_diff", dr)
        stats["scipy_reference_runs"] = stats.get("scipy_reference_runs", 0) + 1
        if dv > 1e-6 or dr > 1e-8:
            fails.append(Fail(key + "reference-scipy", "differs from scipy.signal.windows.dpss: tapers %.3g ratios %.3g" % (dv, dr),
                              [float(dv), float(dr)], "<= 1e-6 / 1e-8"))
    except ImportError:
        pass
    # sign convention as the property states it — un-tampered calls only
    if tampered:
        return fails
    ev = v[0::2].sum(axis=1)
    if (ev <= 0).any():
        fails.append(Fail(key + "sign-even", "even-order taper %d has non-positive mean" % (2 * int(np.argmax(ev <= 0))),
                          hexl(ev), "> 0"))
    for i, r in enumerate(v[1::2]):
        j = int(np.argmax(np.abs(r) > 1e-7 * np.abs(r).max()))
        if r[j] <= 0:
            fails.append(Fail(key + "sign-odd", "odd-order taper %d starts with a negative lobe" % (2 * i + 1),
                              float(r[j]), "> 0"))
            break
    return fails


def dpss_k_cases(a, out, label):
    """K cases for the discrete steps of one dpss_windows run (needs the recorded intermediate values)"""
    N, NW, K = a["N"], a["NW"], a["Kmax"]
    if out["t"] != "ok" or not np.isfinite(out["v"]).all() or out["v"].shape != (K, N):
        return []
    v, lam = out["v"], out["lam"]
    W = float(NW) / N
    base = dict(a)
    base["form"] = label
    cs = []

    def mk(coq, step, nt=True):
        r = dict(base)
        r["step"] = step
        cs.append(Case(coq, r, "dpss/%s/%s" % (step, "interp" if a.get("interp_from") is not None else "direct"), nt))

    sinc = np.sinc(2 * W * np.arange(N, dtype="d"))
    sel = sorted(set([0, K - 1] if N > 16 else [0, K - 1, (7 * N + 3 * K) % K]))   # a few rows: the Q evaluation is O(N^2) per row
    if N <= 28:
        mk("KConc %s %s %s %s %s" % (nlit(N), flit(W), flist(sinc), rows_lit(v[sel]), flist(lam[sel])), "concentration")
    calls = out["calls"]
    if a.get("interp_from") is None:
        if len(calls) == K and all(c["ret"] is not None for c in calls):
            raw = [c["ret"] for c in calls]
            mk("KSigns %s %s %s" % (nlit(N), rows_lit(raw), rows_lit(v)), "signs")
            c0 = calls[0]
            mk("KSetup %s %s %s %s" % (nlit(N), flit(np.cos(2 * np.pi * W)), flist(c0["d"]), flist(c0["e"])), "setup")
            try:
                from scipy import linalg
                ab = np.zeros((2, N), "d")
                ab[1] = c0["d"]
                ab[0, 1:] = c0["e"][:-1]
                wa = linalg.eigvals_banded(ab, select="i", select_range=(N - K, N - 1))
                mk("KOrder %s %s" % (flist(wa), flist([c["w"] for c in calls])), "order", nt=(K > 1))
            except Exception:
                pass
        else:
            base["note"] = "inverse-iteration calls not observed (%d for Kmax=%d)" % (len(calls), K)
    else:
        pre = out["interp"]
        if len(pre) == K and all(p.shape == (N,) for p in pre):
            nrms = [np.sqrt(np.sum(p ** 2)) for p in pre]
            mk("KInterp %s %s %s %s" % (nlit(N), rows_lit(pre), flist(nrms), rows_lit(v)), "rescale")
    return cs


# ============================================================================ low_bias selection
LB_VALUES = [0.9, float(np.nextafter(0.9, 1)), float(np.nextafter(0.9, 0)), 0.95, 0.5, 0.99999, 0.89, 1.0, 0.0, -0.1,
             0.9000001, 0.8999999]


def run_lowbias(mod, a):
    """tapered_spectra(s, (NW, K), low_bias=True) with dpss_windows as is, or stubbed to return given eigenvalues"""
    rng = np.random.RandomState(a["seed"])
    N = a["N"]
    s = rng.randn(N)
    s = s - s.mean()
    s[np.abs(s) < 0.1] += 0.5
    s = s - s.mean()
    if np.abs(s).min() < 1e-3:
        s = s + np.linspace(-1e-2, 1e-2, N) * rng.randn()
    # magnitude range and offset of the signal (the selection must not depend on them)
    s = (s + a.get("soffset", 0.0)) * 2.0 ** a.get("sscale", 0)
    mode = a.get("mode", "on")
    if a.get("ev") is not None:
        ev = unhex(a["ev"])
        K = len(ev)
        rows = np.linalg.qr(rng.randn(N, K))[0].T.copy()
    else:
        try:
            with np.errstate(all="ignore"):
                rows, ev = with_timeout(20.0, lambda: mod.dpss_windows(N, a["NW"], a["Kmax"]))
            if not np.isfinite(rows).all():
                return {"t": "skip"}
        except Exception:
            return {"t": "skip"}          # breakdown of dpss_windows itself: reported by the dpss oracle, not here
        K = a["Kmax"]
    orig = mod.dpss_windows
    mod.dpss_windows = lambda *aa, **kk: (rows.copy(), np.array(ev, dtype="d").copy())
    try:
        with np.errstate(all="ignore"):
            if mode == "array":          # precomputed tapers: no selection, no eigenvalues
                r_ = mod.tapered_spectra(s, rows.copy())          # returns the spectra alone on this path
                ts = r_[0] if isinstance(r_, tuple) else r_
                kept_ev = ev
            elif mode == "off":
                ts, kept_ev = mod.tapered_spectra(s, (a.get("NW", 4.0), K), low_bias=False)
            elif mode == "kw-default":   # low_bias defaults to True; tapers handed over as a list
                ts, kept_ev = mod.tapered_spectra(s, [a.get("NW", 4.0), K])
            else:
                ts, kept_ev = mod.tapered_spectra(s, (a.get("NW", 4.0), K), low_bias=True)
        ts = np.asarray(ts)
        sd = s - s.mean()
        rec = np.fft.ifft(ts, axis=-1).real[..., :N] / sd
        rec = rec.reshape(-1, N)
        kept = []
        for r in rec:
            err = np.abs(rows - r).max(axis=1)
            j = int(np.argmin(err))
            kept.append(j if err[j] < 1e-7 else 999999)
        return {"t": "ok", "ev": hexl(ev), "kept": kept, "kept_ev": hexl(np.atleast_1d(kept_ev))}
    except Exception as ex:
        return {"t": "exc", "cls": type(ex).__name__, "ev": hexl(ev)}
    finally:
        mod.dpss_windows = orig


def oracle_lowbias(a, o):
    if o["t"] == "skip":
        return None
    if o["t"] != "ok":
        ev = unhex(o["ev"])
        if a.get("mode") not in ("off", "array") and not (ev > 0.9).any():
            return None            # nothing to keep: the FFT of an empty stack is outside the property
        return Fail("C07/tapered_spectra/low_bias-exception", "tapered_spectra failed: %s" % o["cls"], o, "selection")
    ev = unhex(o["ev"])
    want = [i for i in range(len(ev)) if ev[i] > 0.9 or a.get("mode") in ("off", "array")]
    if o["kept"] != want or list(unhex(o["kept_ev"])) != [ev[i] for i in want]:
        return Fail("C07/tapered_spectra/low_bias-selection", "low_bias keeps tapers %s, required exactly those with eigenvalue > 0.9: %s"
                    % (o["kept"], want), o, want)
    return None


# ============================================================================ run
def gen_dpss_configs(ctx):
    rng = ctx.rng
    kcfg, vcfg = [], []
    # K configurations: small N (Q evaluation inside Coq)
    nmax = ctx.scale(40, 64)
    for N in range(8, nmax + 1):
        nws = [nw for nw in NWS if admissible(N, nw)]
        for nw in rng.sample(nws, min(len(nws), ctx.scale(2, 3))):
            K = int(2 * nw) if rng.random() < 0.7 else rng.randint(1, int(2 * nw))
            kcfg.append({"fam": "dpss", "N": N, "NW": nw, "Kmax": K,
                         "flip": rng.getrandbits(16) if rng.random() < 0.6 else 0})
    for _ in range(ctx.scale(24, 80)):
        N = rng.randint(16, nmax)
        M = rng.choice([N, N // 2, (2 * N) // 3, N - 1, rng.randint(8, N)])
        M = max(8, M)
        nws = [nw for nw in NWS if admissible(M, nw) and admissible(N, nw)]
        if not nws:
            continue
        nw = rng.choice(nws)
        kcfg.append({"fam": "dpss", "N": N, "NW": nw, "Kmax": rng.randint(1, int(2 * nw)),
                     "interp_from": M, "interp_kind": rng.choice(KINDS)})
    # numerical validation: the quantifier's range N = 8..4096 — in BOTH tiers up to the stated maximum, with sizes
    # at / just above powers of two and odd / prime sizes (the references are numpy/scipy: cheap)
    top = 4096
    FORMS = [None, None, None, "np-int", "int-NW", "float-Kmax", "keywords"]
    for N in [1024, 1025, 2048, 2049, 3001, 4093, 4095, 4096] + ([] if ctx.quick else [513, 1023, 1031, 2047, 2053, 3072, 4001]):
        nws = [nw for nw in NWS if admissible(N, nw)]
        for nw in (sorted(set(rng.sample(nws, 2) + [8.0])) if ctx.quick else nws):
            vcfg.append({"fam": "dpss", "N": N, "NW": nw, "Kmax": int(2 * nw), "argform": rng.choice(FORMS)})
    Ns = set(range(8, 65))
    Ns.update([127, 128, 129, 255, 256, 257, 511, 512])
    while len(Ns) < ctx.scale(57 + 8 + 40, 57 + 8 + 160):
        Ns.add(rng.randint(65, 512))
    if not ctx.quick:
        for _ in range(24):
            Ns.add(rng.randint(513, top))
    for N in sorted(Ns):
        for nw in NWS:
            if not admissible(N, nw):
                continue
            if N > 64 and ctx.quick and rng.random() < 0.5:
                continue
            vcfg.append({"fam": "dpss", "N": N, "NW": nw, "argform": rng.choice(FORMS),
                         "Kmax": int(2 * nw) if rng.random() < 0.75 else rng.randint(1, int(2 * nw))})
    for _ in range(ctx.scale(120, 600)):
        N = rng.randint(16, top if rng.random() < 0.2 else 512)
        M = max(8, rng.choice([N, N // 2, N // 3, N // 4, N - 1, rng.randint(8, N)]))
        nws = [nw for nw in NWS if admissible(M, nw) and admissible(N, nw)]
        if not nws:
            continue
        nw = rng.choice(nws)
        vcfg.append({"fam": "dpss", "N": N, "NW": nw, "Kmax": rng.randint(1, int(2 * nw)), "argform": rng.choice(FORMS),
                     "interp_from": M, "interp_kind": rng.choice(KINDS + [1, 2, 3])})
    return kcfg, vcfg


def gen_lowbias(ctx):
    rng = ctx.rng
    out = []
    for _ in range(ctx.scale(60, 400)):
        k = rng.randint(1, 8)
        r = rng.random()
        if r < 0.5:
            ev = [rng.choice(LB_VALUES) for _ in range(k)]
        elif r < 0.8:
            ev = sorted([rng.choice(LB_VALUES + [0.999, 0.97, 0.91]) for _ in range(k)], reverse=True)
        else:
            ev = [rng.uniform(0.8, 1.0) for _ in range(k)]
        out.append({"fam": "lowbias", "N": rng.randint(12, 24), "ev": hexl(ev), "seed": rng.randint(0, 10 ** 6), "NW": 4.0,
                    "mode": rng.choice(["on", "on", "on", "kw-default", "off", "array"]),
                    "sscale": rng.choice([0, 0, rng.randint(-40, 40)]), "soffset": rng.choice([0.0, 3.0, -100.0])})
    for _ in range(ctx.scale(20, 100)):
        N = rng.randint(16, 64)
        nws = [nw for nw in NWS if admissible(N, nw)]
        nw = rng.choice(nws)
        out.append({"fam": "lowbias", "N": N, "NW": nw, "Kmax": int(2 * nw), "seed": rng.randint(0, 10 ** 6)})
    return out


def make_lowbias_case(mod, a, label):
    o = run_lowbias(mod, a)
    if o["t"] == "skip":
        return None
    r = dict(a)
    r["form"] = label
    r["observed"] = o
    if o["t"] != "ok":
        c = Case("", r, "lowbias/exception", False)
        c.in_k = False
        return c
    if a.get("mode") in ("off", "array"):
        c = Case("", r, "lowbias/%s" % a["mode"], True)      # no selection on these paths: judged by the oracle only
        c.in_k = False
        return c
    coq = "KLowBias %s %s %s" % (flist(unhex(o["ev"])), llit([nlit(i) for i in o["kept"]]), flist(unhex(o["kept_ev"])))
    c = Case(coq, r, "lowbias/%s" % ("stubbed-eigenvalues" if a.get("ev") is not None else "real"), len(o["kept"]) > 0)
    c.in_k = True
    return c


# ============================================================================ call history: sibling sequences, purity
def digest(out):
    """bit-exact fingerprint of a dpss_windows result"""
    import hashlib
    if out["t"] != "ok":
        return "exc:" + str(out.get("cls"))
    return hashlib.sha1(np.ascontiguousarray(out["v"]).tobytes() + np.ascontiguousarray(out["lam"]).tobytes()).hexdigest()


def gen_sequences(ctx):
    """option-sibling sequences: the same (N, NW, Kmax) asked for exactly and through interpolation (several interp_from /
    interp_kind), back to back in one process, in both orders"""
    rng = ctx.rng
    seqs = []
    Ns = [rng.randint(16, 512) for _ in range(ctx.scale(36, 150))] + [1025, 4096] + ([] if ctx.quick else [2049, 3001])
    for i, N in enumerate(Ns):
        for _ in range(20):
            M = max(8, rng.choice([N // 2, N // 3, N // 4, N - 1, (2 * N) // 3]))
            M2 = max(8, rng.choice([N // 2 + 1, N // 3 + 1, N - 2]))
            nws = [nw for nw in NWS if all(admissible(x, nw) for x in (N, M, M2))]
            if nws and M < N and M2 < N and M2 != M:
                break
        else:
            continue
        nw = rng.choice(nws)
        K = rng.choice([int(2 * nw), rng.randint(1, int(2 * nw))])
        k1, k2 = rng.sample(KINDS, 2)
        E = {"fam": "dpss", "N": N, "NW": nw, "Kmax": K}
        I = lambda m, kd: dict(E, interp_from=m, interp_kind=kd)
        if i % 2 == 0:
            seq = [I(M, k1), dict(E), I(M, k2), dict(E, argform="keywords"), I(M2, k1), dict(E, argform="np-int")]
        else:
            seq = [dict(E), I(M, k1), dict(E, argform="float-Kmax"), I(M, k2), I(M2, k2), dict(E)]
        seqs.append(seq)
    return seqs


def scribble(raw):
    """what a caller is free to do with arrays it was handed: modify them in place (eigenvalue weighting of the tapers,
    sqrt of the concentrations in place, windowing, bookkeeping on the eigenvalues).  Returns the names actually modified."""
    v, lam = raw
    done = []
    with np.errstate(all="ignore"):
        try:
            if isinstance(v, np.ndarray) and isinstance(lam, np.ndarray) and v.ndim == 2 and lam.shape == v.shape[:1]:
                v *= np.sqrt(np.abs(lam))[:, None]
            if isinstance(v, np.ndarray):
                v[..., v.shape[-1] // 2:] *= 0.25          # lopsided window: no longer symmetric / unit-norm / orthogonal
                v[..., :1] += 0.5
                done.append("tapers")
        except (ValueError, TypeError):
            pass                                           # read-only results cannot be scribbled on: nothing to test
        try:
            if isinstance(lam, np.ndarray):
                np.sqrt(np.abs(lam), out=lam)
                lam[..., :1] = 2.0
                done.append("eigenvalues")
        except (ValueError, TypeError):
            pass
    return done


def gen_scribble_histories(ctx):
    """two-call histories: (first call, second call) — the harness modifies the arrays the first call returned IN PLACE and
    then makes the second call, which is judged like any other call.  kinds: 'same' (equal arguments, direct or interpolated,
    possibly spelled with other argument types) and 'via' (first the short exact set dpss_windows(M, NW, K), then the set
    interpolated from M, whose recursion asks for the same short set)."""
    rng = ctx.rng
    hs = []
    Ns = [rng.randint(16, 300) for _ in range(ctx.scale(21, 90))] + [rng.choice([1025, 2048])] + ([] if ctx.quick else [4096, 3001])
    for i, N in enumerate(Ns):
        for _ in range(20):
            M = max(8, rng.choice([N // 2, N // 3, N // 4, N - 1, (2 * N) // 3]))
            nws = [nw for nw in NWS if admissible(N, nw) and admissible(M, nw)]
            if nws and M < N:
                break
        else:
            continue
        nw = rng.choice(nws)
        K = rng.choice([int(2 * nw), rng.randint(1, int(2 * nw))])
        kd = rng.choice(KINDS)
        E = {"fam": "dpss", "N": N, "NW": nw, "Kmax": K}
        I = dict(E, interp_from=M, interp_kind=kd)
        S = {"fam": "dpss", "N": M, "NW": nw, "Kmax": K}
        form = rng.choice([None, None, "keywords", "np-int", "float-Kmax", "int-NW"])
        second = lambda x: dict(x, argform=form) if form else dict(x)
        which = i % 3
        if which == 0:
            hs.append(("same", dict(E), second(E)))
        elif which == 1:
            hs.append(("same", dict(I), second(I)))
        else:
            hs.append(("via", dict(S), second(I)))
    return hs


def run_scribble_history(ctx, mod, label, kind, a1, a2, stats, dense_limit, prior):
    """returns (number of dpss_windows runs, entry for the fresh-interpreter comparison or None); prior: the calls of earlier
    histories in this process (same solver form) whose results were modified in place — recorded as the history of a1"""
    o1 = run_dpss(mod, a1, keep_raw=True)
    for f in validate_dpss(a1, o1, stats, dense_limit=dense_limit):
        f.replay = {"entry_point": "nitime.utils.dpss_windows", "form": label}
        ctx.report_fail(f, Case("", dict(a1, form=label, **({"scribbled_before": [dict(x) for x in prior[-10:]]} if prior else {})),
                                "", False))
    if o1["t"] != "ok" or not (np.isfinite(o1["v"]).all() and np.isfinite(o1["lam"]).all()):
        return 1, None                                     # (known zero-pivot breakdown: no arrays to scribble on)
    d1 = digest(o1)
    r1 = o1["_raw"]
    modified = scribble(r1)
    prior.append(dict(a1))
    o2 = run_dpss(mod, a2, keep_raw=True)
    rec = dict(a2, form=label, scribbled_before=[dict(a1)])
    rp = {"entry_point": "nitime.utils.dpss_windows", "form": label,
          "history": "the arrays returned by the call(s) under scribbled_before were modified in place by the caller (%s) "
                     "before this call" % ", ".join(modified)}
    c2 = Case("", rec, "dpss/after-scribble/%s" % kind, True)
    ctx.count_case(c2)
    for f in validate_dpss(a2, o2, stats, dense_limit=dense_limit):
        f.replay = dict(rp)
        ctx.report_fail(f, c2)
    if o2["t"] == "ok":
        r2 = o2["_raw"]
        al = [n for n, x, y in (("tapers", r1[0], r2[0]), ("eigenvalues", r1[1], r2[1]), ("tapers/eigenvalues", r1[0], r2[1]),
                                ("eigenvalues/tapers", r1[1], r2[0]))
              if isinstance(x, np.ndarray) and isinstance(y, np.ndarray) and np.shares_memory(x, y)]
        if al:
            f = Fail("C07/dpss_windows/result-aliased", "the arrays returned by two dpss_windows calls share memory (%s): what a caller "
                     "does to one result changes the other" % ", ".join(al), al, "no shared memory", dict(rp))
            ctx.report_fail(f, c2)
    if kind == "same" and digest(o2) != d1 and not o2.get("zero_pivot"):
        f = Fail("C07/dpss_windows/history-dependent", "the same dpss_windows call repeated after the caller modified the first result "
                 "in place does not return the bit-identical result", digest(o2), d1, dict(rp))
        ctx.report_fail(f, c2)
    return 2, ((rec, label, digest(o2), rp) if (kind == "via" and not o2.get("zero_pivot")) else None)


FRESH_SCRIPT = r"""
import sys, json, warnings
warnings.filterwarnings('ignore')
repo, label, arg = sys.argv[1], sys.argv[2], json.loads(sys.argv[3])
sys.path.insert(0, repo)
import numpy as np
if label == 'pure-python':
    import importlib.util, nitime
    sys.modules['nitime._utils'] = None
    spec = importlib.util.spec_from_file_location('nitime_utils_purepy_c07', repo + '/nitime/utils.py')
    mod = importlib.util.module_from_spec(spec); spec.loader.exec_module(mod)
else:
    import nitime.utils as mod
kw = {}
if arg.get('interp_from') is not None:
    kw = {'interp_from': arg['interp_from'], 'interp_kind': arg.get('interp_kind', 'linear')}
try:
    with np.errstate(all='ignore'):
        v, lam = mod.dpss_windows(arg['N'], arg['NW'], arg['Kmax'], **kw)
    import hashlib
    print('DIGEST ' + hashlib.sha1(np.ascontiguousarray(np.array(v, dtype='d')).tobytes()
                                   + np.ascontiguousarray(np.array(lam, dtype='d')).tobytes()).hexdigest())
except Exception as ex:
    print('DIGEST exc:' + type(ex).__name__)
"""


def fresh_digest(label, a):
    """the same call made alone in a fresh interpreter (no call history)"""
    import subprocess
    env = dict(__import__("os").environ)
    arg = {k: a.get(k) for k in ("N", "NW", "Kmax", "interp_from", "interp_kind")}
    try:
        r = subprocess.run([sys.executable, "-W", "ignore", "-c", FRESH_SCRIPT, str(core.REPO), label, json.dumps(arg)],
                           capture_output=True, text=True, timeout=300, env=env)
        m = re.search(r"DIGEST (\S+)", r.stdout)
        return m.group(1) if m else "no-output:" + (r.stderr or "")[-200:]
    except subprocess.TimeoutExpired:
        return "exc:CallTimeout"


def corpus():
    p = core.VERIF / "harness" / "corpus" / "C07"
    out = []
    if p.exists():
        for f in sorted(p.glob("*.json")):
            d = json.loads(f.read_text())
            out.append(d.get("case") or d)
    return out


def zero_pivot_witness_cases(ctx, impls, stats, vruns):
    """replay the stored witnesses of the known zero-pivot finding first"""
    for a in corpus():
        if a.get("fam") == "dpss":
            for label, mod in impls.modules():
                out = run_dpss(mod, a)
                vruns.append((a, label))
                for f in validate_dpss(a, out, stats):
                    f.replay = {"entry_point": "nitime.utils.dpss_windows", "form": label}
                    ctx.report_fail(f, Case("", dict(a, form=label), "corpus", False))


def run(ctx):
    core.import_nitime()
    ctx.check_props()
    import time as _t
    tm = {}
    t0 = _t.time()
    impls = Impls(ctx)
    ctx.extra["solver_implementations"] = impls.info
    stats = {}
    vruns = []

    # ---- K, part 1: the solver against the Q model
    sys_cases = [a for a in corpus() if a.get("fam") == "solve"]
    sys_cases += [gen_system(ctx.rng) for _ in range(ctx.scale(450, 3000))]
    # large systems: a few with small-dyadic exact factorisation go through the Coq model as well (sizes at / just
    # above powers of two), the rest (random floats, n up to 5000; int / float32 arrays) through the float oracle only
    sys_cases += [gen_big_system(ctx.rng, n) for n in ([1025, 2049, 4097] if ctx.quick else [1000, 1025, 2049, 3001, 4097, 5000])]
    cases = [make_solve_case(impls, a) for a in sys_cases]
    float_cases = [run_float_case(impls, gen_float_system(ctx.rng, n))
                   for n in [64, 513, 1000, 1025, 2049, 4097, 5000] + [ctx.rng.randint(41, 5000) for _ in range(ctx.scale(8, 60))]]
    float_cases += [run_float_case(impls, gen_alt_dtype_system(ctx.rng)) for _ in range(ctx.scale(40, 300))]
    float_cases += [run_float_case(impls, a) for a in corpus() if a.get("fam") in ("solve-float", "solve-alt")]
    for a in float_cases:
        c = Case("", a, "%s/%s" % (a["fam"], a.get("dtype") or ("n=%d" % a["n"] if a["n"] > 1000 else "n<=1000")), True)
        ctx.count_case(c)
        for f in oracle_float_case(a):
            f.replay = {"entry_point": "nitime.utils.tridisolve / nitime._utils.tridisolve"}
            ctx.report_fail(f, c)

    # ---- K, part 2: discrete steps of dpss_windows on the implementation's own vectors
    kcfg, vcfg = gen_dpss_configs(ctx)
    zero_pivot_witness_cases(ctx, impls, stats, vruns)
    dpss_runs = []
    unobserved = []
    for a in kcfg:
        if _TIMEOUTS["n"] >= 5:
            ctx.notes.append("dpss_windows timed out repeatedly; remaining K configurations skipped")
            break
        for label, mod in impls.modules():
            out = run_dpss(mod, a)
            dpss_runs.append((a, label, out))
            kc = dpss_k_cases(a, out, label)
            cases += kc
            want = "rescale" if a.get("interp_from") is not None else "signs"
            if out["t"] == "ok" and np.isfinite(out["v"]).all() and not any(c.replay.get("step") == want for c in kc):
                unobserved.append(dict(a, form=label, observed_calls=len(out["calls"]), observed_interp=len(out["interp"])))
    lb = []
    for a in [x for x in corpus() if x.get("fam") == "lowbias"] + gen_lowbias(ctx):
        for label, mod in impls.modules()[:1] if a.get("ev") is None else impls.modules():
            c = make_lowbias_case(mod, a, label)
            if c is not None:
                lb.append(c)
    tm["run implementation for K cases"] = round(_t.time() - t0, 1)
    t0 = _t.time()
    kcases = cases + [c for c in lb if c.in_k]
    order = list(range(len(kcases)))
    ctx.rng.shuffle(order)                         # balance the shards (concentration cases are the heavy ones)
    kcases = [kcases[i] for i in order]
    kbad = ctx.check_cases("K", HEADER, kcases, "check", shard=ctx.scale(45, 120), case_type="case", timeout=1500)
    bad = {id(kcases[i]) for i in kbad}
    if kbad:
        # name the first disagreeing cases in the replay file of a broken correspondence lemma
        ctx.broken.append({"kind": "K-case", "lemma": "first cases on which the Coq model and the implementation disagree",
                           "detail": json.dumps([kcases[i].replay for i in sorted(kbad)[:3]], default=str)[:6000]})
    for c in lb:
        if not c.in_k:
            ctx.count_case(c)

    tm["coqc K shards"] = round(_t.time() - t0, 1)
    t0 = _t.time()
    # ---- search oracle on the K cases
    for c in kcases + [c for c in lb if not c.in_k]:
        a = c.replay
        fs = []
        if a["fam"] == "solve":
            fs = oracle_solve(a)
            ep = "nitime.utils.tridisolve / nitime._utils.tridisolve"
        elif a["fam"] == "lowbias":
            f = oracle_lowbias(a, a["observed"])
            fs = [f] if f else []
            ep = "nitime.utils.tapered_spectra(low_bias=True)"
        else:
            continue
        for f in fs:
            f.replay = {"entry_point": ep, "model_disagrees": id(c) in bad}
            ctx.report_fail(f, c)

    # ---- numerical validation (TESTS) = search oracle for dpss_windows, both solver forms
    nval = 0
    for a, label, out in dpss_runs:
        for f in validate_dpss(a, out, stats):
            f.replay = {"entry_point": "nitime.utils.dpss_windows", "form": label}
            ctx.report_fail(f, Case("", dict(a, form=label), "", False))
        nval += 1
    zp = []
    for a in vcfg:
        if len(ctx.violations) >= 300:
            ctx.notes.append("search stopped after 300 failing inputs; remaining validation configurations not run")
            break
        if _TIMEOUTS["n"] >= 5:
            ctx.notes.append("dpss_windows timed out repeatedly; remaining validation configurations skipped")
            break
        for label, mod in impls.modules():
            out = run_dpss(mod, a)
            fs = validate_dpss(a, out, stats, dense_limit=ctx.scale(520, 1100))
            nval += 1
            for f in fs:
                f.replay = {"entry_point": "nitime.utils.dpss_windows", "form": label}
                if f.key == ZP_DPSS:
                    zp.append([a["N"], a["NW"], label])
                ctx.report_fail(f, Case("", dict(a, form=label), "", False))
    tm["oracles + numerical validation"] = round(_t.time() - t0, 1)
    # ---- call history: sibling sequences (every call judged), purity against a fresh interpreter, re-runs at the end
    t0 = _t.time()
    history = []                                   # (args, label, digest) of calls whose result is re-checked
    nseq = 0
    for seq in gen_sequences(ctx):
        if _TIMEOUTS["n"] >= 5 or len(ctx.violations) >= 300:
            break
        for label, mod in impls.modules():
            for pos, a in enumerate(seq):
                out = run_dpss(mod, a)
                nval += 1
                for f in validate_dpss(a, out, stats, dense_limit=ctx.scale(520, 1100)):
                    f.replay = {"entry_point": "nitime.utils.dpss_windows", "form": label,
                                "after_calls_in_this_process": [dict(x) for x in seq[:pos]]}
                    ctx.report_fail(f, Case("", dict(a, form=label), "", False))
                if not out.get("zero_pivot"):
                    history.append((a, label, digest(out), [dict(x) for x in seq[:pos]]))
        nseq += 1
    # (a) a sample of the calls made after siblings, repeated alone in a fresh interpreter: bit-identical
    sample = [h for h in history if h[3]]
    ctx.rng.shuffle(sample)
    sample = sample[:ctx.scale(16, 64)]
    with concurrent.futures.ThreadPoolExecutor(max_workers=8) as ex:
        fresh = list(ex.map(lambda h: fresh_digest(h[1], h[0]), sample))
    npure = 0
    for (a, label, dg, before), fd in zip(sample, fresh):
        npure += 1
        if fd != dg:
            f = Fail("C07/dpss_windows/history-dependent", "dpss_windows returns a different result after earlier calls in the same "
                     "process than when called alone in a fresh interpreter (a result must not depend on call history)",
                     dg, fd, {"entry_point": "nitime.utils.dpss_windows", "form": label, "after_calls_in_this_process": before})
            ctx.report_fail(f, Case("", dict(a, form=label), "", False))
    # (b) a sample of earlier calls repeated now, at the end of the run: bit-identical
    again = list(history)
    ctx.rng.shuffle(again)
    for a, label, dg, before in again[:ctx.scale(40, 200)]:
        out = run_dpss(impls.module(label), a)
        npure += 1
        if digest(out) != dg:
            f = Fail("C07/dpss_windows/history-dependent", "the same dpss_windows call repeated at the end of the run does not return "
                     "the bit-identical result", dg, digest(out),
                     {"entry_point": "nitime.utils.dpss_windows", "form": label, "after_calls_in_this_process": before})
            ctx.report_fail(f, Case("", dict(a, form=label), "", False))
    # (c) two-call histories with the first result modified in place by the caller in between; the second call is judged
    #     by every test above, must be bit-identical to the first (equal arguments) / to a fresh interpreter (via interp_from)
    nscr = 0
    viaq = []
    prior = {label: [] for label, _ in impls.modules()}
    for kind, a1, a2 in gen_scribble_histories(ctx):
        if _TIMEOUTS["n"] >= 5 or len(ctx.violations) >= 300:
            break
        for label, mod in impls.modules():
            n, ent = run_scribble_history(ctx, mod, label, kind, a1, a2, stats, ctx.scale(520, 1100), prior[label])
            nval += n
            nscr += 1
            if ent:
                viaq.append(ent)
    viaq = viaq[:ctx.scale(12, 48)]
    with concurrent.futures.ThreadPoolExecutor(max_workers=8) as ex:
        fresh = list(ex.map(lambda h: fresh_digest(h[1], h[0]), viaq))
    for (rec, label, dg, rp), fd in zip(viaq, fresh):
        npure += 1
        if fd != dg:
            f = Fail("C07/dpss_windows/history-dependent", "dpss_windows returns a different result after the caller modified an earlier "
                     "result in place than when called alone in a fresh interpreter", dg, fd, dict(rp))
            ctx.report_fail(f, Case("", rec, "dpss/after-scribble/via", True))
    ctx.extra["call_history_tests"] = {"sibling_sequences": nseq, "calls_per_sequence": 6,
                                       "scribble_histories(first result modified in place, second call judged)": nscr,
                                       "purity_comparisons(fresh interpreter + end-of-run repeats)": npure}
    tm["sibling sequences + purity"] = round(_t.time() - t0, 1)
    # observation points: every un-failed direct run must show its inverse iterations, every interpolated run its interp1d calls
    ctx.obligation("K", "tie:intermediate vectors of dpss_windows observed (tridi_inverse_iteration / interp1d)", not unobserved,
                   json.dumps(unobserved[:5], default=str))
    ctx.extra["timing_s"] = tm
    ctx.extra["numerical_validation_TESTS_not_proofs"] = {
        "what": "orthonormality <= 1e-8, concentrations in (0,1] (1e-9 rounding slack) and non-increasing, max|S v - lambda v| <= 1e-7 "
                "for the sinc kernel, k-th eigenvalue / eigenvector of dense eigh, scipy.signal.windows.dpss (vectors 1e-6, ratios 1e-8), "
                "sign convention, unit norm of interpolated tapers 1e-12; run for every solver form present",
        "dpss_windows_runs": nval,
        "largest_deviation_observed": {k: (float("%.3g" % v) if isinstance(v, float) else v) for k, v in stats.items()},
        "N_range": [8, 4096],
        "zero_pivot_breakdowns(N,NW)": sorted(set((z[0], z[1]) for z in zp))[:80],
        "zero_pivot_breakdown_runs": len(zp),
    }
    ctx.extra["model_impl_disagreements"] = len(bad)
    ctx.extra["rule"] = (
        "seeded generator: tridiagonal systems n=1..40 (diag-dominant / indefinite / shifted Slepian matrix / exact zero pivot; "
        "dyadic entries; e of length n or n-1; overwrite_b both ways) run through every solver form present; dpss_windows for N=8..%d "
        "x admissible NW x Kmax (direct and interpolated) with the intermediate vectors observed at tridi_inverse_iteration / interp1d; "
        "tapered_spectra low_bias with real and stubbed eigenvalues around 0.9; non-trivial = n>=2 system / a run that returned tapers; "
        "distinct by hash of the Coq term" % ctx.scale(40, 64))
    return ctx.finish(
        level="proof",
        explanation=(
            "PARTIAL PROOF. Proved for all sizes over the model: tridisolve (three loops, work vectors) returns the unique solution of "
            "T(d,e)x=b when all pivots are non-zero; reversal of ascending eigenvalues is non-increasing; sign-flip postconditions and "
            "invariance of norm/eigen-relation; the autocorrelation formula equals v^T S v for the sinc kernel (so a unit eigenvector gets "
            "its eigenvalue); low_bias keeps exactly eigenvalue > 0.9 in order (a prefix when non-increasing); rescale gives unit norm. "
            "NOT proved: convergence of LAPACK eigvals_banded + inverse iteration to eigenvectors (hence orthonormality, range, order of "
            "the concentrations, agreement with references) — run as numerical tests, see numerical_validation_TESTS_not_proofs."),
        trusted=["LAPACK eigvals_banded returns the selected eigenvalues in ascending order; np.sinc, np.cos, np.sqrt, scipy interp1d, "
                 "FFT-based autocorr: library kernels whose values enter the correspondence as data",
                 "the built extension nitime._utils is compared as found; no Cython in the sandbox, it cannot be rebuilt from a changed "
                 "_utils.pyx — the .pyx source is tied through its body executed as Python (cdef/type declarations stripped)"],
        assumptions=["float results are compared with the exact Q model under tolerance (1e-7 of max|x| for the solver on systems whose "
                     "exact pivots are >= 1/16 and multipliers <= 8; 1e-9 for the concentration)",
                     "numerical convergence of the eigen-solver is validated by tests only (partial proof)"])


def replay(ctx, path):
    core.import_nitime()
    d = json.loads(open(path).read())
    a = d.get("case") or d
    impls = Impls(ctx)
    fam = a.get("fam")
    fails = []
    if fam == "solve":
        c = make_solve_case(impls, {k: v for k, v in a.items() if k not in ("observed", "zero_pivot")})
        fails = oracle_solve(c.replay)
        print(json.dumps(c.replay, indent=1))
    elif fam in ("solve-float", "solve-alt"):
        r = run_float_case(impls, {k: v for k, v in a.items() if k != "observed"})
        fails = oracle_float_case(r)
        print(json.dumps({k: (v if k not in ("d", "e", "b") or len(v) <= 16 else "%d values" % len(v)) for k, v in r.items()
                          if k != "observed"}, indent=1))
        print({k: (v["t"], v.get("cls"), v.get("modified")) for k, v in r["observed"].items()})
    elif fam == "lowbias":
        mod = impls.module(a.get("form", ""))
        o = run_lowbias(mod, a)
        f = oracle_lowbias(a, o)
        fails = [f] if f else []
        print(json.dumps(o, indent=1))
    elif fam == "dpss":
        mod = impls.module(a.get("form", ""))
        held = []
        for b in a.get("scribbled_before") or []:         # history: earlier calls whose results the caller modified in place
            ob = run_dpss(mod, b, keep_raw=True)
            if ob["t"] == "ok":
                held.append(ob["_raw"])
                print("earlier call %s: modified in place: %s" % (json.dumps(b), scribble(ob["_raw"])))
        out = run_dpss(mod, a, keep_raw=True)
        fails = validate_dpss(a, out, {})
        if out["t"] == "ok" and any(isinstance(x, np.ndarray) and isinstance(y, np.ndarray) and np.shares_memory(x, y)
                                    for h in held for x in h for y in out["_raw"]):
            fails.append(Fail("C07/dpss_windows/result-aliased", "result shares memory with the result of an earlier call", None, None))
        print(json.dumps({"args": {k: a.get(k) for k in ("N", "NW", "Kmax", "interp_from", "interp_kind", "flip", "argform")},
                          "form": a.get("form"), "result": out["t"], "exception": out.get("cls")}, indent=1))
    else:
        print("replay file names no input (broken lemma only): %s" % json.dumps(d)[:2000])
        return 1
    for f in fails:
        print("FAILS: [%s] %s" % (f.key, f.what))
    if not fails:
        print("passes on the current tree")
    return 1 if fails else 0
